/-
  C21 — property theorems: orbital rotation matrices form an orthogonal representation; Wannier representation
  matrices are unitary.   (helper lemmas: WB/Lemmas/C21.lean, C21D.lean, C21H.lean)

  Conventions of the code (orbitals.py): `S = inv(rot_glb)`; `orb_rot_mat[j,i]` is the coefficient of orbital j in
  `φ_i(S·r)`, i.e.  φ_i(R⁻¹ r) = Σ_j φ_j(r) A_ji(R).  In terms of S the representation property A(R₁R₂) = A(R₁)A(R₂)
  reads  A(S₂·S₁) = A(S₁)·A(S₂).   `Orth3 S` means S Sᵀ = 1 (proper AND improper rotations).
  `r3` is any element of the field with r3·r3 = 3 (√3); `FConst r15 r10 r6` : r15² = 15, r10² = 10, r6² = 6.
-/
import WB.Lemmas.C21D
import WB.Lemmas.C21F3
import WB.Lemmas.C21H
import Mathlib.Analysis.Real.Sqrt

namespace WB.C21
open Matrix

/-! ## T1  substitution is functorial ⇒ composition law (abstract) -/

/-- T1.  For any family `φ` with unique coefficient vectors: if `φ_i∘g₂ = Σ_j B_ji φ_j`, `φ_j∘g₁ = Σ_l A_lj φ_l` and
    `φ_i∘(g₂∘g₁) = Σ_l C_li φ_l` then `C = A·B`. -/
theorem subst_functorial {K : Type} [CommRing K] {X : Type} {n : Type} [Fintype n] [DecidableEq n]
    (φ : n → X → K)
    (hindep : ∀ c : n → K, (∀ x, ∑ l, φ l x * c l = 0) → ∀ l, c l = 0)
    (g1 g2 : X → X) (A B C : Matrix n n K)
    (h2 : ∀ i x, φ i (g2 x) = ∑ j, φ j x * B j i)
    (h1 : ∀ j x, φ j (g1 x) = ∑ l, φ l x * A l j)
    (h12 : ∀ i x, φ i (g2 (g1 x)) = ∑ l, φ l x * C l i) :
    C = A * B :=
  subst_functorial_aux φ hindep g1 g2 A B C h2 h1 h12

/-! ## T2  the explicit p and d matrices -/

section shells
variable {K : Type} [Field K]

/-- p: the matrix built by the code really is the matrix of the substitution, for every 3×3 matrix `S` -/
theorem p_expansion (S : M3 K) (i : Fin 3) (v : V3 K) :
    pFun i (mulVec3 S v) = sum3 (fun j => pFun j v * rotP S j i) :=
  rotP_expand S i v

/-- p: composition law (every pair of matrices) -/
theorem p_composition (S1 S2 : M3 K) (j i : Fin 3) :
    rotP (mulM3 S2 S1) j i = sum3 (fun l => rotP S1 j l * rotP S2 l i) :=
  rotP_comp S1 S2 j i

/-- p: identity for the identity rotation -/
theorem p_identity (j i : Fin 3) : rotP (one3 : M3 K) j i = if j = i then 1 else 0 :=
  rotP_one j i

/-- p: orthogonal for every orthogonal `S` (proper or improper): `AᵀA = 1` -/
theorem p_orthogonal (S : M3 K) (hS : Orth3 S) (i i' : Fin 3) :
    sum3 (fun j => rotP S j i * rotP S j i') = if i = i' then 1 else 0 := by
  have h := hS (pIdx i) (pIdx i')
  have hinj : (pIdx i = pIdx i') ↔ (i = i') := by
    fin_cases i <;> fin_cases i' <;> simp [pIdx]
  simp only [hinj] at h
  rw [← h]
  have e0 : pIdx (0 : Fin 3) = 2 := rfl
  have e1 : pIdx (1 : Fin 3) = 0 := rfl
  have e2 : pIdx (2 : Fin 3) = 1 := rfl
  simp only [rotP, sum3, e0, e1, e2]
  ring

/-- p is odd under inversion: `A(−S) = −A(S)` -/
theorem p_parity (S : M3 K) (j i : Fin 3) : rotP (fun a b => -S a b) j i = -rotP S j i :=
  rotP_neg S j i

variable [CharZero K] {r3 : K}

/-- d: the matrix built by the code is the matrix of the substitution for every ORTHOGONAL `S`
    (for other `S` the substituted function leaves the d shell) -/
theorem d_expansion (hr : r3 * r3 = 3) (S : M3 K) (hS : Orth3 S) (i : Fin 5) (v : V3 K) :
    dFun r3 i (mulVec3 S v) = sum5 (fun j => dFun r3 j v * rotD r3 S j i) :=
  rotD_expand hr S hS i v

/-- d: composition law `A(S₂S₁) = A(S₁)A(S₂)` for orthogonal matrices (instance of T1: `rotD_comp` is proved from
    `d_expansion`, `(S₂S₁)r = S₂(S₁r)` and the linear independence of the five d functions) -/
theorem d_composition (hr : r3 * r3 = 3) (S1 S2 : M3 K) (h1 : Orth3 S1) (h2 : Orth3 S2) (l i : Fin 5) :
    rotD r3 (mulM3 S2 S1) l i = sum5 (fun j => rotD r3 S1 l j * rotD r3 S2 j i) :=
  rotD_comp hr S1 S2 h1 h2 l i

/-- d: identity for the identity rotation -/
theorem d_identity (hr : r3 * r3 = 3) (j i : Fin 5) : rotD r3 (one3 : M3 K) j i = if j = i then 1 else 0 :=
  rotD_one hr j i

/-- d: orthogonal for every orthogonal `S`, proper or improper: `AᵀA = 1` -/
theorem d_orthogonal (hr : r3 * r3 = 3) (S : M3 K) (hS : Orth3 S) (i i' : Fin 5) :
    sum5 (fun j => rotD r3 S j i * rotD r3 S j i') = if i = i' then 1 else 0 :=
  rotD_orthogonal_aux hr S hS i i'

omit [CharZero K] in
/-- d is even under inversion: `A(−S) = A(S)` -/
theorem d_parity (S : M3 K) (j i : Fin 5) : rotD r3 (fun a b => -S a b) j i = rotD r3 S j i :=
  rotD_neg r3 S j i

/-! ### f shell (`r15, r10, r6` = √15, √10, √6; proofs go through the integer-coefficient cubics g_i = n_i f_i, for which
    the matrix has rational entries: `rotF j i = n_j · rotG j i / n_i`, WB/Lemmas/C21F*.lean) -/

variable {r15 r10 r6 : K}

/-- f: the matrix built by the code is the matrix of the substitution for every orthogonal `S` -/
theorem f_expansion (h : FConst r15 r10 r6) (S : M3 K) (hS : Orth3 S) (i : Fin 7) (v : V3 K) :
    fFun r15 r10 r6 i (mulVec3 S v) = sum7 (fun j => fFun r15 r10 r6 j v * rotF r15 r10 r6 S j i) :=
  rotF_expand h S hS i v

/-- f: composition law `A(S₂S₁) = A(S₁)A(S₂)` for orthogonal matrices (from `f_expansion`, functoriality of the
    substitution and the linear independence of the seven cubics) -/
theorem f_composition (h : FConst r15 r10 r6) (S1 S2 : M3 K) (h1 : Orth3 S1) (h2 : Orth3 S2) (l i : Fin 7) :
    rotF r15 r10 r6 (mulM3 S2 S1) l i = sum7 (fun j => rotF r15 r10 r6 S1 l j * rotF r15 r10 r6 S2 j i) :=
  rotF_comp h S1 S2 h1 h2 l i

/-- f: identity for the identity rotation -/
theorem f_identity (h : FConst r15 r10 r6) (j i : Fin 7) :
    rotF r15 r10 r6 (one3 : M3 K) j i = if j = i then 1 else 0 :=
  rotF_one h j i

/-- f: orthogonal for every orthogonal `S`, proper or improper: `AᵀA = 1` (and `AAᵀ = 1`).  Proved from the
    addition theorem Σ_j f_j(u) f_j(v) = P₃-kernel(u·v, |u|², |v|²), which is invariant under `S`. -/
theorem f_orthogonal (h : FConst r15 r10 r6) (S : M3 K) (hS : Orth3 S) (i i' : Fin 7) :
    sum7 (fun j => rotF r15 r10 r6 S j i * rotF r15 r10 r6 S j i') = (if i = i' then 1 else 0) ∧
    sum7 (fun j => rotF r15 r10 r6 S i j * rotF r15 r10 r6 S i' j) = (if i = i' then 1 else 0) :=
  ⟨rotF_cols h S hS i i', rotF_rows h S hS i i'⟩

omit [CharZero K] in
/-- f is odd under inversion: `A(−S) = −A(S)` -/
theorem f_parity (S : M3 K) (j i : Fin 7) :
    rotF r15 r10 r6 (fun a b => -S a b) j i = -rotF r15 r10 r6 S j i :=
  rotF_neg S j i

/-- Every shell s, p, d, f: the matrix is orthogonal for every `S` with `S Sᵀ = 1`.
    (The s shell is the constant function 1, its matrix is the 1×1 matrix (1) for every `S`.) -/
theorem shells_orthogonal (hr : r3 * r3 = 3) (h : FConst r15 r10 r6) (S : M3 K) (hS : Orth3 S) :
    ((1 : K) * 1 = 1) ∧
    (∀ i i' : Fin 3, sum3 (fun j => rotP S j i * rotP S j i') = if i = i' then 1 else 0) ∧
    (∀ i i' : Fin 5, sum5 (fun j => rotD r3 S j i * rotD r3 S j i') = if i = i' then 1 else 0) ∧
    (∀ i i' : Fin 7, sum7 (fun j => rotF r15 r10 r6 S j i * rotF r15 r10 r6 S j i') = if i = i' then 1 else 0) :=
  ⟨one_mul 1, p_orthogonal S hS, d_orthogonal hr S hS, fun i i' => (f_orthogonal h S hS i i').1⟩

end shells

/-- non-vacuity: a Pythagorean rotation composed with a mirror is orthogonal (improper), and √3 exists in ℝ -/
example : Orth3 (fun a b => ([[3/5, 4/5, 0], [4/5, -3/5, 0], [0, 0, -1]] : List (List Rat)).getD a.val [] |>.getD b.val 0) := by
  unfold Orth3; decide +kernel
example : ∃ r3 : ℝ, r3 * r3 = 3 := ⟨Real.sqrt 3, Real.mul_self_sqrt (by norm_num)⟩
example : FConst (Real.sqrt 15) (Real.sqrt 10) (Real.sqrt 6) :=
  ⟨Real.mul_self_sqrt (by norm_num), Real.mul_self_sqrt (by norm_num), Real.mul_self_sqrt (by norm_num)⟩

/-! ## T5  local frames built from a user-given z axis (`read_xzaxis`, before normalisation) -/

/-- T5a.  For EVERY z axis and every reference vector the Gram–Schmidt vector of the code is perpendicular to z, and
    y = z × x is perpendicular to both: the frame is orthogonal whatever the direction of z. -/
theorem frame_orthogonal {K : Type} [CommRing K] (z b : V3 K) :
    dotV (perpCoplanar z b) z = 0 ∧ dotV (cross3 z (perpCoplanar z b)) z = 0 ∧
      dotV (cross3 z (perpCoplanar z b)) (perpCoplanar z b) = 0 := by
  refine ⟨?_, ?_, ?_⟩ <;> simp [dotV, perpCoplanar, cross3] <;> ring

/-- T5b.  Its squared length is `|z × b|² |z|²` (Lagrange), so it can be normalised exactly when z is not collinear with
    the reference - the admissibility condition the code tests. -/
theorem frame_x_norm {K : Type} [CommRing K] (z b : V3 K) :
    dotV (perpCoplanar z b) (perpCoplanar z b) = dotV (cross3 z b) (cross3 z b) * dotV z z := by
  simp [dotV, perpCoplanar, cross3]; ring

/-- T5c.  The shortcut "z nearly along x: use the Cartesian y" breaks orthogonality: for z = (1, 1/125, 0) (0.46° off the
    x axis) it returns x = (0,1,0) with x·z = 1/125 ≠ 0, whereas the code's rule gives x·z = 0. -/
theorem frame_shortcut_not_orthogonal :
    let z : V3 Rat := fun a => match a.val with | 0 => 1 | 1 => 1 / 125 | _ => 0
    dotV (frameXShortcut z) z ≠ 0 ∧ dotV (frameX z) z = 0 ∧ dotV (frameX z) (frameX z) ≠ 0 := by
  decide +kernel

/-- non-vacuity of T5a/b: a generic z axis gives a non-zero x axis -/
example : dotV (frameX (fun a : Fin 3 => ((a.val : Int) : Rat) + 1)) (frameX (fun a : Fin 3 => ((a.val : Int) : Rat) + 1)) = 182 := by
  decide +kernel

/-! ## T3  hybrids  `M · A · Mᵀ` -/

section hybrids
variable {K : Type} [CommRing K] {h b : Type} [Fintype h] [Fintype b] [DecidableEq h] [DecidableEq b]

/-- T3a.  If the rows of `M` are orthonormal (`M Mᵀ = 1`, asserted by the code for every hybrid) and the shell
    matrix `A` is orthogonal and commutes with the projector `MᵀM` onto the hybrid subspace (= the subspace is
    invariant under the rotation), the hybrid matrix is orthogonal. -/
theorem hybrid_orthogonal (M : Matrix h b K) (hM : M * Mᵀ = 1) (A : Matrix b b K) (hA : Aᵀ * A = 1)
    (hc : A * (Mᵀ * M) = (Mᵀ * M) * A) :
    (M * A * Mᵀ)ᵀ * (M * A * Mᵀ) = 1 :=
  hybrid_orthogonal_aux M hM A hA hc

omit [DecidableEq b] in
/-- T3b.  … and composing rotations composes the hybrid matrices. -/
theorem hybrid_multiplicative (M : Matrix h b K) (hM : M * Mᵀ = 1) (A1 A2 : Matrix b b K)
    (hc : A2 * (Mᵀ * M) = (Mᵀ * M) * A2) :
    (M * A1 * Mᵀ) * (M * A2 * Mᵀ) = M * (A1 * A2) * Mᵀ :=
  hybrid_mul_aux M hM A1 A2 hc

omit [Fintype h] in
/-- T3c.  identity for the identity -/
theorem hybrid_identity (M : Matrix h b K) (hM : M * Mᵀ = 1) : M * (1 : Matrix b b K) * Mᵀ = 1 :=
  hybrid_one_aux M hM

omit [DecidableEq h] in
/-- T3d.  When `M` is square-orthogonal (`MᵀM = 1`: the hybrids span the whole of the shells used, e.g. sp3 = s⊕p)
    the invariance hypothesis holds for EVERY rotation. -/
theorem hybrid_full_span_commutes (M : Matrix h b K) (hM' : Mᵀ * M = 1) (A : Matrix b b K) :
    A * (Mᵀ * M) = (Mᵀ * M) * A := by
  rw [hM', Matrix.mul_one, Matrix.one_mul]

end hybrids

/-- non-vacuity: the sp3 hybrid matrix of the code (rows sp3-1..4, columns s, pz, px, py up to the code's shell order)
    has orthonormal rows AND columns, so T3a-c apply to it for every rotation (T3d) -/
def sp3M : Matrix (Fin 4) (Fin 4) ℚ :=
  !![1/2, 1/2, 1/2, 1/2; 1/2, -1/2, 1/2, -1/2; 1/2, -1/2, -1/2, 1/2; 1/2, 1/2, -1/2, -1/2]

example : sp3M * sp3Mᵀ = 1 ∧ sp3Mᵀ * sp3M = 1 := by
  constructor <;>
  · ext i j
    fin_cases i <;> fin_cases j <;>
      simp [sp3M, Matrix.mul_apply, Fin.sum_univ_four] <;> norm_num

/-- T3e.  The executable model of `rot_orb` for hybrids is the matrix product of T3a–c. -/
theorem hybridRot_is_product {K : Type} [CommRing K] (h b : Nat) (M A : Nat → Nat → K) :
    (Matrix.of fun (i j : Fin h) => hybridRot b M A i j)
      = (Matrix.of fun (i : Fin h) (k : Fin b) => M i k) * (Matrix.of fun (k l : Fin b) => A k l)
        * (Matrix.of fun (i : Fin h) (k : Fin b) => M i k)ᵀ :=
  hybridRot_eq h b M A

/-! ## T4  the Wannier representation matrix `Dwann.get_on_points` -/

/-- T4a.  A block-permutation matrix with unitary blocks and unimodular phases is unitary. -/
theorem dwann_unitary {K : Type} [CommRing K] [StarRing K] {ι : Type} [Fintype ι] [DecidableEq ι]
    {m : Type} [Fintype m] [DecidableEq m]
    (π : Equiv.Perm ι) (c : ι → K) (U : ι → Matrix m m K)
    (hc : ∀ i, star (c i) * c i = 1) (hU : ∀ i, (U i)ᴴ * U i = 1) :
    (Dblock π c U)ᴴ * Dblock π c U = 1 :=
  Dblock_unitary_aux π c U hc hU

/-- T4b.  The model of the code has exactly this block form: the block of columns of centre `i` sits in the block of
    rows of its image `atommap i` and carries `phase i · rot_orb i`. -/
theorem dwann_maps_centre_to_image {K : Type} [Mul K] [OfNat K 0] (m : Nat) (atm : Nat → Nat) (phase : Nat → K)
    (rot : Nat → Nat → Nat → K) (j i a b : Nat) (ha : a < m) (hb : b < m) :
    dwann m atm phase rot (j * m + a) (i * m + b) = if atm i = j then phase i * rot i a b else 0 :=
  dwann_block m atm phase rot j i a b ha hb

end WB.C21
