"""Properties that are NOT claimed, with the reason (goes to MANIFEST.not_applicable).
Claimed properties carry their own CLAIM dict in harness/props/<id>.py."""

PENDING_REASON = "check not built yet (DESIGN.md section 3 describes the planned model and theorems)"
NOT_APPLICABLE = {}

# properties whose check has been integrated and verified quiet on the unchanged tree (seeds 0-3 + thorough)
READY = ["C04", "C05", "C10", "C11", "C12", "C15", "C20", "C22", "C23", "C24", "C27", "C29"]
