"""Properties that are NOT claimed, with the reason (goes to MANIFEST.not_applicable).
Claimed properties carry their own CLAIM dict in harness/props/<id>.py."""

PENDING_REASON = "check not built yet (DESIGN.md section 3 describes the planned model and theorems)"
NOT_APPLICABLE = {}

# properties whose check has been integrated and verified quiet on the unchanged tree (seeds 0-3 + thorough)
READY = ["C07", "C01", "C02", "C03", "C04", "C05", "C06", "C08", "C09", "C10", "C11", "C12", "C13", "C14", "C15", "C16", "C17", "C18", "C19", "C20", "C21", "C22", "C23", "C24", "C25", "C26", "C27", "C28", "C29", "C30", "C31", "C32", "C33"]
