"""Claims per property (text that goes into MANIFEST.json).  A property is claimed when a module
harness/props/<id>.py and a theorem file lean/WB/Props/<ID>.lean exist; everything else is listed under
not_applicable with the reason given here."""

CLAIMS = {
    "C15": dict(
        design="3/C15",
        technique="Lean 4 proof over an index-level model (get_borders / select_window_degen) + exact differential "
                  "correspondence on dyadic energies + property oracle on the real code",
        text="Theorems (for every band count, threshold, window and Kramers flag): the blocks partition the bands, "
             "internal gaps <= thresh, every boundary has a gap > thresh (even index with Kramers) and every such "
             "index is a boundary; window selection never separates bands closer than thresh, include only adds, "
             "exclude only removes.  The model is tied to the code by running both on the same exact inputs.",
        note="Trusted: Lean kernel + Mathlib; the harness; numpy float comparisons on dyadic inputs are exact. "
             "Tabulator value assignment and Data_K glue are checked on the real code, not modelled.",
    ),
}

PENDING_REASON = "check not built yet in this session (see DESIGN.md section 3 for the planned model and theorems)"
NOT_APPLICABLE = {}
