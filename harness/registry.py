"""Properties that are NOT claimed, with the reason (goes to MANIFEST.not_applicable).
Claimed properties carry their own CLAIM dict in harness/props/<id>.py."""

PENDING_REASON = "check not built yet (DESIGN.md section 3 describes the planned model and theorems)"
NOT_APPLICABLE = {}
