"""C04 - interpolated k-resolved quantities are periodic in k and independent of the gauge inside degenerate subspaces."""
import numpy as np
from fractions import Fraction as Fr

from ..common import rats, rat, ratss, ints, intss, quiet, F

PID = "C04"
CLAIM = dict(
    design="3/C04",
    technique="Lean 4 proofs (Mathlib matrices over any field with conjugation; Complex.exp for the phase) + an "
              "executable Rat/Gaussian-rational model of the k-point bookkeeping, Data_K.degen, Data_K._rotate and the "
              "random-gauge column mixing, tied to the real functions on exact inputs + property oracle on the real code "
              "(k vs k+G; random_gauge on/off through evaluate_k and run())",
    text="Proved: (k+G)%1 = k%1 and k_to_1BZ(k+G) = k_to_1BZ(k) for integer G, exp(2 pi i (k+G).R) = exp(2 pi i k.R) (and "
         "the N-th-root-of-unity version for FFT grids), hence equal Fourier sums; tr(U^H X U) = tr X; chains of ANY number "
         "of inner factors (FormulaProduct; a transposed last factor is shown NOT invariant); D_H is covariant under every "
         "unitary that mixes only states of exactly equal energy; a group trace is invariant when the group is closed "
         "under the gauge's mixing and NOT when a 4-fold subspace is cut into two pairs; Data_K.degen groups have >= 2 bands with internal gaps <= "
         "threshold and the random gauge touches no other column.  GENERAL THEOREM (formula_expr_covariant): every "
         "expression built from blocks of Hamiltonian-gauge matrices by sums, products over the inner or outer set, "
         "Hermitian conjugation, scalar factors, element-wise functions of the two band energies and generalised "
         "derivatives is covariant under independent unitary rotations of the inner and of the outer states that mix only "
         "states of exactly equal energy, so its trace (and Re/Im of it) is gauge invariant.  The formula classes are "
         "structure terms of that syntax, each checked entry-by-entry against the real class on exact inputs: Omega, "
         "DerOmega, Der2Omega, Morb_H, Morb_Hpm/morb, DerMorb_H, DerMorb/Dermorb, Der2Morb_H, Der2Morb/Der2morb, InvMass, "
         "Der3E, Spin, DerSpin, Der2Spin (= Der2A/B/O/H), Velocity, DerDcov, Der2Dcov, DerWln, Matrix_GenDer_ln, "
         "VelVelVel, VelMassVel, MassVel, VelOmega (internal and external terms).  PARTIAL only in: SpinVelocity/SpinOmega "
         "(need SH/SA/SHA matrices; element-wise .imag), the *_test / FormulaSymmetric (tildeFab...) classes, the SDCT "
         "formulas, eigh itself and near- (not exactly) degenerate groups - these stay oracle-only.",
    note="Trusted: Lean kernel + Mathlib; harness; numpy eigh/einsum/exp/FFT and scipy unitary_group.  Theorems over exact "
         "fields; oracle tolerance 1e-8 relative to the size of the quantity (observed differences 1e-14).",
)
TRUSTED = [
    "modelled: Data_K.kpoints_all (% 1), SystemKP.k_to_1BZ, expdK on the quarter grid, Data_K.degen, Data_K._rotate, "
    "the column mixing of Data_K.UU_K(random_gauge), FormulaProduct.nn/trace for Matrix_ln factors (1-4 factors)",
    "formula classes are modelled as structure terms (CExpr) whose evaluator is the object of the soundness theorem and is "
    "run by the driver; the hypothesis of that theorem - every Xbar(name, der) block goes to U_r^H X U_c - is how "
    "Data_K._rotate acts when the eigenvector matrix is multiplied by a block-diagonal unitary (rotate_eq, blocks_of_conj)",
    "the real classes are evaluated on a Data_K_R object created without __init__, with exact Xbar matrices and energies "
    "injected; dEig_inv, D_H, Dcov, covariant() are then the real code",
    "not modelled (oracle only): eigh, R_to_k/FFT, SpinVelocity/SpinOmega, *_test and FormulaSymmetric classes, SDCT, "
    "calculators' accumulation, run()",
    "numpy float arithmetic on dyadic inputs is exact (used for exact comparisons in the correspondence)",
]
RULE = ("corr: dyadic k/grid points with integer shifts of both signs, quarter-grid phases, sorted dyadic spectra with "
        "multiplets (gaps 0, below, at and above the threshold), Gaussian-dyadic matrices of size 2-5, 1-3 k-points with "
        "recorded 'random' group matrices; oracle: random Hermitian systems with Ham, AA, BB, CC, SS (2-5 Wannier "
        "functions), random k and G of both signs, k.p systems, systems with exact doublets/triplets (paired and unpaired "
        "centres), systems tuned to have an exact 2- or 3-fold band-touching point on a grid k-point (velocity block not "
        "proportional to 1, checked), 16 tabulators, every FormulaProduct/FormulaSum of formula.covariant as a tabulator "
        "and every StaticCalculator that can be evaluated (found by introspection; 27 of 34, incl. the three-factor "
        "Hall_classic_FermiSurf, NLDrude_Fermider2, eMChA_FermiSurf).  non-trivial = G != 0 / at least one multiplet is rotated; "
        "distinct = distinct (kind, seed, parameters).  Every public route to k-resolved quantities is exercised "
        "on systems with exact multiplets whose members differ (band-touching, PT-symmetric pairs H0/H0^T, H0 (x) 1_m with "
        "arbitrary external matrices): evaluate_k(quantities=all of available_quantities) with iband None / list / int / "
        "single quantity, evaluate_k(formula=...) traced over complete groups, evaluate_k(calculators=...), "
        "evaluate_k_path; each for random_gauge on/off and k vs k+G, plus mutual consistency of the routes.  The calculators' grouping options degen_thresh in {1e-4, 1e-3, 0.05} x "
        "degen_Kramers in {False, True} are exercised on systems with exact multiplets of size 2, 3, 4 and 6 at a grid "
        "k-point (H0 (x) 1_m tuned so that multiplets touch), for all tabulators, product formulas and integrated "
        "calculators; every evaluable static calculator is also run with the LOWEST Fermi level placed between / at the "
        "members of a 2- or 3-fold multiplet of a grid k-point that is exact or split by 2e-5..5e-5 (< degen_thresh), "
        "random gauge on/off (tolerance 1e-8 for exact, 1e-6 + 40*splitting otherwise)")


# ------------------------------------------------------------------------------------------------
# correspondence

class _Stub:
    pass


def gen_spectrum(rng, thr, nmax=7):
    E = [Fr(rng.randint(-8, 8), 4)]
    n = rng.randint(2, nmax)
    for _ in range(n - 1):
        E.append(E[-1] + rng.choice([Fr(0), Fr(0), thr / 2, thr, thr * Fr(17, 16), thr * 4, Fr(1, 4), Fr(1)]))
    return E


def gmat(rng, n, m=None, den=2, lim=3):
    m = m or n
    re = [[Fr(rng.randint(-lim, lim), den) for _ in range(m)] for _ in range(n)]
    im = [[Fr(rng.randint(-lim, lim), den) for _ in range(m)] for _ in range(n)]
    return re, im


def to_np(re, im):
    return np.array([[float(x) for x in r] for r in re]) + 1j * np.array([[float(x) for x in r] for r in im])


def parse_gm(s, n, m):
    vals = []
    for tok in s.split(";"):
        a, b = tok.split(",")
        vals.append(complex(float(Fr(a)), float(Fr(b))))
    return np.array(vals).reshape(n, m)


# ---- formula classes: the structure terms of Model/C04.lean against the real classes on a stub Data_K ------------

FX_NAMES = {"Ham": [1, 2, 3], "AA": [0, 1, 2], "rotAA": [0, 1, 2], "BB": [0, 1, 2], "CC": [0, 1, 2], "SS": [0, 1, 2]}
FX_BASE = {"Ham": 0, "AA": 1, "rotAA": 1, "BB": 1, "CC": 1, "SS": 1}
# class -> (number of Cartesian indices, size limit N, number of component tuples per line)
FX_CLASSES = {"Omega": (1, 4, 2), "DerOmega": (2, 4, 2), "Der2Omega": (3, 3, 1), "Morb_H": (1, 4, 2), "Morb_Hpm": (1, 4, 2),
              "DerMorb_H": (2, 3, 1), "DerMorb": (2, 3, 1), "Der2Morb_H": (3, 3, 1), "Der2Morb": (3, 2, 1),
              "InvMass": (2, 4, 2), "Der3E": (3, 3, 1), "Spin": (1, 4, 2), "DerSpin": (2, 4, 2), "Der2Spin": (3, 3, 1),
              "Velocity": (1, 4, 2), "VelVelVel": (3, 4, 2), "VelMassVel": (4, 3, 1), "MassVel": (3, 3, 1),
              "VelOmega": (2, 3, 1)}


def fx_stub(rng, N):
    """a real Data_K_R object (no __init__) whose Hamiltonian-gauge matrices Xbar(name, der) and energies are exact
    Gaussian-dyadic data; dEig_inv, D_H, Dcov, covariant(...) are then computed by the REAL code"""
    from wannierberri.data_K.data_K_R import Data_K_R
    E = [Fr(rng.randint(-8, 8), 4)]
    for _ in range(N - 1):
        E.append(E[-1] + rng.choice([Fr(0), Fr(1, 2 ** 40), Fr(1, 4), Fr(1, 2), Fr(1), Fr(3, 2)]))
    st = object.__new__(Data_K_R)
    st._bar_quantities = {}
    st._covariant_quantities = {}
    st.force_internal_terms_only = False
    st.__dict__["E_K"] = np.array([[float(e) for e in E]])
    atoms = {}
    for name, ders in FX_NAMES.items():
        for d in ders:
            shape = (N, N) + (3,) * (FX_BASE[name] + d)
            size = int(np.prod(shape))
            X = (np.array([rng.randint(-4, 4) / 2 for _ in range(size)])
                 + 1j * np.array([rng.randint(-4, 4) / 2 for _ in range(size)])).reshape(shape)
            if name != "BB":
                X = 0.5 * (X + X.swapaxes(0, 1).conj())
            st._bar_quantities[(name, d)] = X[None]
            atoms[(name, d)] = X
    return st, E, atoms


def fx_real(st, cls, int_, ext, sign):
    from wannierberri.formula import covariant as frml
    from wannierberri.formula import elementary as el
    kw = dict(internal_terms=int_, external_terms=ext)
    if cls in ("Omega", "DerOmega", "Der2Omega", "Morb_H", "DerMorb_H", "Der2Morb_H", "VelOmega"):
        return getattr(frml, cls)(st, **kw)
    if cls in ("Morb_Hpm", "DerMorb", "Der2Morb"):
        return getattr(frml, cls)(st, sign=sign, **kw)
    if cls == "InvMass":
        return el.InvMass(st)
    return getattr(frml, cls)(st)


def fx_corr(ctx, add):
    rng = ctx.rng
    thr = F(1e-7)
    reps = ctx.n(1, 6)
    for cls, (ndim, nmax, ncomp) in FX_CLASSES.items():
        for rep in range(reps):
            N = rng.randint(2, nmax)
            st, E, atoms = fx_stub(rng, N)
            a = rng.randint(0, N - 2) if rng.random() < 0.8 else 0
            b = rng.randint(a + 1, N - 1 if a == 0 else N)
            inn = list(range(a, b))
            out_ = [i for i in range(N) if i not in inn]
            int_, ext = rng.choice([(True, True), (True, True), (True, False), (False, True)])
            sign = rng.choice([1, -1])
            css = [[rng.randrange(3) for _ in range(ndim)] for _ in range(ncomp)]
            case = dict(cls=cls, N=N, inn=inn, internal=int_, external=ext, sign=sign, comps=css, E=[float(e) for e in E])
            with ctx.attempt(f"formula class {cls} on exact inputs", case):
                with quiet():
                    nn = np.array(fx_real(st, cls, int_, ext, sign).nn(0, np.array(inn, dtype=int), np.array(out_, dtype=int)))
                toks = []
                for (name, d), X in atoms.items():
                    flat = X.reshape(-1)
                    toks += [f"{name}:{d}", rats([F(x) for x in flat.real]), rats([F(x) for x in flat.imag])]
                add(f"fx {cls} {int(int_)} {int(ext)} {sign} {rat(thr)} {N} {ints(inn)} {ints(out_)} {rats(E)} "
                    f"{intss(css)} " + " ".join(toks), "fx", (nn, css, len(inn)), case)
            ctx.count(f"corr.formula_class.{cls}")


def corr(ctx):
    from wannierberri.data_K.data_K import Data_K
    from wannierberri.result.tabresult import TABresult
    from wannierberri.result import KBandResult
    rng = ctx.rng
    lines, checks = [], []

    def add(line, kind, code, case):
        lines.append(line)
        checks.append((kind, code, case))

    # ---- k-point bookkeeping -----------------------------------------------------------------
    with quiet():
        from wannierberri.system import SystemKP
        skp = SystemKP(Ham=lambda k: np.array([[k[2], k[0] - 1j * k[1]], [k[0] + 1j * k[1], -k[2]]]), kmax=1.0)
    for it in range(ctx.n(40, 400)):
        N = rng.choice([1, 2, 4, 8])
        pts = [Fr(rng.randint(0, N - 1), N) for _ in range(3)]
        dK = [Fr(rng.randint(-64, 64), 64) + rng.choice([0, 0, 1, -1, 2, -3, 17, -40]) for _ in range(3)]
        st = _Stub()
        st.k_list = None
        st.grid = _Stub()
        st.grid.points_FFT = np.array([[float(p) for p in pts]])
        st.dK = np.array([float(d) for d in dK])
        case = dict(points_FFT=pts, dK=dK)
        with ctx.attempt("Data_K.kpoints_all", case):
            got = Data_K.__dict__["kpoints_all"].func(st)[0]
            add(f"kall {rats(pts)} {rats(dK)}", "exactvec", [F(x) for x in got], case)
            got2 = TABresult(kpoints=np.array([st.grid.points_FFT[0] + st.dK]), recip_lattice=np.eye(3),
                             results={"Energy": KBandResult(np.zeros((1, 2)), transformTR=None, transformInv=None)}).kpoints[0]
            add(f"kall {rats(pts)} {rats(dK)}", "exactvec", [F(x) for x in got2], dict(case, via="TABresult"))
        with ctx.attempt("SystemKP.k_to_1BZ", case):
            got = skp.k_to_1BZ([float(d) for d in dK])
            add(f"k1bz {rats(dK)}", "exactvec", [F(x) for x in got], case)
        ctx.count("corr.kpoints")
    # ---- phases on the quarter grid ------------------------------------------------------------
    from wannierberri.fourier.rvectors import Rvectors
    for it in range(ctx.n(10, 100)):
        q = [rng.randint(-9, 9) for _ in range(3)]
        Rs = [[rng.randint(-3, 3) for _ in range(3)] for _ in range(rng.randint(1, 6))]
        case = dict(dK=[x / 4 for x in q], iRvec=Rs)
        with ctx.attempt("Rvectors.expdK", case):
            rv = Rvectors(lattice=np.eye(3), iRvec=Rs)
            rv.set_fft_R_to_k(NK=(1, 1, 1), num_wann=1, fftlib="numpy", dK=np.array(q) / 4.0)
            add(f"phase4 {ints(q)} {intss(Rs)}", "cvec", np.array(rv.expdK), case)
        ctx.count("corr.phase")
    # ---- degenerate groups, rotation, random gauge ----------------------------------------------
    import scipy.stats
    for it in range(ctx.n(40, 400)):
        thr = Fr(rng.choice([1, 3]), 2 ** rng.choice([8, 13]))
        nk = rng.randint(1, 3)
        nb = rng.randint(2, 5)
        Es = []
        for _ in range(nk):
            E = gen_spectrum(rng, thr, nmax=nb)
            while len(E) < nb:
                E.append(E[-1] + rng.choice([Fr(0), thr, Fr(1, 2)]))
            Es.append(E[:nb])
        st = _Stub()
        st.E_K = np.array([[float(e) for e in E] for E in Es])
        st.degen_thresh_random_gauge = float(thr)
        case = dict(E=st.E_K, thr=float(thr))
        deg = None
        with ctx.attempt("Data_K.degen", case):
            deg = Data_K.__dict__["degen"].func(st)
            for E, d in zip(Es, deg):
                add(f"degen {rats(E)} {rat(thr)}", "pairs", [(int(a), int(b)) for a, b in d], case)
            ctx.count("corr.degen.with_multiplet" if any(len(d) for d in deg) else "corr.degen.none")
        if deg is None:
            continue
        # _rotate
        Ure, Uim = gmat(rng, nb)
        Xre, Xim = gmat(rng, nb)
        U, X = to_np(Ure, Uim), to_np(Xre, Xim)
        st.UU_K = U[None]
        with ctx.attempt("Data_K._rotate", dict(U=U, X=X)):
            got = Data_K._rotate(st, X[None])[0]
            add(f"rotate {nb} {ratss(Ure)} {ratss(Uim)} {ratss(Xre)} {ratss(Xim)}", "cmat", got, dict(U=U, X=X))
        # UU_K with random_gauge: the 'random' unitaries are recorded Gaussian-dyadic matrices
        del st.UU_K
        UUs = [gmat(rng, nb) for _ in range(nk)]
        st._UU = np.array([to_np(*u) for u in UUs])
        st.random_gauge = True
        st.degen = deg
        drawn = []

        def fake_rvs(dim, *a, **k):
            m = gmat(rng, dim, den=1, lim=2)
            drawn.append(m)
            return to_np(*m)
        old = scipy.stats.unitary_group.__dict__.get("rvs")
        scipy.stats.unitary_group.rvs = fake_rvs
        got = None
        try:
            with ctx.attempt("Data_K.UU_K(random_gauge)", case):
                got = Data_K.__dict__["UU_K"].func(st)
        finally:
            if old is None:
                del scipy.stats.unitary_group.rvs
            else:
                scipy.stats.unitary_group.rvs = old
        pos = 0
        for ik in range(nk if got is not None else 0):
            groups = [(int(a), int(b)) for a, b in deg[ik]]
            ws = drawn[pos:pos + len(groups)]
            pos += len(groups)
            wre = [r for w in ws for r in w[0]] or [[Fr(0)]]
            wim = [r for w in ws for r in w[1]] or [[Fr(0)]]
            add(f"gauge {nb} {ratss(UUs[ik][0])} {ratss(UUs[ik][1])} {intss(groups)} {ratss(wre)} {ratss(wim)}", "cmat",
                got[ik], dict(case, ik=ik, groups=groups))
        st.random_gauge = False
        st._UU = np.array([to_np(*u) for u in UUs])
        got0 = Data_K.__dict__["UU_K"].func(st)
        if not np.array_equal(got0, st._UU):
            ctx.fail("UU_K with random_gauge=False modifies the eigenvectors", case)
    # ---- FormulaProduct.trace: products of 1-4 factors traced over an inner set --------------------
    from wannierberri.formula.formula import FormulaProduct, Matrix_ln
    from wannierberri.symmetry.point_symmetry import transform_ident
    for it in range(ctx.n(30, 300)):
        N = rng.randint(2, 4)
        nf = rng.randint(1, 4)
        mats = [gmat(rng, N, den=2, lim=3) for _ in range(nf)]
        inn = sorted(rng.sample(range(N), rng.randint(1, N)))
        out_ = [i for i in range(N) if i not in inn]
        case = dict(factors=[to_np(*m) for m in mats], inn=inn)
        with ctx.attempt("FormulaProduct.trace", case):
            fs = [Matrix_ln(to_np(*m)[None], transformTR=transform_ident, transformInv=transform_ident) for m in mats]
            val = FormulaProduct(fs).trace(0, np.array(inn, dtype=int), np.array(out_, dtype=int))
            add("ptrace " + ints(inn) + " " + " ".join(ratss(m[0]) + " " + ratss(m[1]) for m in mats), "retrace",
                float(val), case)
        ctx.count(f"corr.product_factors={nf}")
    fx_corr(ctx, add)
    out = ctx.lean(lines)
    for line, o, (kind, code, case) in zip(lines, out, checks):
        ctx.case(signature=line, nontrivial=True)
        if o == "bad-op" or "unknown-class" in o:
            ctx.mismatch("model rejected the line", dict(line=line[:300]))
            continue
        if kind == "fx":
            nn, css, n = code
            ok = True
            for blk, cs in zip(o.split("|"), css):
                want = parse_gm(blk, n, n)
                got = nn[(slice(None), slice(None)) + tuple(cs)]
                if np.abs(want - got).max() > 1e-11 * (1 + np.abs(got).max()):
                    ok = False
            code = nn
        elif kind == "retrace":
            ok = float(Fr(o.split(",")[0])) == code
        elif kind == "exactvec":
            ok = [Fr(x) for x in o.split(",")] == list(code)
        elif kind == "pairs":
            want = [] if o == "_" else [tuple(int(x) for x in p.split(",")) for p in o.split(";")]
            ok = want == code
        elif kind == "cvec":
            want = parse_gm(o, 1, len(code))[0]
            ok = np.abs(want - code).max() < 1e-12
        else:
            n = code.shape[0]
            want = parse_gm(o, n, n)
            ok = np.array_equal(want, code)
        if not ok:
            ctx.mismatch(f"{line.split()[0]}: model and code differ", dict(case=case, line=line[:300], model=o[:300], code=code))
    ctx.sample(dict(protocol_line=lines[0], model=out[0]))
    ctx.sample(dict(protocol_line=lines[-1][:300], model=out[-1][:200]))


# ------------------------------------------------------------------------------------------------
# oracle

ALLMAT = ("Ham", "AA", "BB", "CC", "SS")


def tabulators(**opts):
    """the 16 tabulators; opts (degen_thresh, degen_Kramers) are passed to every one of them"""
    from wannierberri.calculators import tabulate as T

    def kf(d):
        return dict(opts, kwargs_formula=d)
    return {
        "energy": T.Energy(**opts), "band_gradients": T.Velocity(**opts), "berry_curvature": T.BerryCurvature(**opts),
        "berry_curvature_internal": T.BerryCurvature(**kf({"external_terms": False})),
        "berry_curvature_external": T.BerryCurvature(**kf({"internal_terms": False})),
        "spin": T.Spin(**opts), "orbital_moment": T.OrbitalMoment(**opts),
        "orbital_moment_internal": T.OrbitalMoment(**kf({"external_terms": False})),
        "der_berry_curvature": T.DerBerryCurvature(**opts), "der2_berry_curvature": T.Der2BerryCurvature(**opts),
        "inv_mass": T.InvMass(**opts), "der3E": T.Der3E(**opts), "der_spin": T.DerSpin(**opts),
        "der2_spin": T.Der2Spin(**opts), "der_orbital_moment": T.DerOrbitalMoment(**opts),
        "der2_orbital_moment": T.Der2OrbitalMoment(**opts),
    }


def integrators(Ef, **opts):
    from wannierberri.calculators import static as S
    return {
        "ahc": S.AHC(Efermi=Ef, **opts), "ahc_internal": S.AHC(Efermi=Ef, kwargs_formula={"external_terms": False}, **opts),
        "morb": S.Morb(Efermi=Ef, **opts), "spin": S.Spin(Efermi=Ef, **opts), "cumdos": S.CumDOS(Efermi=Ef, **opts),
        "ohmic_sea": S.Ohmic_FermiSea(Efermi=Ef, **opts), "ohmic_surf": S.Ohmic_FermiSurf(Efermi=Ef, **opts),
        "berry_dipole_sea": S.BerryDipole_FermiSea(Efermi=Ef, **opts), "gme_orb_sea": S.GME_orb_FermiSea(Efermi=Ef, **opts),
        "gme_spin_sea": S.GME_spin_FermiSea(Efermi=Ef, **opts),
    }


def min_gap(E, thr=1e-4):
    d = np.diff(np.sort(E))
    d = d[d > thr]
    return d.min() if len(d) else np.inf


def compare(ctx, what, a, b, case, tol=1e-8):
    scale = 1.0 + max(np.abs(a).max(), np.abs(b).max())
    if a.shape != b.shape or not np.all(np.isfinite(a)) or np.abs(a - b).max() > tol * scale:
        diff = np.abs(a - b).max() if a.shape == b.shape else "shape"
        ctx.fail(f"{what}: values differ by {diff} (scale {scale:.3g})", dict(case, first=a, second=b))
        return False
    return True


def case_periodic(ctx, case):
    """evaluate_k(k) vs evaluate_k(k+G): every tabulated quantity, and the reported k-point"""
    from ..wbsys import rand_system, wb
    from wannierberri.calculators.tabulate import TabulatorAll
    rs = np.random.RandomState(case["seed"])
    nw = case["nw"]
    with quiet():
        s = rand_system(rs, num_wann=nw, nR=int(rs.randint(3, 8)), max_R=2, matrices=ALLMAT)
    k = np.array(case["k"], dtype=float)
    G = np.array(case["G"], dtype=int)
    tabs = tabulators()
    with quiet():
        ra = wb.evaluate_k(s, k=k, calculators={"tab": TabulatorAll(dict(tabs), mode="grid")})
        rb = wb.evaluate_k(s, k=k + G, calculators={"tab": TabulatorAll(dict(tabs), mode="grid")})
    E = ra.results["energy"].data[0]
    gap = min_gap(E)
    ctx.case(signature=("per", case["seed"], nw, tuple(k), tuple(G)), nontrivial=bool(np.any(G != 0)))
    if gap < 1e-3:
        ctx.count("oracle.periodic.skipped_small_gap")
        return
    for name in tabs:
        a, b = ra.results[name].data, rb.results[name].data
        compare(ctx, f"{name} at k={k.tolist()} and at k+G, G={G.tolist()}", a, b, dict(case, quantity=name),
                tol=1e-8 * max(1.0, 1.0 / gap ** 2 * 1e-2))
    ka, kb = np.array(ra.kpoints[0]), np.array(rb.kpoints[0])
    d = np.abs(ka - kb)
    d = np.minimum(d, 1 - d)
    if d.max() > 1e-9 or ka.min() < 0 or ka.max() >= 1 or kb.min() < 0 or kb.max() >= 1:
        ctx.fail(f"tabulated k-point is not reduced consistently: k -> {ka.tolist()}, k+G -> {kb.tolist()}", case)
    # the named quantities of evaluate_k
    qs = ["energy", "band_gradients", "berry_curvature", "berry_curvature_internal_terms",
          "berry_curvature_external_terms", "spin"]
    with quiet():
        qa = wb.evaluate_k(s, k=k, quantities=qs)
        qb = wb.evaluate_k(s, k=k + G, quantities=qs)
    for q in qs:
        compare(ctx, f"evaluate_k quantity {q} at k and k+G", qa[q], qb[q], dict(case, quantity=q),
                tol=1e-8 * max(1.0, 1.0 / gap ** 2 * 1e-2))


def case_periodic_kp(ctx, case):
    """k.p systems are made periodic by k_to_1BZ"""
    from ..wbsys import wb
    from wannierberri.system import SystemKP
    a, b, c = case["coef"]

    def ham(k):
        kx, ky, kz = k
        return np.array([[a * kz + c * (kx ** 2 + ky ** 2), b * (kx - 1j * ky)],
                         [b * (kx + 1j * ky), -a * kz + 0.3 * kx]])
    with quiet():
        s = SystemKP(Ham=ham, kmax=case["kmax"], finite_diff_dk=1e-3)
    k = np.array(case["k"], dtype=float)
    G = np.array(case["G"], dtype=int)
    qs = ["energy", "band_gradients", "berry_curvature"]
    with quiet():
        qa = wb.evaluate_k(s, k=k, quantities=qs)
        qb = wb.evaluate_k(s, k=k + G, quantities=qs)
    ctx.case(signature=("kp", tuple(case["coef"]), tuple(k), tuple(G)), nontrivial=True)
    for q in qs:
        compare(ctx, f"k.p system: {q} at k={k.tolist()} and k+G, G={G.tolist()}", qa[q], qb[q], dict(case, quantity=q),
                tol=1e-7)


def multiplet_system(rs, n0, m, paired, pt=False):
    """Hermitian system whose Hamiltonian is H0 (x) 1_m (exact m-fold multiplets at every k) with arbitrary Hermitian
    external-term matrices; paired=True puts the m copies on the same centre.  pt=True: the odd copies carry the
    transposed blocks H0(R)^T, i.e. H0(k)^* - same spectrum, opposite internal Berry curvature (PT-symmetric pairs)"""
    from ..wbsys import rand_system
    centers = None
    if paired:
        c0 = rs.uniform(0, 1, (n0, 3))
        centers = np.repeat(c0, m, axis=0)
    with quiet():
        s = rand_system(rs, num_wann=n0 * m, nR=int(rs.randint(3, 6)), max_R=1, matrices=ALLMAT, centers=centers)
        H = s.get_R_mat("Ham")
        Hs = H[:, 0::m, 0::m].copy()
        Hn = np.zeros_like(H)
        for i in range(m):
            Hn[:, i::m, i::m] = Hs.swapaxes(1, 2) if (pt and i % 2) else Hs
        s.set_R_mat("Ham", Hn, reset=True)
    return s


def case_gauge_k(ctx, case):
    from ..wbsys import wb
    from wannierberri.calculators.tabulate import TabulatorAll
    rs = np.random.RandomState(case["seed"])
    s = multiplet_system(rs, case["n0"], case["m"], case["paired"])
    k = rs.uniform(0, 1, 3) if not case.get("k") else np.array(case["k"])
    tabs = tabulators()
    with quiet():
        ra = wb.evaluate_k(s, k=k, calculators={"tab": TabulatorAll(dict(tabs), mode="grid")},
                           parameters_K={"random_gauge": False})
        np.random.seed(case["seed"] % 10000)
        rb = wb.evaluate_k(s, k=k, calculators={"tab": TabulatorAll(dict(tabs), mode="grid")},
                           parameters_K={"random_gauge": True})
        rc = None
        if case.get("thresh"):
            rc = wb.evaluate_k(s, k=k, calculators={"tab": TabulatorAll(dict(tabs), mode="grid")},
                               parameters_K={"random_gauge": True, "degen_thresh_random_gauge": case["thresh"]})
    E = ra.results["energy"].data[0]
    nmult = int(np.sum(np.diff(E) <= 1e-4))
    ctx.case(signature=("gk", case["seed"], case["n0"], case["m"], case["paired"]), nontrivial=nmult > 0)
    if nmult == 0:
        ctx.fail("the multiplet system has no degenerate bands (generator broken)", case)
    gap = min_gap(E)
    if gap < 1e-3:
        ctx.count("oracle.gauge.skipped_small_gap")
        return
    for name in tabs:
        compare(ctx, f"{name} with random_gauge=True vs False at k={k.tolist()} ({case['m']}-fold multiplets)",
                ra.results[name].data, rb.results[name].data, dict(case, quantity=name, k=k))
        if rc is not None:
            compare(ctx, f"{name} with random_gauge=True, degen_thresh_random_gauge={case['thresh']}",
                    ra.results[name].data, rc.results[name].data, dict(case, quantity=name, k=k))


def case_gauge_run(ctx, case):
    from ..wbsys import wb
    from wannierberri.calculators.tabulate import TabulatorAll
    rs = np.random.RandomState(case["seed"])
    s = multiplet_system(rs, case["n0"], case["m"], case["paired"])
    H = s.get_R_mat("Ham")
    bound = float(sum(np.linalg.norm(H[i], 2) for i in range(H.shape[0])))
    Ef = np.linspace(-0.6 * bound, 0.6 * bound, 5)
    NKFFT = np.array(s.NKFFT_recommended)
    NK = NKFFT * np.array(case["NKdiv"])
    res = []
    for rg in (False, True):
        calcs = integrators(Ef)
        tabs = {k_: v for k_, v in tabulators().items() if k_ in ("energy", "band_gradients", "berry_curvature", "spin",
                                                                  "orbital_moment", "der_berry_curvature")}
        calcs["tabulate"] = TabulatorAll(tabs, mode="grid")
        with quiet():
            np.random.seed(case["seed"] % 10000 + 1)
            grid = wb.Grid(s, NK=NK, NKFFT=NKFFT)
            r = wb.run(s, grid=grid, calculators=calcs, parallel=False, print_Kpoints=False, symmetrize=False,
                       parameters_K={"random_gauge": rg})
        res.append(r)
    ctx.case(signature=("grun", case["seed"], case["n0"], case["m"], case["paired"], tuple(case["NKdiv"])), nontrivial=True)
    for name in integrators(Ef):
        compare(ctx, f"integrated {name} from run() with random_gauge=True vs False",
                res[0].results[name].data, res[1].results[name].data, dict(case, calculator=name, Efermi=Ef, NK=NK))
    ta, tb = res[0].results["tabulate"], res[1].results["tabulate"]
    for name in ta.results:
        compare(ctx, f"grid tabulation of {name} from run() with random_gauge=True vs False",
                ta.results[name].data, tb.results[name].data, dict(case, quantity=name, NK=NK))


_PROD_OK = {}


def product_tabulators(ctx, s):
    """a Tabulator for every FormulaProduct / FormulaSum class of formula.covariant (found by introspection) that can
    be evaluated on this kind of system (probed once; those needing matrices the system lacks are skipped)"""
    import inspect
    from ..wbsys import wb
    from wannierberri.formula import covariant as frml
    from wannierberri.formula.formula import FormulaProduct, FormulaSum
    from wannierberri.calculators.tabulate import Tabulator
    key = tuple(sorted(s._XX_R))
    if key not in _PROD_OK:
        ok = []
        for name, cls in inspect.getmembers(frml, inspect.isclass):
            if issubclass(cls, (FormulaProduct, FormulaSum)) and cls not in (FormulaProduct, FormulaSum):
                try:
                    with quiet():
                        wb.evaluate_k(s, k=np.array([0.1, 0.2, 0.3]), calculators={name: Tabulator(cls)})
                    ok.append(name)
                except ValueError as e:
                    if "are not set in the system" not in str(e):
                        raise
                    ctx.count(f"oracle.formula_skipped.{name}")
        _PROD_OK[key] = ok
    return {"product:" + name: Tabulator(getattr(frml, name)) for name in _PROD_OK[key]}


_STATIC_OK = {}


def all_static(ctx, s, Ef, **opts):
    """every StaticCalculator of calculators.static that can be built from Efermi alone and evaluated on this kind of
    system (probed once on a single k-point; the ones needing matrices the system does not have are skipped)"""
    import inspect
    from ..wbsys import wb
    from wannierberri.calculators import static as S
    key = tuple(sorted(s._XX_R))
    if key not in _STATIC_OK:
        ok = []
        for name, cls in inspect.getmembers(S, inspect.isclass):
            if not (issubclass(cls, S.StaticCalculator) and cls is not S.StaticCalculator) or name.startswith("_"):
                continue
            try:
                with quiet():
                    wb.evaluate_k(s, k=np.array([0.1, 0.2, 0.3]), calculators={name: cls(Efermi=Ef)})
                ok.append(name)
            except Exception as e:  # noqa
                ctx.count(f"oracle.static_skipped.{name}")
        _STATIC_OK[key] = ok
    return {name: getattr(S, name)(Efermi=Ef, **opts) for name in _STATIC_OK[key]}


def touching_system(rs, nw, k0, m):
    """random Hermitian system (all external matrices) tuned so that m bands touch exactly at k0 (a band-touching
    point: inside the multiplet the velocity block is not proportional to the unit matrix)"""
    from ..wbsys import rand_system
    from .c27 import tune_spectrum
    with quiet():
        s = rand_system(rs, num_wann=nw, nR=int(rs.randint(3, 6)), max_R=1, matrices=ALLMAT)
    i0 = int(rs.randint(0, nw - m + 1))

    def modify(e):
        for j in range(1, m):
            e[i0 + j] = e[i0]
        for j in range(i0 + m, len(e)):
            e[j] = max(e[j], e[i0] + 0.4)
        for j in range(i0):
            e[j] = min(e[j], e[i0] - 0.4)
        return e
    e2 = tune_spectrum(s, k0, modify)
    return s, i0, e2


def velocity_block_nonscalar(s, k0, i0, m):
    from ..wbsys import wb
    from wannierberri.formula.covariant import Velocity
    with quiet():
        v = wb.evaluate_k(s, k=np.array(k0, dtype=float), formula={"v": Velocity}, iband=list(range(i0, i0 + m)))
    dev = v - np.einsum("nnc->c", v)[None, None, :] / m * np.eye(m)[:, :, None]
    return float(np.abs(dev).max())


def case_touch_k(ctx, case):
    """random gauge at a band-touching point: all tabulators, and every product / sum formula (2, 3, ... factors)"""
    from ..wbsys import wb
    from wannierberri.calculators.tabulate import TabulatorAll
    rs = np.random.RandomState(case["seed"])
    k0 = np.array(case["k0"], dtype=float)
    s, i0, e2 = touching_system(rs, case["nw"], k0, case["m"])
    dev = velocity_block_nonscalar(s, k0, i0, case["m"])
    ctx.case(signature=("touch_k", case["seed"], case["nw"], case["m"], tuple(case["k0"])), nontrivial=dev > 1e-3)
    ctx.count("oracle.touch.velocity_block_nonscalar" if dev > 1e-3 else "oracle.touch.velocity_block_SCALAR")
    from wannierberri.calculators.tabulate import TabulatorAll
    res = []
    for rg in (False, True):
        tabs = dict(tabulators())
        tabs.update(product_tabulators(ctx, s))
        with quiet():
            np.random.seed(case["seed"] % 10000 + 7)
            r = wb.evaluate_k(s, k=k0, calculators={"tab": TabulatorAll(tabs, mode="grid")},
                              parameters_K={"random_gauge": rg})
        res.append(r.results)
    for name in res[0]:
        compare(ctx, f"{name} at a {case['m']}-fold band-touching point k={k0.tolist()} with random_gauge=True vs False",
                res[0][name].data, res[1][name].data, dict(case, quantity=name, levels=e2, velocity_block_deviation=dev))


def case_touch_run(ctx, case):
    """run() on a grid containing a band-touching point, Fermi window around the touching energy: every static
    calculator that can be evaluated (incl. the three-factor ones), random gauge on/off"""
    from ..wbsys import wb
    rs = np.random.RandomState(case["seed"])
    k0 = np.array(case["k0"], dtype=float)
    s, i0, e2 = touching_system(rs, case["nw"], k0, case["m"])
    dev = velocity_block_nonscalar(s, k0, i0, case["m"])
    et = e2[i0]
    Ef = np.linspace(et - 0.3, et + 0.3, 7)
    NKFFT = np.array(s.NKFFT_recommended)
    NKFFT = NKFFT + (NKFFT % 2)          # even, so that k0 with components 0 or 1/2 is a grid point
    NK = NKFFT * np.array(case["NKdiv"])
    res = []
    for rg in (False, True):
        calcs = all_static(ctx, s, Ef)
        with quiet():
            np.random.seed(case["seed"] % 10000 + 3)
            grid = wb.Grid(s, NK=NK, NKFFT=NKFFT)
            res.append(wb.run(s, grid=grid, calculators=calcs, parallel=False, print_Kpoints=False, symmetrize=False,
                              parameters_K={"random_gauge": rg}))
    ctx.case(signature=("touch_run", case["seed"], case["nw"], case["m"], tuple(case["k0"]), tuple(case["NKdiv"])),
             nontrivial=dev > 1e-3)
    for name in res[0].results:
        compare(ctx, f"integrated {name} from run() on a grid containing a {case['m']}-fold band-touching point, "
                     f"random_gauge=True vs False", res[0].results[name].data, res[1].results[name].data,
                dict(case, calculator=name, Efermi=Ef, NK=NK, levels=e2, velocity_block_deviation=dev))


def band_groups(E, thr=1e-4):
    g, a = [], 0
    for i in range(1, len(E) + 1):
        if i == len(E) or E[i] - E[i - 1] > thr:
            g.append((a, i))
            a = i
    return g


def routes_at_k(s, k, rg, sub, single, grp, seed):
    """every public route of evaluate_k to k-resolved quantities at one k; returns {label: array}"""
    from ..wbsys import wb
    from wannierberri.evaluate_k import available_quantities
    from wannierberri.formula import covariant as frml
    P = {"random_gauge": rg}
    qs = list(available_quantities)
    out = {}
    with quiet():
        np.random.seed(seed)
        r = wb.evaluate_k(s, k=k, quantities=qs, parameters_K=P)
        for q in qs:
            out[f"quantities[{q}]"] = np.array(r[q])
        r = wb.evaluate_k(s, k=k, quantities=qs, iband=list(sub), parameters_K=P)
        for q in qs:
            out[f"quantities[{q}],iband={list(sub)}"] = np.array(r[q])
        r = wb.evaluate_k(s, k=k, quantities=qs, iband=int(single), parameters_K=P)
        for q in qs:
            out[f"quantities[{q}],iband={int(single)}"] = np.array(r[q])
        r = wb.evaluate_k(s, k=k, quantities=[qs[0]], parameters_K=P)      # single quantity, bare array returned
        out[f"quantities[{qs[0]}] alone"] = np.array(r)
        forms = {"Omega": frml.Omega, "Spin": frml.Spin, "Velocity": frml.Velocity, "DerOmega": frml.DerOmega,
                 "VelVelVel": frml.VelVelVel}
        r = wb.evaluate_k(s, k=k, formula=forms, iband=list(grp), parameters_K=P)
        for name in forms:
            out[f"formula[{name}] traced over bands {list(grp)}"] = np.einsum("nn...->...", np.array(r[name]))
        tabs = tabulators()
        r = wb.evaluate_k(s, k=k, calculators={n: tabs[n] for n in ("energy", "berry_curvature", "spin")}, parameters_K=P)
        for n in ("energy", "berry_curvature", "spin"):
            out[f"calculators[{n}]"] = np.array(r[n].data[0])
    return out


def case_routes(ctx, case):
    """all public routes (quantities= with/without iband, formula=, calculators=, evaluate_k_path) on a system with
    exact multiplets whose members differ: random gauge on/off, and k vs k+G"""
    from ..wbsys import wb
    from wannierberri.evaluate_k import available_quantities, evaluate_k_path
    rs = np.random.RandomState(case["seed"])
    if case["system"] == "touching":
        k = np.array(case["k0"], dtype=float)
        s, i0, e2 = touching_system(rs, case["nw"], k, case["m"])
    else:
        s = multiplet_system(rs, case["n0"], case["m"], case["paired"], pt=(case["system"] == "pt"))
        k = rs.uniform(0, 1, 3)
    G = np.array(case["G"], dtype=int)
    with quiet():
        E = np.array(wb.evaluate_k(s, k=k, quantities=["energy"]))
    groups = band_groups(E)
    multi = [g for g in groups if g[1] - g[0] > 1]
    ctx.case(signature=("routes", case["seed"], case["system"], tuple(case["G"])), nontrivial=len(multi) > 0)
    if not multi:
        ctx.fail("the generated system has no multiplet at the chosen k (generator broken)", dict(case, energies=E))
        return
    if min(np.diff(E)[np.diff(E) > 1e-4], default=1.0) < 1e-3:
        ctx.count("oracle.routes.skipped_small_gap")
        return
    NB = len(E)
    g0 = multi[int(rs.randint(len(multi)))]
    sub = sorted(set([g0[0]] + [int(x) for x in rs.choice(NB, size=int(rs.randint(1, NB + 1)), replace=False)]))
    single = int(rs.randint(g0[0], g0[1]))
    chosen = [g for g in groups if rs.rand() < 0.5] or [g0]
    grp = [i for g in chosen for i in range(*g)]
    sd = case["seed"] % 10000 + 11
    ref = routes_at_k(s, k, False, sub, single, grp, sd)
    rg_ = routes_at_k(s, k, True, sub, single, grp, sd)
    sh_ = routes_at_k(s, k + G, False, sub, single, grp, sd)
    info = dict(case, k=k, energies=E, iband_subset=sub, iband_single=single, formula_bands=grp)
    for lab in ref:
        compare(ctx, f"evaluate_k {lab}: random_gauge=True vs False ({case['system']} system, multiplets {multi})",
                ref[lab], rg_[lab], dict(info, route=lab))
        compare(ctx, f"evaluate_k {lab}: k vs k+G, G={G.tolist()} ({case['system']} system, multiplets {multi})",
                ref[lab], sh_[lab], dict(info, route=lab))
    # the routes must agree with each other: slicing by iband, and quantities= vs calculators=
    for q in available_quantities:
        full = ref[f"quantities[{q}]"]
        compare(ctx, f"evaluate_k quantities[{q}] with iband={sub} is not the slice of the result for all bands",
                full[sub], ref[f"quantities[{q}],iband={sub}"], dict(info, route=q), tol=1e-10)
        compare(ctx, f"evaluate_k quantities[{q}] with iband={single} is not the slice of the result for all bands",
                full[[single]], ref[f"quantities[{q}],iband={single}"], dict(info, route=q), tol=1e-10)
    for q, n in (("energy", "energy"), ("berry_curvature", "berry_curvature"), ("spin", "spin")):
        compare(ctx, f"evaluate_k quantities[{q}] differs from the same tabulator passed through calculators=",
                ref[f"quantities[{q}]"], ref[f"calculators[{n}]"], dict(info, route=q), tol=1e-10)
    # path route through the k-point
    if case.get("path"):
        qs = list(available_quantities)
        res = []
        for shift, rg in ((0 * G, False), (0 * G, True), (G, False)):
            nodes = [list(np.array(n_, dtype=float) + shift) for n_ in ([0.0, 0.0, 0.0], list(k), [0.5, 0.5, 0.5] if np.any(np.abs(k - 0.5) > 1e-9) else [0.25, 0.5, 0.0])]
            with quiet():
                np.random.seed(sd)
                _, r = evaluate_k_path(s, nodes=nodes, labels=["A", "B", "C"], length=case["path"], quantities=qs,
                                       parallel=False, parameters_K={"random_gauge": rg})
            res.append(r)
        for q in qs:
            a = res[0].results[q].data
            compare(ctx, f"evaluate_k_path {q}: random_gauge=True vs False", a, res[1].results[q].data, dict(info, route="path:" + q))
            compare(ctx, f"evaluate_k_path {q}: path vs path shifted by G={G.tolist()}", a, res[2].results[q].data,
                    dict(info, route="path:" + q), tol=1e-7)


def merged_multiplet_system(rs, n0, m, touch, k0, paired):
    """H = H0 (x) 1_m with arbitrary Hermitian external matrices (every band m-fold degenerate at every k), tuned so
    that `touch` consecutive multiplets coincide at k0: an exactly (m*touch)-fold degenerate subspace there (two
    Kramers pairs touching for m = 2, touch = 2), whose velocity / spin blocks are not proportional to 1"""
    from .c27 import tune_spectrum
    s = multiplet_system(rs, n0, m, paired)
    g0 = int(rs.randint(0, n0 - touch + 1))

    def modify(e):
        lev = [e[g * m] for g in range(n0)]
        for j in range(1, touch):
            lev[g0 + j] = lev[g0]
        for g in range(g0 + touch, n0):
            lev[g] = max(lev[g], lev[g0] + 0.4 + 0.3 * (g - g0 - touch))
        for g in range(g0):
            lev[g] = min(lev[g], lev[g0] - 0.4 - 0.3 * (g0 - 1 - g))
        return np.repeat(np.array(lev), m)
    e2 = tune_spectrum(s, k0, modify)
    return s, g0 * m, e2


def case_options(ctx, case):
    """the calculators' grouping options degen_thresh x degen_Kramers on systems with exact multiplets of size
    m*touch (2, 3, 4, 6) at a grid k-point: tabulated and integrated results for random_gauge on/off and k vs k+G"""
    from ..wbsys import wb
    from wannierberri.calculators.tabulate import TabulatorAll
    rs = np.random.RandomState(case["seed"])
    k0 = np.array(case["k0"], dtype=float)
    s, i0, e2 = merged_multiplet_system(rs, case["n0"], case["m"], case["touch"], k0, case["paired"])
    size = case["m"] * case["touch"]
    opts = dict(degen_thresh=case["degen_thresh"], degen_Kramers=case["kramers"])
    G = np.array(case["G"], dtype=int)
    with quiet():
        E = np.array(wb.evaluate_k(s, k=k0, quantities=["energy"]))
    groups = band_groups(E)
    ctx.case(signature=("options", case["seed"], case["n0"], case["m"], case["touch"], case["kramers"], case["degen_thresh"]),
             nontrivial=max(b - a for a, b in groups) == size)
    ctx.count(f"oracle.options.multiplet_size={max(b - a for a, b in groups)}")
    if max(b - a for a, b in groups) != size:
        ctx.fail(f"generator: expected a {size}-fold multiplet at k0, found groups {groups}", dict(case, energies=E))
        return
    res = []
    for kk, rg in ((k0, False), (k0, True), (k0 + G, False)):
        tabs = tabulators(**opts)
        tabs.update(product_tabulators(ctx, s))
        for t_ in tabs.values():
            t_.degen_thresh, t_.degen_Kramers = opts["degen_thresh"], opts["degen_Kramers"]
        with quiet():
            np.random.seed(case["seed"] % 10000 + 5)
            r = wb.evaluate_k(s, k=kk, calculators={"tab": TabulatorAll(tabs, mode="grid")}, parameters_K={"random_gauge": rg})
        res.append(r.results)
    info = dict(case, energies_at_k0=E, groups=groups)
    for name in res[0]:
        compare(ctx, f"{name} (degen_thresh={opts['degen_thresh']}, degen_Kramers={opts['degen_Kramers']}) at a {size}-fold "
                     f"point: random_gauge=True vs False", res[0][name].data, res[1][name].data, dict(info, quantity=name))
        compare(ctx, f"{name} (degen_thresh={opts['degen_thresh']}, degen_Kramers={opts['degen_Kramers']}) at a {size}-fold "
                     f"point: k vs k+G", res[0][name].data, res[2][name].data, dict(info, quantity=name))
    if case.get("run"):
        et = e2[i0]
        Ef = np.linspace(et - 0.3, et + 0.3, 7)
        NKFFT = np.array(s.NKFFT_recommended)
        NKFFT = NKFFT + (NKFFT % 2)
        rr = []
        for rg in (False, True):
            calcs = all_static(ctx, s, Ef, **opts)
            with quiet():
                np.random.seed(case["seed"] % 10000 + 9)
                grid = wb.Grid(s, NK=NKFFT, NKFFT=NKFFT)
                rr.append(wb.run(s, grid=grid, calculators=calcs, parallel=False, print_Kpoints=False, symmetrize=False,
                                 parameters_K={"random_gauge": rg}))
        for name in rr[0].results:
            compare(ctx, f"integrated {name} (degen_thresh={opts['degen_thresh']}, degen_Kramers={opts['degen_Kramers']}) on a "
                         f"grid containing a {size}-fold point: random_gauge=True vs False",
                    rr[0].results[name].data, rr[1].results[name].data, dict(info, calculator=name, Efermi=Ef, NK=NKFFT))


def case_sea_gauge(ctx, case):
    """Fermi-sea (and all other) integrated calculators with the LOWEST Fermi level inside a multiplet of a grid k-point
    that the calculators treat as degenerate (splitting 0 or below degen_thresh): random gauge on/off"""
    from ..wbsys import rand_system, wb
    from .c27 import tune_spectrum
    rs = np.random.RandomState(case["seed"])
    nw, m, delta = case["nw"], case["m"], case["delta"]
    with quiet():
        s = rand_system(rs, num_wann=nw, nR=int(rs.randint(3, 6)), max_R=1, matrices=ALLMAT)
    i0 = int(rs.randint(0, nw - m + 1))

    def modify(e):
        for j in range(1, m):
            e[i0 + j] = e[i0] + j * delta
        for j in range(i0 + m, len(e)):
            e[j] = max(e[j], e[i0 + m - 1] + 0.5)
        for j in range(i0):
            e[j] = min(e[j], e[i0] - 0.5)
        return e
    k0 = np.zeros(3)
    e2 = tune_spectrum(s, k0, modify)
    where = case["where"]
    ef0 = {"between": 0.5 * (e2[i0] + e2[i0 + 1]), "at_lower": e2[i0], "at_upper": e2[i0 + 1],
           "quarter": e2[i0] + 0.25 * (e2[i0 + 1] - e2[i0])}[where]
    Ef = np.linspace(ef0, ef0 + 0.8, 5)
    opts = dict(degen_thresh=case["degen_thresh"])
    NKFFT = np.array(s.NKFFT_recommended)
    NK = NKFFT * np.array(case["NKdiv"])
    res = []
    for rg in (False, True):
        calcs = integrators(Ef, **opts) if ctx.tier == "quick" else all_static(ctx, s, Ef, **opts)
        with quiet():
            np.random.seed(case["seed"] % 10000 + 13)
            grid = wb.Grid(s, NK=NK, NKFFT=NKFFT)
            res.append(wb.run(s, grid=grid, calculators=calcs, parallel=False, print_Kpoints=False, symmetrize=False,
                              parameters_K={"random_gauge": rg, "degen_thresh_random_gauge": case["degen_thresh"]}))
    ctx.case(signature=("sea_gauge", case["seed"], nw, m, delta, where, case["degen_thresh"]), nontrivial=True)
    # an exactly degenerate multiplet is gauge invariant to rounding; a split one (delta > 0) only up to O(delta/gap):
    # the rotated states are eigenstates up to delta, energies and 1/(E_n-E_l) factors inside formulas differ by delta
    tol = 1e-8 if delta == 0 else 1e-6 + 40 * delta
    for name in res[0].results:
        compare(ctx, f"integrated {name}: lowest Fermi level {ef0!r} inside a {m}-fold multiplet of Gamma (splitting {delta}, "
                     f"degen_thresh {case['degen_thresh']}): random_gauge=True vs False",
                res[0].results[name].data, res[1].results[name].data,
                dict(case, calculator=name, Efermi=Ef, NK=NK, levels_at_Gamma=e2), tol=tol)


RUNNERS = {"sea_gauge": case_sea_gauge, "options": case_options, "routes": case_routes, "touch_k": case_touch_k, "touch_run": case_touch_run, "periodic": case_periodic, "periodic_kp": case_periodic_kp, "gauge_k": case_gauge_k, "gauge_run": case_gauge_run}


def rand_G(rng):
    while True:
        G = [rng.choice([0, 1, -1, 2, -3, 5, -7]) for _ in range(3)]
        if any(G):
            return G


def rand_k(rng):
    kind = rng.randint(0, 3)
    if kind == 0:
        return [rng.uniform(0, 1) for _ in range(3)]
    if kind == 1:
        return [rng.uniform(-2, 2) for _ in range(3)]
    if kind == 2:
        return [rng.randint(-8, 8) / 8 for _ in range(3)]
    return [rng.choice([0.0, 0.5, 0.25, 0.3, 0.999999]) for _ in range(3)]


def oracle(ctx, scale):
    rng = ctx.rng
    cases = []
    for _ in range(ctx.n(5, 80) * scale):
        cases.append(dict(kind="periodic", seed=rng.getrandbits(31), nw=rng.randint(2, 5), k=rand_k(rng), G=rand_G(rng)))
    for _ in range(ctx.n(4, 30) * scale):
        cases.append(dict(kind="periodic_kp", coef=[rng.choice([1.0, 0.5, 2.0]), rng.choice([1.0, -0.7]), rng.choice([0.0, 0.4])],
                          kmax=rng.choice([1.0, 0.5, 2.0]), k=[rng.randint(-16, 16) / 32 for _ in range(3)], G=rand_G(rng)))
    for _ in range(ctx.n(5, 60) * scale):
        cases.append(dict(kind="gauge_k", seed=rng.getrandbits(31), n0=rng.randint(1, 3), m=rng.choice([2, 2, 3]),
                          paired=rng.random() < 0.5, thresh=rng.choice([None, 1e-6, 1e-3])))
    for _ in range(ctx.n(2, 12) * scale):
        cases.append(dict(kind="gauge_run", seed=rng.getrandbits(31), n0=rng.randint(1, 2), m=rng.choice([2, 2, 3]),
                          paired=rng.random() < 0.5, NKdiv=[rng.randint(1, 2) for _ in range(3)]))
    K0S = [[0.0, 0.0, 0.0], [0.5, 0.0, 0.0], [0.5, 0.5, 0.5], [0.0, 0.5, 0.5]]
    for _ in range(ctx.n(5, 40) * scale):
        cases.append(dict(kind="touch_k", seed=rng.getrandbits(31), nw=rng.randint(3, 5), m=rng.choice([2, 2, 3]),
                          k0=rng.choice(K0S + [[0.25, 0.125, 0.375]])))
    for _ in range(ctx.n(1, 10) * scale):
        cases.append(dict(kind="touch_run", seed=rng.getrandbits(31), nw=rng.randint(3, 4), m=rng.choice([2, 2, 3]),
                          k0=rng.choice(K0S), NKdiv=[1, 1, 1]))
    for it in range(ctx.n(5, 40) * scale):
        sysk = rng.choice(["touching", "pt", "multiplet"])
        c = dict(kind="routes", seed=rng.getrandbits(31), system=sysk, G=rand_G(rng), m=rng.choice([2, 2, 3]),
                 path=(rng.choice([12, 20]) if it % 3 == 0 else 0))
        if sysk == "touching":
            c.update(nw=rng.randint(3, 5), k0=rng.choice(K0S[1:] + [[0.25, 0.125, 0.375]]))
        else:
            c.update(n0=rng.randint(1, 2), paired=rng.random() < 0.5)
            if sysk == "pt":
                c["m"] = 2
        cases.append(c)
    for it in range(ctx.n(4, 40) * scale):
        m, touch = rng.choice([(2, 2), (2, 2), (2, 3), (3, 2), (2, 1), (3, 1), (4, 1)])
        kr = rng.random() < 0.5
        n0 = rng.randint(touch, touch + 1)
        if kr and (n0 * m) % 2:
            n0 += 1
        cases.append(dict(kind="options", seed=rng.getrandbits(31), n0=n0, m=m, touch=touch, paired=rng.random() < 0.5,
                          kramers=kr, degen_thresh=rng.choice([1e-4, 1e-3, 0.05]), k0=rng.choice(K0S), G=rand_G(rng),
                          run=(it % 4 == 0 if ctx.tier == "thorough" else it == 0)))
    for it in range(ctx.n(3, 30) * scale):
        delta = rng.choice([0.0, 2e-5, 5e-5, 5e-5])
        cases.append(dict(kind="sea_gauge", seed=rng.getrandbits(31), nw=rng.randint(3, 5), m=rng.choice([2, 2, 3]),
                          delta=delta, where=rng.choice(["between", "at_lower", "at_upper", "quarter"]),
                          degen_thresh=rng.choice([1e-4, 1e-3]), NKdiv=[rng.randint(1, 2), 1, 1]))
    for case in cases:
        ctx.count(f"oracle.{case['kind']}")
        with ctx.attempt(f"{case['kind']} case", case):
            RUNNERS[case["kind"]](ctx, case)


def replay(ctx, case):
    fails = case.get("failures", [])
    done = set()
    for f in fails:
        c = f.get("case", {})
        if isinstance(c, dict) and c.get("kind") in RUNNERS:
            cc = {k: v for k, v in c.items() if k not in ("first", "second", "quantity", "calculator", "Efermi", "NK")}
            if cc.get("kind") != "gauge_k" or "seed" in cc:
                cc.pop("k", None) if cc["kind"].startswith("gauge") else None
            key = repr(sorted(cc.items()))
            if key in done:
                continue
            done.add(key)
            print("replaying", cc)
            RUNNERS[c["kind"]](ctx, cc)
    if not fails:
        oracle(ctx, 1)
