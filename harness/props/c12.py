"""C12 - parallel evaluation (ray) gives the same results as serial evaluation, for every completion order."""
import itertools

import numpy as np
from fractions import Fraction as Fr

from ..common import quiet, ints, rats, parse_ints, parse_rats
from . import _rungrid as rg
from ._rungrid import wb

PID = "C12"
CLAIM = dict(
    design="3/C12",
    technique="Lean 4 proof by induction over arbitrary ray.wait answer sequences on a State/step model of the "
              "collection loop of process(), plus permutation-invariance proofs for self_to_path / to_grid; exact "
              "differential correspondence (stub `ray` drives the REAL process() with enumerated and adversarial "
              "schedules; model and code compared on the log of added results and on the num_returns requests); "
              "property oracle: real run() under adversarial schedules vs the serial run",
    text="Theorems (for every number of remotes, every nstep_print and EVERY sequence of answers of ray.wait, nested or "
         "not, with timeouts or not): the repaired loop never adds a remote result twice, and once it leaves through "
         "`break` the log of added results is a permutation of all remotes, so result_sum equals the serial sum in any "
         "commutative monoid; the loop terminates as soon as one answer contains all references; the original rule "
         "`old := ready` provably double-counts on the admissible schedule [5,6,7] -> [0,1,2,4,6,7] -> all and is "
         "equivalent to the repaired rule exactly on nested answer sequences; self_to_path returns each path point's "
         "own value and to_grid the same grid means for every arrival permutation, also composed with the loop; "
         "self_to_path is a pure function of (path k-points, collected k-points) that leaves the Path object unchanged, so "
         "any number of run() calls on one Path object each return every point's own value, whereas a mapping remembered "
         "on the Path object provably returns other points' values in the second call; with a fresh ray.put in every "
         "call the workers evaluate the object as it is at that call, whereas re-using the first call's reference "
         "provably evaluates the first state for ever.",
    note="Trusted: Lean kernel + Mathlib; the harness and the stub `ray` (ray's contract: wait answers with distinct "
         "references out of the list it was given); commutativity/associativity of result addition is exact only "
         "for the integer-valued toy calculator (bitwise comparison) and holds within rounding for float data. "
         "Worker environment set-up (parallel.py) and real ray transport are exercised only in the thorough tier.",
)
TRUSTED = [
    "regenerated on every run: `stepGen`, the body of the `while True:` ray.wait loop, is produced from the LIVE source of "
    "process() by an AST translator (harness/props/_translate.py; fragment: min/len/+, `r in ready` comprehension, "
    "&,|,~ on boolean vectors, np.where(..)[0] loop adding set_result, `if a >= b: break`) and the kernel checks that it "
    "is definitionally the model step `step true`; the translator itself is trusted; outside the fragment the hand "
    "model is used (evidence note)",
    "modelled: process() parallel branch (ray.wait loop, remotes_calculated_old bookkeeping, num_returns requests, "
    "order of result_sum additions), serial branch as range(n); TABresult.self_to_path (first arrival matching the "
    "path point), TABresult.to_grid + K__Result.to_grid (mean of arrivals on a grid point)",
    "ray contract (hypothesis ValidReady of the theorems): every answer of ray.wait is a list of distinct references "
    "taken from the list passed in; nothing else is assumed (answers need not be nested, may be short = timeout)",
    "not modelled (oracle only): run()'s glue around process() (refinement, ray.put/remote wrapping, symmetrisation), "
    "Result.__add__ of the real result classes (float addition is commutative but not associative: compared within "
    "rounding, bit-for-bit for the integer-valued calculator), find_grid, parallel.py (ray_init / runtime_env)",
    "the stub `ray` is faithful to the process boundary: ray.put and task arguments are SERIALISED (cloudpickle round "
    "trip, snapshot at call time), top-level ObjectRef arguments are resolved for the task, get_runtime_context() gives "
    "a per-session gcs_address / job id; results come back by reference",
    "the stub `ray` evaluates tasks in-process; pickling of K-points and results by real ray is covered only by the "
    "thorough tier's real-ray run",
]
RULE = ("session histories: the same system / grid / path objects passed to run(parallel=True) 3-5 times in one stub-ray "
        "session with in-place public-API changes in between (set_R_mat reset/add/diag, set_pointgroup), each compared "
        "with the serial run of the current object; schedules: all answer sequences of depth <= 3 for n <= 4 remotes (enumerated), and random adversarial ones "
        "(monotone ready set, each answer a random subset of it of size <= num_returns, timeouts) for n up to 40 and 1-7 "
        "workers; a case is non-trivial when the answer sequence is NOT nested (the class on which the original rule "
        "double-counts: decided by running the model with the old rule); distinct = distinct (n, nstep, schedule) or "
        "distinct (system, grid/path, options, schedule log)")


# ------------------------------------------------------------------------------------------------
# component correspondence 1: the collection loop

class Log:
    """stands for a Result: addition concatenates, so the final value is the exact order of additions"""

    def __init__(self, items):
        self.items = list(items)

    def __add__(self, other):
        if other is None:
            return self
        return Log(self.items + other.items)

    def __radd__(self, other):
        return self if other is None else Log(other.items + self.items)


class FakeK:
    def __init__(self, i, evaluated):
        self.i = i
        self.was_evaluated_flag = evaluated
        self.nset = 0
        self.ndump = 0
        self.nclear = 0
        self.res = None

    def set_result(self, res):
        self.res = res
        self.nset += 1
        self.was_evaluated_flag = True

    def get_result_factor(self):
        return Log([self.i])

    def dump_result(self):
        self.ndump += 1

    def clear_result(self):
        self.nclear += 1


def real_process(nK, evaluated, ncpu, percent, chooser, parallel=True, dump=False, store=True, shuffle=None):
    """drive the REAL process() on fake K-points; returns (log of additions as positions in dK_list, stub, K)"""
    K = [FakeK(i, i in evaluated) for i in range(nK)]
    sel = [i for i in range(nK) if i not in evaluated]
    pos = {i: p for p, i in enumerate(sel)}
    stub = rg.StubRay(ncpu, chooser, shuffle=shuffle)

    def task(Kp, **kw):
        return ("res", Kp.i)
    with quiet(), rg.stub_ray(stub):
        cnt, tot = rg.run_grid.process(paralfunc=(stub.remote(task) if parallel else task), K_list=K, parallel=parallel,
                                       dump_results=dump, remote_parameters={}, store_results=store,
                                       progress_step_time=1e9, progress_step_percent=percent)
    log = [pos[i] for i in tot.items] if tot is not None else []
    return cnt, log, stub, K, sel


def nstep_of(n, ncpu, percent):
    return max(1, ncpu, int(round(n * percent / 100)))


def sched_str(s):
    """protocol: answers separated by `;`, indices by `,`; an empty answer (ray.wait timed out with nothing ready) is
    the inner token `_` (WB/Model/IO.lean parseListWith maps it to [])"""
    return ";".join((",".join(str(x) for x in a) if a else "_") for a in s) if s else "_"


def enum_schedules(n, nstep, depth):
    """all scripted prefixes of `depth` answers respecting num_returns (subsets in canonical order)"""
    def rec(prefix, ncalc, d):
        yield list(prefix)
        if d == 0:
            return
        nr = min(ncalc + nstep, n)
        for m in range(0, nr + 1):
            for sub in itertools.combinations(range(n), m):
                if m == n:
                    continue  # a full answer ends the loop: covered by the fallback
                yield from rec(prefix + [list(sub)], m, d - 1)
    seen = set()
    for s in rec([], 0, depth):
        t = tuple(map(tuple, s))
        if t not in seen:
            seen.add(t)
            yield s


def corr_loop(ctx):
    rng = ctx.rng
    cases = []   # (n, nstep, answers, code_log, code_asked, meta)

    def one(nK, evaluated, ncpu, percent, chooser, meta, shuffle=None, dump=False, store=True):
        case = dict(nK=nK, evaluated=sorted(evaluated), ncpu=ncpu, percent=percent, meta=meta)
        with ctx.attempt("process() under stub ray", case):
            cnt, log, stub, K, sel = real_process(nK, evaluated, ncpu, percent, chooser, shuffle=shuffle, dump=dump, store=store)
            n = len(sel)
            if n == 0:
                if cnt != 0 or stub.batches:
                    ctx.fail("process() with nothing to do started remote tasks", case)
                return
            b = stub.batches[0]
            # the property on the component itself (independent of the model)
            bad = [k.i for k in K if k.nset != (0 if k.i in evaluated else 1)]
            if bad or sorted(log) != list(range(n)) or cnt != n:
                ctx.fail(f"process(): K-points {bad} were not set exactly once / log {log} is not a permutation "
                         f"of range({n})", dict(case, answers=b["answers"]))
            wrong = [k.i for k in K if k.i not in evaluated and k.res != ("res", k.i)]
            if wrong:
                ctx.fail(f"process(): K-points {wrong[:8]} were given the result of ANOTHER K-point's remote task",
                         dict(case, answers=b["answers"]))
            if dump and any(k.ndump != 1 for k in K if k.i not in evaluated):
                ctx.fail("process(dump_results=True): dump_result not called exactly once per new K-point", case)
            if (not dump) and (not store) and any(k.nclear != 1 for k in K if k.i not in evaluated):
                ctx.fail("process(store_results=False): clear_result not called exactly once per new K-point", case)
            gets = [g for g in b["gets"] if g != "all"]
            cases.append((n, nstep_of(n, ncpu, percent), b["answers"], log, b["asked"], dict(case, gets=gets)))

    # enumerated small schedules
    for n in range(1, ctx.n(4, 5)):
        for nstep in range(1, n + 1):
            for s in enum_schedules(n, nstep, ctx.n(2, 3) if n >= 4 else 3):
                one(n, set(), nstep, 1, rg.scripted_chooser([s]), "enum")
                ctx.count(f"corr.loop.enum.n={n}")
    # the witness schedule of finding F7
    one(8, set(), 3, 1, rg.scripted_chooser([[[5, 6, 7], [0, 1, 2, 4, 6, 7]]]), "F7-witness")
    # random adversarial schedules, with already-evaluated K-points mixed in, dump / clear modes
    for it in range(ctx.n(200, 3000)):
        nK = rng.choice([1, 2, 3, 5, 8, 13, 21, 40]) if rng.random() < 0.7 else rng.randint(1, 40)
        evaluated = set(i for i in range(nK) if rng.random() < rng.choice([0, 0, 0.3, 0.8]))
        ncpu = rng.choice([1, 2, 3, 4, 7])
        percent = rng.choice([1, 1, 10, 30, 100])
        r2 = __import__("random").Random(rng.getrandbits(32))
        one(nK, evaluated, ncpu, percent, rg.adversarial_chooser(r2, max_calls=rng.choice([4, 8, 12])), "random",
            shuffle=r2.shuffle, dump=rng.random() < 0.3, store=rng.random() < 0.7)
        ctx.count(f"corr.loop.random.workers={ncpu}")
    lines = []
    for n, nstep, answers, log, asked, meta in cases:
        lines.append(f"collect 1 {n} {nstep} {sched_str(answers)}")
        lines.append(f"collect 0 {n} {nstep} {sched_str(answers)}")
    return lines, lambda out: check_loop(ctx, cases, lines, out)


def check_loop(ctx, cases, lines, out):
    for j, (n, nstep, answers, log, asked, meta) in enumerate(cases):
        new, old = out[2 * j].split(" "), out[2 * j + 1].split(" ")
        m_added, m_asked, m_done = parse_ints(new[0]), parse_ints(new[1]), new[2]
        nontrivial = parse_ints(old[0]) != m_added
        ctx.case(signature=("loop", n, nstep, sched_str(answers)), nontrivial=nontrivial)
        ctx.count("corr.loop.non_nested(old rule would double count)" if nontrivial else "corr.loop.nested")
        if m_added != log or m_asked != asked or m_done != "1" or meta["gets"] != log:
            ctx.mismatch(f"collection loop: model added={m_added} asked={m_asked} done={m_done} ; "
                         f"code added={log} asked={asked} gets={meta['gets']}",
                         dict(n=n, nstep=nstep, answers=answers, meta=meta))
    if cases:
        ctx.sample(dict(protocol_line=lines[0], model=out[0], code_added=cases[0][3], code_asked=cases[0][4]))
        ctx.sample(dict(protocol_line=lines[-2], model=out[-2], code_added=cases[-1][3], code_asked=cases[-1][4]))


# ------------------------------------------------------------------------------------------------
# component correspondence 2: self_to_path / to_grid on real TABresult objects

def make_tab(kpts, vals, mode):
    from wannierberri.result import TABresult, KBandResult
    from wannierberri.symmetry.point_symmetry import transform_ident
    kpts = np.array(kpts, dtype=float).reshape(-1, 3)
    E = np.array(vals, dtype=float).reshape(-1, 1)
    X = np.stack([E, 2 * E + 1], axis=1).reshape(-1, 2)[:, :1]
    return TABresult(kpoints=kpts, recip_lattice=np.eye(3), mode=mode, save_mode="",
                     results={"Energy": KBandResult(E, transformTR=transform_ident, transformInv=transform_ident),
                              "X": KBandResult(3 * X + 1, transformTR=transform_ident, transformInv=transform_ident)})


def corr_tab(ctx):
    rng = ctx.rng
    lines, expect, cases = [], [], []
    D = 8
    for it in range(ctx.n(60, 600)):
        # ---- path: points k = m/8 (some outside [0,1), some repeated), evaluated in batches, batches permuted
        npt = rng.randint(1, 12)
        base = [tuple(rng.randint(-D, 2 * D) for _ in range(3)) for _ in range(npt)]
        for _ in range(rng.choice([0, 0, 1, 2])):   # revisit a point (same k modulo 1)
            p = rng.choice(base)
            base.insert(rng.randint(0, len(base)), tuple(c + D * rng.randint(-1, 1) for c in p))
        npt = len(base)
        key = [((p[0] % D) * D + (p[1] % D)) * D + (p[2] % D) for p in base]
        firstpos = {}
        for j, k in enumerate(key):
            firstpos.setdefault(k, j)
        val = [firstpos[k] * 3 + 1 for k in key]      # the value that belongs to the k-point
        kb = rng.randint(1, 4)
        batches = [list(range(a, min(a + kb, npt))) for a in range(0, npt, kb)]
        order = list(range(len(batches)))
        rng.shuffle(order)
        case = dict(kind="path", points=base, k_batch=kb, order=order)
        with ctx.attempt("TABresult.self_to_path", case):
            with quiet():
                tot = None
                for b in order:
                    t = make_tab([[c / D for c in base[j]] for j in batches[b]], [val[j] for j in batches[b]], "path")
                    tot = t if tot is None else tot + t
                path = wb.Path(recip_lattice=np.eye(3), k_list=[[c / D for c in p] for p in base])
                tot.self_to_path(path)
            got = tot.results["Energy"].data[:, 0]
            gotX = tot.results["X"].data[:, 0]
            arr = [j for b in order for j in batches[b]]
            lines.append(f"topath {ints(key[j] for j in arr)} {rats(val[j] for j in arr)} {ints(key)}")
            expect.append(",".join(str(int(x)) for x in got))
            cases.append(case)
            ctx.count("corr.path.with_revisited_point" if len(set(key)) < npt else "corr.path.distinct_points")
            # the property itself on this component: each point's own value, in path order, kpoints = path
            if list(got) != val or list(gotX) != [3 * v + 1 for v in val] or \
                    np.abs(tot.kpoints - np.array(base) / D).max() > 0:
                ctx.fail(f"self_to_path: got {list(got)} expected {val}", case)
            # ---- a SECOND result collected in another order, reordered with the SAME Path object (two run() calls on
            # one Path: serial then parallel, or two parallel runs with different completion orders)
            order2 = list(range(len(batches)))
            rng.shuffle(order2)
            if rng.random() < 0.3:
                order2 = list(range(len(batches)))       # the serial order
            with quiet():
                tot2 = None
                for b in order2:
                    t = make_tab([[c / D for c in base[j]] for j in batches[b]], [val[j] for j in batches[b]], "path")
                    tot2 = t if tot2 is None else tot2 + t
                tot2.self_to_path(path)
            got2 = tot2.results["Energy"].data[:, 0]
            arr2 = [j for b in order2 for j in batches[b]]
            lines.append(f"topath2 {ints(key[j] for j in arr)} {rats(val[j] for j in arr)} "
                         f"{ints(key[j] for j in arr2)} {rats(val[j] for j in arr2)} {ints(key)}")
            expect.append(",".join(str(int(x)) for x in got) + " " + ",".join(str(int(x)) for x in got2))
            cases.append(dict(case, order2=order2))
            ctx.count("corr.path.two_calls_on_one_Path.different_order" if order2 != order else "corr.path.two_calls_on_one_Path.same_order")
            if list(got2) != val:
                ctx.fail(f"self_to_path, second call with the same Path object: got {list(got2)} expected {val}",
                         dict(case, order2=order2))
        # ---- grid: every grid point covered 1-3 times, arrival order random
        g = [rng.choice([1, 2, 4]) for _ in range(3)]
        pts = []
        for x in range(g[0]):
            for y in range(g[1]):
                for z in range(g[2]):
                    for _ in range(rng.choice([1, 1, 2, 3])):
                        sh = [rng.randint(-1, 1) for _ in range(3)]
                        pts.append(((x / g[0] + sh[0], y / g[1] + sh[1], z / g[2] + sh[2]),
                                    z + g[2] * (y + g[1] * x), rng.randint(-9, 9)))
        rng.shuffle(pts)
        kb = rng.randint(1, 5)
        case = dict(kind="grid", grid=g, points=[p[0] for p in pts], vals=[p[2] for p in pts], k_batch=kb)
        with ctx.attempt("TABresult.self_to_grid", case):
            with quiet():
                tot = None
                for a in range(0, len(pts), kb):
                    t = make_tab([p[0] for p in pts[a:a + kb]], [p[2] for p in pts[a:a + kb]], "grid")
                    tot = t if tot is None else tot + t
                tot.self_to_grid()
            got = tot.results["Energy"].data[:, 0]
            if list(tot.grid) != g:
                ctx.fail(f"self_to_grid: grid {list(tot.grid)} instead of {g}", case)
                continue
            lines.append(f"togrid {ints(p[1] for p in pts)} {rats(p[2] for p in pts)} {ints(range(g[0] * g[1] * g[2]))}")
            expect.append(list(got))
            cases.append(case)
            ctx.count(f"corr.grid.npoints={g[0] * g[1] * g[2]}")
    return lines, lambda out: check_tab(ctx, lines, expect, cases, out)


def check_tab(ctx, lines, expect, cases, out):
    for l, o, e, c in zip(lines, out, expect, cases):
        ctx.case(signature=l, nontrivial=True)
        if c["kind"] == "path":
            if o != e:
                ctx.mismatch(f"self_to_path: model={o} code={e}", dict(line=l, case=c))
        else:
            mv = [float(x) for x in parse_rats(o)]
            if len(mv) != len(e) or max(abs(a - b) for a, b in zip(mv, e)) > 1e-12:
                ctx.mismatch(f"to_grid: model={o} code={e}", dict(line=l, case=c))
    if lines:
        ctx.sample(dict(protocol_line=lines[0], model=out[0], code=str(expect[0])))


def tables(ctx):
    """regenerate the step of the ray.wait loop from the live source of process() (AST translator) and let the kernel
    check that it IS the repaired model step, for which the theorems are proved"""
    from ..common import REPO
    from . import _translate as T
    try:
        definition, info = T.translate_wait_loop(REPO)
    except T.OutsideFragment as e:
        ctx.note(f"translator: the ray.wait loop of process() left the supported Python fragment ({e}); the hand-written "
                 f"model `step` is used and tied to the code by the correspondence check only")
        ctx.count("tables.wait_loop.fallback_to_hand_model")
        return
    header = "import WB.Props.C12\nnamespace WB.C12\nnamespace Gen\n"
    ths = [
        ("gen_eq_repaired",
         "theorem gen_eq_repaired (s : State) (ready : List Nat) : stepGen s ready = step true s ready := by\n"
         "  first\n    | rfl\n    | (unfold stepGen step diffOf numReturns; simp)\n"),
        ("gen_eq_original",
         "theorem gen_eq_original (s : State) (ready : List Nat) : stepGen s ready = step false s ready := by\n"
         "  first\n    | rfl\n    | (unfold stepGen step diffOf numReturns; simp)\n"),
    ]
    res, out = T.check_generated(ctx, "GenC12.lean", header, definition, ths)
    if res is None:
        ctx.note("translator: the regenerated stepGen did not compile; hand model used. " + out[-300:].replace("\n", " | "))
        ctx.count("tables.wait_loop.fallback_to_hand_model")
        return
    ctx.count("tables.wait_loop.regenerated")
    if res["gen_eq_repaired"]:
        T.record(ctx, "Gen.gen_eq_repaired(stepGen from live process() = step true)", True)
        ctx.note("translator: the loop step regenerated from the live process() equals the model step `old := old ∪ ready` "
                 "(checked by the kernel), so collect_once / collect_never_twice hold for the regenerated definition")
    else:
        why = "it equals the ORIGINAL rule `old := ready`, for which old_rule_double_counts is a proved counterexample" \
            if res["gen_eq_original"] else "it equals neither the repaired nor the original model step"
        T.record(ctx, "Gen.gen_eq_repaired(stepGen from live process() = step true)", False,
                 f"the loop step regenerated from the live process() is not the model step the theorems are about: {why}")


def corr(ctx):
    # one single driver run for all protocol lines (start-up of `lean --run` dominates on a loaded machine)
    l1, chk1 = corr_loop(ctx)
    l2, chk2 = corr_tab(ctx)
    out = ctx.lean(l1 + l2)
    chk1(out[:len(l1)])
    chk2(out[len(l1):])


# ------------------------------------------------------------------------------------------------
# property oracle: real run(), parallel under adversarial schedules == serial

def integ_calcs(rng, system_name):
    c = {"hash": rg.HashCalc(salt=rng.randint(0, 999), nE=3),
         "peak": rg.PeakCalc([rng.choice([0.1, 0.3, 0.62]), rng.choice([0.2, 0.45]), 0.0 if system_name.startswith("haldane") else 0.3],
                             rng.choice([0.05, 0.2]))}
    if rng.random() < 0.5:
        c["ahc"] = wb.calculators.static.AHC(Efermi=np.linspace(-1, 1, 5), save_mode="")
    if rng.random() < 0.3:
        c["dos"] = wb.calculators.static.DOS(Efermi=np.linspace(-1, 1, 5), save_mode="")
    return c


def tab_calcs(mode):
    T = wb.calculators.tabulate
    return {"tab": T.TabulatorAll({"Energy": T.Energy(), "berry": T.BerryCurvature(), "vel": T.Velocity()},
                                  mode=mode, save_mode="")}


def run_pair(ctx, system, grid, calcs, stub, kw, case):
    """serial reference and parallel run under the stub; returns (serial, parallel) or None"""
    d = rg.scratch("c12")
    common = dict(fout_name=d + "/out", file_Klist_path=d + "/kl", **kw)
    with quiet(), rg.no_ray():
        r0 = wb.run(system, grid, calcs, parallel=True, **common)        # falls back to serial: ray "not initialised"
    with quiet(), rg.no_ray():
        r0b = wb.run(system, grid, calcs, parallel=False, **common)
    with quiet(), rg.stub_ray(stub):
        r1 = wb.run(system, grid, calcs, parallel=True, **common)
    return r0, r0b, r1


def exact_case(name, nkdiv, kw):
    """integer values x dyadic weights: every partial sum is exact in doubles, whatever the order of summation"""
    return all(d in (1, 2, 4, 8) for d in nkdiv) and kw.get("adpt_mesh", 2) == 2 and name in ("haldane", "cubic", "cubic_c4i")


def compare_energy_results(ctx, r0, r1, what, case, exact_keys=()):
    for k, v in r0.results.items():
        if not hasattr(v, "Energies"):
            continue
        a, b = np.array(v.data), np.array(r1.results[k].data)
        scale = max(1.0, np.abs(a).max())
        tol = 0.0 if k in exact_keys else 1e-11 * scale
        if a.shape != b.shape or np.abs(a - b).max() > tol:
            ctx.fail(f"{what}: integrated '{k}' differs, max|diff|={np.abs(a - b).max() if a.shape == b.shape else 'shape'}"
                     f" (tolerance {tol})", dict(case, serial=a, parallel=b))
            return False
    return True


def oracle_integrate(ctx, scale):
    rng = ctx.rng
    for it in range(ctx.n(10, 60) * scale):
        name = rng.choice(rg.SYSTEMS_2D + rg.SYSTEMS_3D)
        system = rg.toy_system(name)
        two_d = name.startswith("haldane")
        div = rng.choice([2, 3, 4, 6]) if two_d else rng.choice([2, 3, 4])
        nkdiv = [div, div, 1] if two_d else [div] * 3
        irred = rng.random() < 0.6
        niter = rng.choice([0, 1, 2, 3])
        kw = dict(adpt_num_iter=niter, adpt_mesh=rng.choice([2, 2, 3]), adpt_fac=rng.choice([1, 1, 2, 4]),
                  use_irred_kpt=irred, symmetrize=rng.random() < 0.5,
                  print_progress_step_percent=rng.choice([1, 10, 50]))
        store = rng.choice(["mem", "restart", "dump"])
        if store != "mem":
            kw["allow_restart"] = True
        if store == "dump":
            kw["dump_results"] = True
        ncpu = rng.choice([1, 2, 3, 5, 8])
        r2 = __import__("random").Random(rng.getrandbits(32))
        stub = rg.StubRay(ncpu, rg.adversarial_chooser(r2, max_calls=rng.choice([3, 6, 12])), shuffle=r2.shuffle)
        calcs = integ_calcs(rng, name)
        case = dict(kind="integrate", system=name, NKdiv=nkdiv, NKFFT=1 if "ahc" not in calcs and "dos" not in calcs else 2,
                    calculators=sorted(calcs), workers=ncpu, store=store, **kw)
        with ctx.attempt("run() parallel vs serial", case):
            with quiet():
                nf = case["NKFFT"]
                grid = wb.Grid(system, NKdiv=nkdiv, NKFFT=[nf, nf, 1] if two_d else nf)
            r0, r0b, r1 = run_pair(ctx, system, grid, calcs, stub, kw, case)
            log = [dict(n=b["n"], asked=b["asked"], answers=b["answers"]) for b in stub.batches]
            case["schedule"] = log
            nonnested = any(not set(a).issubset(b2) for b in stub.batches for a, b2 in zip(b["answers"], b["answers"][1:]))
            ctx.case(signature=("int", name, tuple(nkdiv), str(sorted(kw.items())), str(log)), nontrivial=nonnested)
            ctx.count(f"oracle.integrate.{store}.iter={niter}")
            ctx.count("oracle.integrate.non_nested_schedule" if nonnested else "oracle.integrate.nested_schedule")
            if len(stub.batches) != sum(1 for b in stub.batches if b["n"] > 0):
                ctx.fail("empty batch of remotes", case)
            ex = ("hash",) if exact_case(name, nkdiv, kw) else ()
            ctx.count("oracle.integrate.bitwise_comparison" if ex else "oracle.integrate.rounding_comparison")
            compare_energy_results(ctx, r0b, r0, "serial (parallel=False) vs parallel=True without ray", case, ex)
            compare_energy_results(ctx, r0b, r1, "parallel (adversarial ray.wait schedule) vs serial", case, ex)
    rg.cleanup()


def oracle_tabulate(ctx, scale):
    from ..wbsys import evalk
    rng = ctx.rng
    for it in range(ctx.n(10, 40) * scale):
        name = rng.choice(rg.SYSTEMS_2D + rg.SYSTEMS_3D)
        system = rg.toy_system(name)
        two_d = name.startswith("haldane")
        ncpu = rng.choice([1, 2, 3, 5])
        r2 = __import__("random").Random(rng.getrandbits(32))
        stub = rg.StubRay(ncpu, rg.adversarial_chooser(r2, max_calls=rng.choice([3, 6, 12])), shuffle=r2.shuffle)
        if rng.random() < 0.5:
            # ---------------- path
            D = 16
            npt = rng.randint(2, 14)
            pts = [[rng.randint(-D, 2 * D) / D, rng.randint(-D, 2 * D) / D, 0.0 if two_d else rng.randint(-D, 2 * D) / D]
                   for _ in range(npt)]
            if rng.random() < 0.4:
                pts.append(list(pts[0]))            # closed path: first point visited again
            kb = rng.choice([1, 2, 3, 5])
            case = dict(kind="path", system=name, k_list=pts, k_batch=kb, workers=ncpu)
            with ctx.attempt("run() along a path, parallel vs serial", case):
                with quiet():
                    path = wb.Path(system, k_list=pts)
                kw = dict(k_batch=kb, print_progress_step_percent=rng.choice([1, 30]))
                r0, r0b, r1 = run_pair(ctx, system, path, tab_calcs("path"), stub, kw, case)
                case["schedule"] = [dict(n=b["n"], answers=b["answers"]) for b in stub.batches]
                order = [g for b in stub.batches for g in b["gets"] if g != "all"]
                ctx.case(signature=("path", name, str(pts), kb, str(case["schedule"])), nontrivial=order != sorted(order))
                ctx.count("oracle.path.out_of_order_arrival" if order != sorted(order) else "oracle.path.in_order_arrival")
                t0, t1 = r0b.results["tab"], r1.results["tab"]
                if np.abs(t1.kpoints - np.array(pts)).max() > 1e-12:
                    ctx.fail("path tabulation: k-points are not in path order", dict(case, kpoints=t1.kpoints))
                    continue
                for q in ("Energy", "berry", "vel"):
                    a, b = t0.results[q].data, t1.results[q].data
                    if a.shape != b.shape or np.abs(a - b).max() > 1e-10 * max(1, np.abs(a).max()):
                        ctx.fail(f"path tabulation '{q}': parallel differs from serial by "
                                 f"{np.abs(a - b).max() if a.shape == b.shape else 'shape'}", dict(case, serial=a, parallel=b))
                        break
                else:
                    # each point's own values: independent evaluation at the k-point itself
                    j = rng.randrange(len(pts))
                    ref = evalk(system, pts[j], ["energy", "berry_curvature"])
                    e = np.array(ref["energy"]).reshape(-1)
                    o = np.array(ref["berry_curvature"]).reshape(t1.results["berry"].data[j].shape)
                    if np.abs(t1.results["Energy"].data[j] - e).max() > 1e-9 or \
                            np.abs(t1.results["berry"].data[j] - o).max() > 1e-7 * max(1, np.abs(o).max()):
                        ctx.fail(f"path tabulation: point {j} does not carry its own values", dict(case, point=pts[j]))
        else:
            # ---------------- grid (no refinement: tabulation is defined for iteration 0 only)
            div = rng.choice([1, 2, 3, 4])
            nf = rng.choice([1, 2, 3])
            irred = rng.random() < 0.6
            case = dict(kind="grid", system=name, NKdiv=div, NKFFT=nf, workers=ncpu, use_irred_kpt=irred)
            with ctx.attempt("run() tabulation on a grid, parallel vs serial", case):
                with quiet():
                    grid = wb.Grid(system, NKdiv=[div, div, 1] if two_d else div, NKFFT=[nf, nf, 1] if two_d else nf)
                kw = dict(use_irred_kpt=irred, symmetrize=irred or rng.random() < 0.5)
                r0, r0b, r1 = run_pair(ctx, system, grid, tab_calcs("grid"), stub, kw, case)
                case["schedule"] = [dict(n=b["n"], answers=b["answers"]) for b in stub.batches]
                order = [g for b in stub.batches for g in b["gets"] if g != "all"]
                ctx.case(signature=("grid", name, div, nf, irred, str(case["schedule"])), nontrivial=order != sorted(order))
                ctx.count("oracle.grid.out_of_order_arrival" if order != sorted(order) else "oracle.grid.in_order_arrival")
                t0, t1 = r0b.results["tab"], r1.results["tab"]
                if t0.kpoints.shape != t1.kpoints.shape or np.abs(t0.kpoints - t1.kpoints).max() > 1e-12 or \
                        list(t0.grid) != list(t1.grid):
                    ctx.fail("grid tabulation: k-points/grid differ between parallel and serial", case)
                    continue
                for q in ("Energy", "berry", "vel"):
                    a, b = t0.results[q].data, t1.results[q].data
                    if a.shape != b.shape or np.abs(a - b).max() > 1e-10 * max(1, np.abs(a).max()):
                        ctx.fail(f"grid tabulation '{q}': parallel differs from serial by "
                                 f"{np.abs(a - b).max() if a.shape == b.shape else 'shape'}", dict(case, serial=a, parallel=b))
                        break
    rg.cleanup()


def oracle_session_history(ctx, scale):
    """one ray session, the SAME system / grid / path objects passed to run(parallel=True) several times, with in-place
    changes through the public API in between (set_R_mat reset / add, set_pointgroup, a new calculator set): every
    parallel run must equal the serial run of the object AS IT IS NOW.  The stub's object store snapshots on
    `ray.put` like the real one, so anything that re-uses an earlier snapshot evaluates a stale system."""
    import copy
    import random
    rng = ctx.rng
    T = wb.calculators.tabulate
    for it in range(ctx.n(3, 12) * scale):
        name = rng.choice(["haldane", "haldane_c3", "cubic", "cubic_c4i"])
        two_d = name.startswith("haldane")
        with quiet():
            system = copy.deepcopy(rg.toy_system(name))        # the shared toy systems are never modified
            div = rng.choice([2, 3, 4])
            grid = wb.Grid(system, NKdiv=[div, div, 1] if two_d else rng.choice([2, 3]), NKFFT=[2, 2, 1] if two_d else 2)
            D = 16
            pts = [[rng.randint(-D, 2 * D) / D, rng.randint(-D, 2 * D) / D, 0.0 if two_d else rng.randint(0, D) / D]
                   for _ in range(rng.randint(5, 11))]
            path = wb.Path(system, k_list=pts)
        r2 = random.Random(rng.getrandbits(32))
        stub = rg.StubRay(rng.choice([1, 2, 3, 5]), rg.adversarial_chooser(r2, max_calls=rng.choice([3, 6, 12])), shuffle=r2.shuffle)
        nsteps = rng.randint(3, 5)
        history = []
        for step in range(nsteps):
            if step > 0:
                op = rng.choice(["scale_ham", "add_ham", "onsite", "pointgroup"] if name != "haldane" and name != "cubic"
                                else ["scale_ham", "add_ham", "onsite"])
                with quiet():
                    H = system.get_R_mat("Ham")
                    if op == "scale_ham":
                        system.set_R_mat("Ham", H * rng.choice([0.5, 1.25, 2.0]), reset=True)
                    elif op == "add_ham":
                        system.set_R_mat("Ham", H * rng.choice([0.25, -0.125]), add=True)
                    elif op == "onsite":
                        shift = np.array([rng.choice([-0.5, 0.25, 0.75]) * (j + 1) for j in range(system.num_wann)])
                        system.set_R_mat("Ham", shift, diag=True, add=True)
                    elif op == "pointgroup":
                        system.set_pointgroup(rng.choice([["C3z"], []]) if two_d else rng.choice([["C4z", "Inversion"], ["C4z"], ["Inversion"]]))
                history.append(op)
            on_path = rng.random() < 0.4
            case = dict(kind="session history", system=name, step=step, changes_so_far=list(history),
                        target="path" if on_path else "grid", workers=stub.ncpu)
            with ctx.attempt("repeated run(parallel=True) on one system object", case):
                d = rg.scratch("c12hist")
                if on_path:
                    calcs = {"tab": T.TabulatorAll({"Energy": T.Energy(), "berry": T.BerryCurvature()}, mode="path", save_mode="")}
                    kw = dict(k_batch=rng.choice([2, 3]))
                    target = path
                else:
                    calcs = {"dos": wb.calculators.static.DOS(Efermi=np.linspace(-2, 2, 7), save_mode=""),
                             "ahc": wb.calculators.static.AHC(Efermi=np.linspace(-2, 2, 7), save_mode="")}
                    kw = dict(adpt_num_iter=rng.choice([0, 1]), use_irred_kpt=rng.random() < 0.6)
                    target = grid
                common = dict(fout_name=d + "/o", file_Klist_path=d + "/kl", **kw)
                with quiet(), rg.no_ray():
                    r0 = wb.run(system, target, calcs, parallel=False, **common)
                with quiet(), rg.stub_ray(stub):
                    r1 = wb.run(system, target, calcs, parallel=True, **common)
                ctx.case(signature=("hist", name, step, str(history), on_path), nontrivial=step > 0)
                ctx.count(f"oracle.session_history.run#{step + 1}_on_the_same_object")
                if history:
                    ctx.count(f"oracle.session_history.after_{history[-1]}")
                if on_path:
                    t0, t1 = r0.results["tab"], r1.results["tab"]
                    for q in ("Energy", "berry"):
                        a, b = t0.results[q].data, t1.results[q].data
                        if a.shape != b.shape or np.abs(a - b).max() > 1e-9 * max(1, np.abs(a).max()):
                            ctx.fail(f"run #{step + 1} on the same system object (after {history or 'no change'}): tabulated "
                                     f"'{q}' of the parallel run differs from the serial run of the CURRENT system by "
                                     f"{np.abs(a - b).max() if a.shape == b.shape else 'shape'}", case)
                            break
                else:
                    for k in ("dos", "ahc"):
                        a, b = np.array(r0.results[k].data), np.array(r1.results[k].data)
                        if a.shape != b.shape or np.abs(a - b).max() > 1e-10 * max(1.0, np.abs(a).max()):
                            ctx.fail(f"run #{step + 1} on the same system object (after {history or 'no change'}): integrated "
                                     f"'{k}' of the parallel run differs from the serial run of the CURRENT system by "
                                     f"{np.abs(a - b).max() if a.shape == b.shape else 'shape'}", case)
                            break
    rg.cleanup()


def oracle_real_ray(ctx):
    """thorough tier: the real ray (3 workers), tasks skewed by sleeps so that they complete out of order.  Runs when
    the machine is quiet enough for ray to start in time; otherwise (or when ray cannot start) it is a NOTE, never a
    failure of the property."""
    import subprocess
    import sys
    import os
    import json
    import signal
    import shutil
    script = os.path.join(os.path.dirname(os.path.abspath(__file__)), "_c12_realray.py")
    if not os.path.exists(script):
        ctx.note("real-ray script missing: skipped")
        return
    load = os.getloadavg()[0]
    ncpu = os.cpu_count() or 1
    if load > 3 * ncpu and not os.environ.get("WB_FORCE_REAL_RAY"):
        ctx.note(f"real-ray leg skipped: machine loaded (load average {load:.0f} on {ncpu} cores); ray.init alone took "
                 f"> 2 min under such load.  Set WB_FORCE_REAL_RAY=1 to try anyway")
        ctx.count("oracle.realray.skipped_machine_loaded")
        return
    timeout = 330
    p = subprocess.Popen([sys.executable, "-W", "ignore", script, str(ctx.rng.getrandbits(30))], stdout=subprocess.PIPE,
                         stderr=subprocess.PIPE, text=True, env=dict(os.environ), start_new_session=True)
    try:
        out, err = p.communicate(timeout=timeout)
    except subprocess.TimeoutExpired:
        try:
            os.killpg(p.pid, signal.SIGTERM)
        except Exception:
            pass
        try:
            out, err = p.communicate(timeout=20)
        except Exception:
            try:
                os.killpg(p.pid, signal.SIGKILL)
            except Exception:
                pass
            out, err = "", ""
        shutil.rmtree(os.path.join(rg.SCRATCH, f"c12ray-{p.pid}"), ignore_errors=True)
        ctx.note(f"real-ray run timed out after {timeout} s: skipped (infrastructure, not a property failure)")
        ctx.count("oracle.realray.timed_out")
        return
    shutil.rmtree(os.path.join(rg.SCRATCH, f"c12ray-{p.pid}"), ignore_errors=True)
    line = [l for l in out.split("\n") if l.startswith("RESULT ")]
    if p.returncode != 0 or not line:
        ctx.note("real-ray run could not be performed in this sandbox: " + (err or out)[-300:].replace("\n", " | "))
        ctx.count("oracle.realray.could_not_start")
        return
    res = json.loads(line[0][7:])
    ctx.note(f"real-ray leg ran: {len(res['cases'])} run() pairs (ray.init {res.get('init_s', '?')} s, total {res.get('total_s', '?')} s)")
    for r in res["cases"]:
        ctx.case(signature=("realray", str(r["case"])), nontrivial=r["out_of_order"])
        ctx.count("oracle.realray.completed_out_of_order" if r["out_of_order"] else "oracle.realray.completed_in_order")
        if not r["ok"]:
            ctx.fail("real ray: " + r["what"], r["case"])


def oracle(ctx, scale):
    oracle_integrate(ctx, scale)
    oracle_tabulate(ctx, scale)
    oracle_session_history(ctx, scale)
    if ctx.tier == "thorough" and not ctx.searching:
        oracle_real_ray(ctx)
    rg.cleanup()


def replay(ctx, case):
    for fl in case.get("failures", []):
        print("recorded failure:", fl["what"])
        print("  case:", str(fl["case"])[:1500])
    corr(ctx)
    oracle(ctx, 1)
    for m in ctx.mismatches[:3]:
        print("MODEL/CODE MISMATCH:", m["what"][:500])
        ctx.failures.append(m)
