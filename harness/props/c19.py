"""C19 - Wannier90 files written by the code can be read back (.eig/.amn/.mmn text, npz of every file object,
WannierData container)."""
import os
import shutil
import warnings
from fractions import Fraction as Fr

import numpy as np

from ..common import F, rat, rats, ints, quiet
from .c18 import tokenize, parse_model_file, same_tokens, show_file

PID = "C19"
CLAIM = dict(
    design="3/C19",
    technique="Lean 4 proof over token-level models of the .eig/.amn/.mmn writers and readers (loop order vs "
              "reshape/transpose, 1-based indices, headers, column maxima, asserts) and of the npz dictionary "
              "encoding (dic_to_keydic / keydic_to_dic / as_dict / from_dict / equals, file naming of WannierData) "
              "+ regenerated tag tables checked by the kernel + exact differential correspondence + exact property "
              "oracle on the real code",
    text="Theorems, for all sizes and an arbitrary print-parse map rho: EIG.from_w90_file(EIG.to_w90_file) succeeds "
         "(asserts, reshape) and returns NK, NB and rho(E[ik][ib]); AMN likewise returns (NB,NK,NW) and "
         "rho(data[ik][ib,iw]) through the ik,iw,ib loop order and reshape(NK,NW,NB).transpose(0,2,1); the loop nest "
         "of MMN.to_w90_file is consistent with MMN.from_w90_file (sizes, k-point assert, neighbours, G, "
         "data[ik][ib,m,n]) once neighbours/G are supplied - in /repo the method fails before writing because they "
         "live in BKVectors (known finding F3); the 1x1 one-line .eig file is covered (repaired defect F16); from_dict(as_dict(o)) = o for every object whose tags satisfy the "
         "prefix side condition, which is re-checked by the Lean kernel on the live tag tables of every SavableNPZ "
         "subclass on every run; the reloaded object satisfies equals(); WannierData.from_npz looks for the file "
         "to_npz wrote for every key except mmn_ud/mmn_du, which collide with mmn (known finding F15); after ANY history of saves, in-place edits (select_bands, select_kpoints, edits of .data) and replaced files on one container, to_npz followed by from_npz returns the container as it is NOW (to_npz is a function of the current contents; a 'skip if same object identity' cache is refuted by a counterexample).  Model and "
         "code are compared token by token; the oracle checks on the real code that every reloaded value is the "
         "printed value of the original, bit for bit, and that every npz round trip compares equal.",
    note="Trusted: Lean kernel + Mathlib; the harness; Python float formatting/parsing (%17.12f modelled exactly at "
         "Rat and checked on every token), int(str(k)) = k, np.savez/np.load, np.loadtxt, multiprocessing.Pool.map order.",
)
TRUSTED = [
    "modelled: EIG/AMN.to_w90_file + from_w90_file, the loop nest of MMN.to_w90_file and the text part of "
    "MMN.from_w90_file, dic_to_keydic, keydic_to_dic (branch `name not in keydic`), SavableNPZ.as_dict/from_dict, "
    "W90_file.equals on the dictionary, file naming in WannierData.to_npz/from_npz, histories of saves / in-place edits / "
    "replaced files on one container (to_npz as a function of the current contents)",
    "not modelled (oracle only): np.savez_compressed/np.load, normalize_type, the constructors' shape checks, "
    "BKVectors.reorder_bk_vectors, the chunked islice loop of MMN.from_w90_file, WIN/CheckPoint/BKVectors attribute handling",
    "hypotheses of the dictionary theorems: int(str(k)) = k and str(k) contains no underscore",
]
RULE = ("random file objects built with the repository's own classes: NK 1-6, NB 1-7, NW 1-5, NNB 1-4, complex "
        "data over 6 decades incl. negative and |x|<1e-12 values, full and sparse (irreducible) k-point sets, "
        "optional tags present/absent, permuted bk_reorder; every SavableNPZ subclass; WannierData with random "
        "subsets of files; histories of 3-7 steps (to_npz to two seednames, select_bands, select_kpoints, in-place edits, set_file(overwrite=True), files of another container already on disk) on containers, single file objects and the text writers; non-trivial = more than one k-point or band; distinct = distinct (class, sizes, options, seed)")


def rho12(x):
    return float(f"{x:17.12f}")


def rho12_arr(X):
    X = np.asarray(X)
    if np.iscomplexobj(X):
        return np.vectorize(rho12)(X.real) + 1j * np.vectorize(rho12)(X.imag)
    return np.vectorize(rho12)(X)


def cflat(X):
    out = []
    for z in np.asarray(X, dtype=complex).reshape(-1):
        out.append(F(z.real))
        out.append(F(z.imag))
    return out


def rvals(nprng, shape, cplx=True):
    e = nprng.integers(-5, 2, shape)
    x = nprng.uniform(-1, 1, shape) * 10.0 ** e
    m = nprng.random(shape) < 0.05
    x = np.where(m, nprng.uniform(-1, 1, shape) * 1e-13, x)
    if cplx:
        return x + 1j * rvals(nprng, shape, cplx=False)
    return x


def imports():
    with quiet():
        from wannierberri.w90files.eig import EIG
        from wannierberri.w90files.amn import AMN
        from wannierberri.w90files.mmn import MMN
        from wannierberri.w90files.xxu import UHU, UIU, SHU, SIU
        from wannierberri.w90files.spn import SPN
        from wannierberri.w90files.unk import UNK
        from wannierberri.w90files.soc import SOC
        from wannierberri.w90files.bkvectors import BKVectors
        from wannierberri.w90files.chk import CheckPoint
        from wannierberri.w90files.win import WIN
        from wannierberri.w90files.wandata import WannierData
    return dict(EIG=EIG, AMN=AMN, MMN=MMN, UHU=UHU, UIU=UIU, SHU=SHU, SIU=SIU, SPN=SPN, UNK=UNK, SOC=SOC,
                BKVectors=BKVectors, CheckPoint=CheckPoint, WIN=WIN, WannierData=WannierData)


def sparse(rng, lst, NK, allow):
    """full list, or a dict with a random non-empty subset of the k-points (irreducible set)"""
    if not allow or rng.random() < 0.6 or NK == 1:
        return list(lst), list(range(NK))
    keep = sorted(rng.sample(range(NK), rng.randint(1, NK - 1)))
    return {k: lst[k] for k in keep}, keep


def make_bkvec(C, rng, nprng, mp=None):
    mp = mp or rng.choice([(2, 2, 1), (2, 1, 1), (2, 2, 2), (3, 1, 1), (1, 1, 2)])
    a = nprng.uniform(0.9, 1.3, 3)
    L = np.diag(a) if rng.random() < 0.5 else np.eye(3) * a[0]
    recip = 2 * np.pi * np.linalg.inv(L).T
    kpts = np.array([[i / mp[0], j / mp[1], k / mp[2]] for i in range(mp[0]) for j in range(mp[1]) for k in range(mp[2])])
    with quiet():
        bk = C["BKVectors"].from_kpoints(recip_lattice=recip, mp_grid=np.array(mp), kpoints_red=kpts)
    return bk, L, kpts, mp


# ------------------------------------------------------------------------------------------------

def corr(ctx):
    C = imports()
    EIG, AMN, MMN = C["EIG"], C["AMN"], C["MMN"]
    rng, nprng = ctx.rng, ctx.nprng()
    work = os.path.join(ctx.work, "corr")
    os.makedirs(work, exist_ok=True)
    lines, checks = [], []

    def add(line, check, what, case):
        lines.append(line)
        checks.append((check, what, case))

    from ..common import parse_rats, parse_ints
    for it in range(ctx.n(8, 30)):
        NK, NB, NW = rng.randint(1, 4), rng.randint(1, 5), rng.randint(1, 4)
        if it == 1:
            NK, NB = 1, 1
        seed = os.path.join(work, f"c{it}")
        # ---------------- EIG
        E = rvals(nprng, (NK, NB), cplx=False) * 30
        case = dict(cls="EIG", NK=NK, NB=NB)
        ctx.count(f"corr.NK={NK}")
        with ctx.attempt("EIG.to_w90_file", case):
            eig = EIG(data=[E[k].copy() for k in range(NK)])
            with quiet():
                eig.to_w90_file(seed)
            real = [[("i", int(t)) if j < 2 else ("v", float(t)) for j, t in enumerate(l.split())]
                    for l in open(seed + ".eig").read().split("\n")[:-1]]
            add(f"eigwrite f12 {NK} {NB} {rats(F(x) for x in E.reshape(-1))}",
                (lambda out, real=real: same_tokens(parse_model_file(out), real)), "EIG.to_w90_file tokens", case)
            with quiet():
                e2 = EIG.from_w90_file(seed)
            got = (e2.NK, e2.NB, [F(x) for k in range(NK) for x in e2.data[k]])
            if NK * NB == 1:
                ctx.count("corr.eig.one_row")      # the one-line file (np.loadtxt needs ndmin=2: repaired defect F16)

            def chk(out, got=got):
                if out == "error":
                    return "model reader rejects the file"
                a, b, c = out.split(" ")
                if (int(a), int(b)) != got[:2]:
                    return f"sizes model {(a, b)} code {got[:2]}"
                if parse_rats(c) != got[2]:
                    return "values differ"
                return None
            add(f"eigread {show_file(real)}", chk, "EIG.from_w90_file vs model reader", case)
        # ---------------- AMN
        A = rvals(nprng, (NK, NB, NW))
        case = dict(cls="AMN", NK=NK, NB=NB, NW=NW)
        with ctx.attempt("AMN.to_w90_file", case):
            amn = AMN(data=[A[k].copy() for k in range(NK)])
            with quiet():
                amn.to_w90_file(seed)
            real = tokenize(seed + ".amn")
            add(f"amnwrite f12 {NK} {NB} {NW} {rats(cflat(A))}",
                (lambda out, real=real: same_tokens(parse_model_file(out), real)), "AMN.to_w90_file tokens", case)
            with quiet():
                a2 = AMN.from_w90_file(seed, npar=1)
            got = (a2.NK, a2.NB, a2.NW, cflat(np.array([a2.data[k] for k in range(NK)])))

            def chk(out, got=got):
                a, b, c, d = out.split(" ")
                if (int(a), int(b), int(c)) != got[:3]:
                    return f"sizes model {(a, b, c)} code {got[:3]}"
                if parse_rats(d) != got[3]:
                    return "values differ"
                return None
            add(f"amnread {show_file(real)}", chk, "AMN.from_w90_file vs model reader", case)

    # ---------------- MMN: the writer's loop nest (with neighbours/G attached to the object) and the reader
    for it in range(ctx.n(3, 10)):
        with ctx.attempt("MMN loop nest / reader", dict(it=it)):
            bk, L, kpts, mp = make_bkvec(C, rng, nprng)
            NK, NNB, NB = bk.NK, bk.NNB, rng.randint(1, 3)
            M = rvals(nprng, (NK, NNB, NB, NB))
            mmn = MMN(data=[M[k].copy() for k in range(NK)])
            nbr = np.array([bk.neighbours[k] for k in range(NK)])
            G = np.array([bk.G[k] for k in range(NK)])
            case = dict(cls="MMN", NK=NK, NNB=NNB, NB=NB, mp_grid=mp)
            seed = os.path.join(work, f"m{it}")
            mmn.neighbours, mmn.G = nbr, G          # what the method expects to find on `self`
            with quiet():
                mmn.to_w90_file(seed)
            real = tokenize(seed + ".mmn")
            add(f"mmnwrite {NK} {NNB} {NB} {ints(nbr.reshape(-1))} {ints(G.reshape(-1))} {rats(cflat(M))}",
                (lambda out, real=real: same_tokens(parse_model_file(out), real)),
                "MMN.to_w90_file loop nest (neighbours/G attached by the harness)", case)
            with quiet():
                m2 = MMN.from_w90_file(seed, bkvec=bk, npar=1)
            got = (m2.NK, m2.NNB, m2.NB, cflat(np.array([m2.data[k] for k in range(NK)])),
                   [list(m2.bk_reorder[k]) for k in range(NK)])

            def chk(out, got=got, nbr=nbr, G=G):
                a, b, c, ok, nb_, g_, d = out.split(" ")
                if (int(a), int(b), int(c)) != got[:3]:
                    return f"sizes model {(a, b, c)} code {got[:3]}"
                if ok != "1":
                    return "model: k-point assert fails"
                if parse_ints(nb_) != [int(x) for x in nbr.reshape(-1)] or parse_ints(g_) != [int(x) for x in G.reshape(-1)]:
                    return "neighbours / G"
                if any(r != list(range(int(b))) for r in got[4]):
                    return f"code reordered the b-vectors {got[4]} although the file is in BKVectors order"
                if parse_rats(d) != got[3]:
                    return "values differ"
                return None
            add(f"mmnread {show_file(real)}", chk, "MMN.from_w90_file vs model reader", case)

    # ---------------- as_dict / from_dict on a synthetic SavableNPZ subclass, collisions included
    from wannierberri.w90files.io import SavableNPZ
    pool_plain = ["NK", "spinor", "kpt_grid", "G", "data_7", "datax", "overlap_3", "mp_grid", "wk"]
    pool_dict = ["data", "bk_reorder", "overlap", "G", "neighbours", "v_matrix", "bk"]
    for it in range(ctx.n(12, 40)):
        dts = rng.sample(pool_dict, rng.randint(1, 3))
        pls = [p for p in rng.sample(pool_plain, rng.randint(0, 4)) if p not in dts]
        dvals = {}
        cnt = 100
        for t in dts:
            keys = sorted(rng.sample(range(0, 14), rng.randint(1, 4)))
            rng.shuffle(keys)
            dvals[t] = {}
            for k in keys:
                dvals[t][k] = cnt
                cnt += 1

        class Dummy(SavableNPZ):
            npz_tags = list(pls)
            npz_keys_dict_int = list(dts)

            def __init__(self, **kw):
                for k, v in kw.items():
                    setattr(self, k, v)
        case = dict(plain_tags=pls, dict_tags={t: list(dvals[t]) for t in dts})
        allkeys = pls + [f"{t}_{k}" for t in dts for k in dvals[t]]
        if any(k.startswith(t + "_") and not k[len(t) + 1:].isdigit() for t in dts for k in allkeys):
            # a key of another tag with a non-numeric rest: int() raises in the code; the model's `parse` is total
            ctx.count("corr.dict.nonnumeric_collision_skipped")
            continue
        with ctx.attempt("SavableNPZ.as_dict / from_dict", case):
            obj = Dummy(**{p: i for i, p in enumerate(pls)}, **dvals)
            # the model numbers plain values 0.. and dictionary values 1000*(tag index+1)+position
            remap = {}
            for ti, t in enumerate(dts):
                for j, k in enumerate(dvals[t]):
                    remap[dvals[t][k]] = 1000 * (ti + 1) + j
            d = obj.as_dict()
            want = ",".join(f"{k}={remap.get(v, v)}" for k, v in d.items())
            tl = ",".join(pls) if pls else "_"
            dl = ";".join(t + ":" + ".".join(str(k) for k in dvals[t]) for t in dts)
            add(f"asdict {tl} {dl}", (lambda out, want=want: None if out == want else f"model {out} code {want}"),
                "as_dict keys and order", case)
            try:
                back = Dummy.from_dict(d, return_obj=False)
                wt = ",".join(f"{k}={remap.get(back[k], back[k])}" for k in pls if k in back) or "_"
                wd = ";".join(t + ":" + (".".join(f"{k}={remap.get(v, v)}" for k, v in back[t].items()) or "_") for t in dts)
                want2 = wt + " " + wd
            except ValueError as e:
                want2 = "ValueError"
            add(f"roundtrip {tl} {dl}", (lambda out, want2=want2: None if out == want2 else f"model {out} code {want2}"),
                "from_dict(as_dict) incl. prefix collisions", case)
            ctx.count("corr.dict.collision" if any(p.startswith(t + "_") for p in pls for t in dts) else "corr.dict.clean")

    # ---------------- WannierData file names
    WD = C["WannierData"]
    for key, cls in [("eig", "EIG"), ("amn", "AMN"), ("mmn", "MMN"), ("mmn_ud", "MMN"), ("mmn_du", "MMN"), ("spn", "SPN")]:
        with ctx.attempt("WannierData file names", dict(key=key)):
            NK, NB = 2, 2
            obj = {"EIG": lambda: C["EIG"](data=[np.ones(NB)] * NK),
                   "AMN": lambda: C["AMN"](data=[np.ones((NB, 1), dtype=complex)] * NK),
                   "MMN": lambda: C["MMN"](data=[np.ones((1, NB, NB), dtype=complex)] * NK),
                   "SPN": lambda: C["SPN"](data=[np.ones((NB, NB, 3), dtype=complex)] * NK)}[cls]()
            d = os.path.join(work, "wd_" + key)
            os.makedirs(d, exist_ok=True)
            with quiet(), warnings.catch_warnings():
                warnings.simplefilter("ignore")
                w = WD()
                w.set_file(key, obj)
                w.to_npz(os.path.join(d, "x"))
                written = sorted(os.listdir(d))
                w2 = WD.from_npz(os.path.join(d, "x"), files=[key])
            found = key in w2._files
            want = (written, found)

            def chk(out, want=want):
                wn, rn = out.split(" ")
                if [f"x.{wn}.npz"] != want[0]:
                    return f"written file: model x.{wn}.npz code {want[0]}"
                if (wn == rn) != want[1]:
                    return f"model read name {rn}, write name {wn}; code found the file: {want[1]}"
                return None
            add(f"wdnames {key} {obj.extension}", chk, "WannierData.to_npz/from_npz file names", dict(key=key))

    # ---------------- histories on one container: which version of which file lies under which seedname
    for it in range(ctx.n(3, 12)):
        with ctx.attempt("WannierData history", dict(it=it)):
            d = os.path.join(work, f"hist{it}")
            os.makedirs(d, exist_ok=True)
            NK, NB = 2, 3
            ver = [0]

            def mk(key):
                ver[0] += 1
                v = float(ver[0])
                if key == "eig":
                    return C["EIG"](data=[np.full(NB, v) for _ in range(NK)])
                return C["AMN"](data=[np.full((NB, 2), v, dtype=complex) for _ in range(NK)])
            ops = []
            with quiet(), warnings.catch_warnings():
                warnings.simplefilter("ignore")
                w = WD()
                for key in ("eig", "amn"):
                    w.set_file(key, mk(key))
                    ops.append(f"f:{key}:{ver[0]}")
                for _ in range(rng.randint(3, 8)):
                    r = rng.random()
                    if r < 0.45:
                        sd = rng.choice(["a", "b"])
                        w.to_npz(os.path.join(d, sd))
                        ops.append(f"s:{sd}")
                    elif r < 0.8:
                        key = rng.choice(["eig", "amn"])
                        ver[0] += 1
                        obj = w.get_file(key)
                        for ik in obj.data:                     # in place: same object, new content
                            obj.data[ik] = np.full(obj.data[ik].shape, float(ver[0]), dtype=obj.data[ik].dtype)
                        ops.append(f"e:{key}:{ver[0]}")
                    else:
                        key = rng.choice(["eig", "amn"])
                        w.set_file(key, mk(key), overwrite=True)
                        ops.append(f"f:{key}:{ver[0]}")
                got = {}
                for fn in sorted(os.listdir(d)):
                    sd, ext, _ = fn.split(".")
                    obj = (C["EIG"] if ext == "eig" else C["AMN"]).from_npz(os.path.join(d, fn))
                    got[f"{sd}.{ext}"] = int(round(float(np.real(obj.data[0].reshape(-1)[0]))))

            def chk(out, got=got):
                m = {} if out == "_" else dict((x.split("=")[0], int(x.split("=")[1])) for x in out.split(","))
                return None if m == got else f"model disk {m} code disk {got}"
            add(f"hist {';'.join(ops)}", chk, "files on disk after a history of saves / in-place edits / replaced files",
                dict(ops=ops))
            ctx.count("corr.history")

    out = ctx.lean(lines)
    for l, o, (check, what, case) in zip(lines, out, checks):
        ctx.case(signature=l[:2000], nontrivial=True)
        msg = check(o) if o != "bad-op" else "model rejected the line"
        if msg:
            ctx.mismatch(f"{what}: {msg}", dict(case, line=l[:500]))
    if lines:
        ctx.sample(dict(protocol_line=lines[0][:300], model=out[0][:300]))


def all_subclasses(cls):
    out = []
    for c in cls.__subclasses__():
        out.append(c)
        out += all_subclasses(c)
    return out


def tables(ctx):
    """the side conditions of npz_object_roundtrip, checked by the Lean kernel on the tag tables of every
    SavableNPZ subclass that the live code defines"""
    imports()
    from wannierberri.w90files.io import SavableNPZ
    classes = [c for c in all_subclasses(SavableNPZ) if c.__module__.startswith("wannierberri")]

    def cl(x):
        return "[" + ", ".join("'" + c + "'" for c in x) + "]"

    def cll(xs):
        return "[" + ", ".join(cl(x) for x in xs) + "]"
    src = ["import WB.Model.C19", "open WB.C18 WB.C19",
           "def sideOk (plain dicts : List Name) : Bool :=",
           "  (plain ++ dicts).Nodup && dicts.all (fun t => plain.all (fun p => !((t ++ ['_']).isPrefixOf p)) &&",
           "    dicts.all (fun u => u == t || !((t ++ ['_']).isPrefixOf (u ++ ['_']))))"]
    names = []
    for c in classes:
        plain = list(dict.fromkeys(list(c.npz_tags) + list(c.npz_tags_optional)))
        dicts = list(dict.fromkeys(list(c.npz_keys_dict_int) + list(c.npz_keys_dict_int_optional)))
        ctx.count("tables.classes")
        nm = "t_" + c.__name__
        if nm in names:
            continue
        names.append(nm)
        src.append(f"theorem {nm} : sideOk {cll(plain)} {cll(dicts)} = true := by decide +kernel")
    src.append(f"#print axioms {names[0]}")
    ok, outp = ctx.lean_file("C19Table.lean", "\n".join(src) + "\n")
    ctx.note(f"tag tables of {len(names)} SavableNPZ subclasses checked: " + ", ".join(n[2:] for n in names))
    if not ok:
        ctx.mismatch("prefix side condition fails for a live tag table: " + outp[-600:], dict(classes=names))


# ------------------------------------------------------------------------------------------------
# property oracle

def deep_equal(a, b):
    """exact equality of two as_dict() dictionaries"""
    if sorted(a) != sorted(b):
        return f"keys {sorted(set(a) ^ set(b))}"
    for k in a:
        x, y = np.asarray(a[k]), np.asarray(b[k])
        if x.shape != y.shape or not np.array_equal(x, y):
            return f"value of {k}"
    return None


def gen_objects(C, rng, nprng, irreducible_ok=True):
    """one random instance of every file class, with consistent sizes; returns {key: (obj, description)}"""
    bk, L, kpts, mp = make_bkvec(C, rng, nprng)
    NK, NNB = bk.NK, bk.NNB
    NB, NW = rng.randint(1, 7), rng.randint(1, 5)
    NW = min(NW, NB)
    objs = {}
    full = lambda shape, cplx=True: [rvals(nprng, shape, cplx) for _ in range(NK)]
    d, keep = sparse(rng, full((NB,), False), NK, irreducible_ok)
    objs["eig"] = C["EIG"](data=d, NK=NK)
    d, _ = sparse(rng, full((NB, NW)), NK, irreducible_ok)
    opt = {}
    if rng.random() < 0.5:
        opt = dict(positions=nprng.uniform(0, 1, (NW, 3)), orbitals=np.array([rng.choice(["s", "pz", "dxy"]) for _ in range(NW)]),
                   radial_nodes_list=np.array([rng.randint(0, 2) for _ in range(NW)]),
                   basis_list=np.array([np.eye(3)] * NW), spread_list=np.array([rng.choice([1.0, 0.5]) for _ in range(NW)]),
                   spinor=rng.random() < 0.5)
        for k in rng.sample(sorted(opt), rng.randint(0, 2)):
            opt[k] = None
    objs["amn"] = C["AMN"](data=d, NK=NK, **opt)
    d, keepm = sparse(rng, full((NNB, NB, NB)), NK, irreducible_ok)
    if rng.random() < 0.5:
        perm = {k: np.array(rng.sample(range(NNB), NNB)) for k in keepm}
        objs["mmn"] = C["MMN"](data=d, NK=NK, bk_reorder=perm)
    else:
        objs["mmn"] = C["MMN"](data=d, NK=NK)
    objs["uhu"] = C["UHU"](data=sparse(rng, full((NNB, NNB, NB, NB)), NK, irreducible_ok)[0], NK=NK)
    objs["uiu"] = C["UIU"](data=sparse(rng, full((NNB, NNB, NB, NB)), NK, irreducible_ok)[0], NK=NK)
    objs["shu"] = C["SHU"](data=sparse(rng, full((NNB, NB, NB, 3)), NK, irreducible_ok)[0], NK=NK)
    objs["siu"] = C["SIU"](data=sparse(rng, full((NNB, NB, NB, 3)), NK, irreducible_ok)[0], NK=NK)
    objs["spn"] = C["SPN"](data=sparse(rng, full((NB, NB, 3)), NK, irreducible_ok)[0], NK=NK)
    ns = rng.choice([1, 2])
    objs["unk"] = C["UNK"](data=sparse(rng, full((NB, 2, 3, 2, ns)), NK, irreducible_ok)[0], NK=NK)
    objs["bkvec"] = bk
    vm = None
    if rng.random() < 0.7:
        vm, _ = sparse(rng, full((NB, NW)), NK, irreducible_ok)
        if isinstance(vm, list):
            vm = {i: v for i, v in enumerate(vm)}
    kw = dict(real_lattice=L, num_wann=NW, num_bands=NB, num_kpts=NK, kpt_red=kpts, mp_grid=mp, v_matrix=vm)
    if rng.random() < 0.5:
        kw.update(wannier_centers_cart=nprng.uniform(-1, 1, (NW, 3)), wannier_spreads=nprng.uniform(0.5, 2, NW))
    if rng.random() < 0.3:
        kw.update(selected_bands=np.arange(NB))
    with quiet(), warnings.catch_warnings():
        warnings.simplefilter("ignore")
        objs["chk"] = C["CheckPoint"](**kw)
    return objs, dict(NK=NK, NNB=NNB, NB=NB, NW=NW, mp_grid=mp)


def oracle(ctx, scale):
    history_oracle(ctx, scale)
    C = imports()
    rng, nprng = ctx.rng, ctx.nprng()
    work = os.path.join(ctx.work, "oracle")
    os.makedirs(work, exist_ok=True)
    EIG, AMN, MMN, WD = C["EIG"], C["AMN"], C["MMN"], C["WannierData"]

    # ---------------- text round trips
    for it in range(ctx.n(10, 40) * scale):
        NK, NB, NW = rng.randint(1, 6), rng.randint(1, 7), rng.randint(1, 5)
        if it % 7 == 3:
            NK, NB = 1, 1            # the one-line .eig file
            ctx.count("oracle.eig.one_row")
        seed = os.path.join(work, f"t{it}")
        E = rvals(nprng, (NK, NB), cplx=False) * rng.choice([1, 30, 3000])
        case = dict(cls="EIG", NK=NK, NB=NB, data=E)
        ctx.case(signature=("eig", NK, NB, it), nontrivial=NK > 1 or NB > 1)
        ctx.count(f"oracle.eig.NK={NK}")
        with ctx.attempt("EIG text round trip", case):
            eig = EIG(data=[E[k].copy() for k in range(NK)])
            with quiet():
                eig.to_w90_file(seed)
                e2 = EIG.from_w90_file(seed)
            want = rho12_arr(E)
            if (e2.NK, e2.NB) != (NK, NB) or sorted(e2.data) != list(range(NK)):
                ctx.fail(f"EIG text round trip: sizes (NK,NB)={(e2.NK, e2.NB)} keys {sorted(e2.data)}", case)
            elif any(not np.array_equal(e2.data[k], want[k]) for k in range(NK)):
                ctx.fail("EIG text round trip: data is not the printed value of the original", case)
            elif not eig.equals(e2, tolerance=1e-12)[0]:
                ctx.fail("EIG text round trip: equals() is False: " + eig.equals(e2, tolerance=1e-12)[1], case)
        A = rvals(nprng, (NK, NB, NW)) * rng.choice([1, 1, 100])
        case = dict(cls="AMN", NK=NK, NB=NB, NW=NW, data=A)
        ctx.case(signature=("amn", NK, NB, NW, it), nontrivial=NK > 1 or NB > 1 or NW > 1)
        ctx.count(f"oracle.amn.NB{'=' if NB == NW else '!='}NW")
        with ctx.attempt("AMN text round trip", case):
            amn = AMN(data=[A[k].copy() for k in range(NK)])
            with quiet():
                amn.to_w90_file(seed)
                a2 = AMN.from_w90_file(seed, npar=(None if it == 5 else rng.choice([1, 1, 2])))
            want = rho12_arr(A)
            if (a2.NK, a2.NB, a2.NW) != (NK, NB, NW) or sorted(a2.data) != list(range(NK)):
                ctx.fail(f"AMN text round trip: sizes {(a2.NK, a2.NB, a2.NW)}", case)
            elif any(not np.array_equal(a2.data[k], want[k]) for k in range(NK)):
                ctx.fail("AMN text round trip: data is not the printed value of the original", case)
            elif not amn.equals(a2, tolerance=1e-12)[0]:
                ctx.fail("AMN text round trip: equals() is False", case)
        for ext in (".eig", ".amn"):
            if os.path.exists(seed + ext):
                os.remove(seed + ext)

    # ---------------- MMN text writer (known finding F3) and WannierData.write
    for it in range(ctx.n(2, 6) * scale):
        bk, L, kpts, mp = make_bkvec(C, rng, nprng)
        NK, NNB, NB = bk.NK, bk.NNB, rng.randint(1, 3)
        M = rvals(nprng, (NK, NNB, NB, NB))
        seed = os.path.join(work, f"m{it}")
        case = dict(cls="MMN", NK=NK, NNB=NNB, NB=NB)
        ctx.case(signature=("mmn-text", NK, NNB, NB, it), nontrivial=True)
        with ctx.attempt("MMN text round trip", case, kf="F3-mmn-writer"):
            mmn = MMN(data=[M[k].copy() for k in range(NK)])
            with quiet():
                mmn.to_w90_file(seed)
                m2 = MMN.from_w90_file(seed, bkvec=bk, npar=1)
            if not mmn.equals(m2, tolerance=1e-12)[0]:
                ctx.fail("MMN text round trip: reader does not recover the data", case)
        with ctx.attempt("WannierData.write (eig, amn)", case):
            E = rvals(nprng, (NK, NB), cplx=False)
            A = rvals(nprng, (NK, NB, NB))
            with quiet(), warnings.catch_warnings():
                warnings.simplefilter("ignore")
                w = WD()
                w.set_file("eig", EIG(data=[E[k] for k in range(NK)]))
                w.set_file("amn", AMN(data=[A[k] for k in range(NK)]))
                w.write(seed + "w")
                e2, a2 = EIG.from_w90_file(seed + "w"), AMN.from_w90_file(seed + "w", npar=1)
            if not (all(np.array_equal(e2.data[k], rho12_arr(E[k])) for k in range(NK)) and
                    all(np.array_equal(a2.data[k], rho12_arr(A[k])) for k in range(NK))):
                ctx.fail("WannierData.write: .eig/.amn written by the container are not read back", case)
        with ctx.attempt("WannierData.write with an mmn file", case, kf="F3-mmn-writer"):
            with quiet(), warnings.catch_warnings():
                warnings.simplefilter("ignore")
                w = WD()
                w.set_file("mmn", MMN(data=[M[k].copy() for k in range(NK)]))
                w.write(seed + "wm")

    # ---------------- npz round trip of every file object
    for it in range(ctx.n(4, 12) * scale):
        with ctx.attempt("building file objects", dict(it=it)):
            objs, dims = gen_objects(C, rng, nprng)
        for key, obj in objs.items():
            case = dict(dims, cls=type(obj).__name__, keys=sorted(getattr(obj, "data", {}) or []))
            ctx.case(signature=("npz", key, tuple(dims.items()), it), nontrivial=True)
            ctx.count(f"oracle.npz.{type(obj).__name__}")
            path = os.path.join(work, f"o{it}.{obj.extension}.npz")
            with ctx.attempt(f"{type(obj).__name__} npz round trip", case):
                with quiet(), warnings.catch_warnings():
                    warnings.simplefilter("ignore")
                    obj.to_npz(path)
                    back = type(obj).from_npz(path)
                msg = deep_equal(obj.as_dict(), back.as_dict())
                if msg:
                    ctx.fail(f"{type(obj).__name__}.from_npz(to_npz) differs in {msg}", case)
                elif hasattr(obj, "data"):
                    ok, why = obj.equals(back)
                    if not ok:
                        ctx.fail(f"{type(obj).__name__}: reloaded object does not compare equal: {why}", case)
                    sparse_k = len(obj.data) < obj.NK
                    ctx.count("oracle.npz.sparse" if sparse_k else "oracle.npz.full")
            if os.path.exists(path):
                os.remove(path)

        # ---------------- SOC and WIN (no consistent sizes needed)
        NB, NKs = rng.randint(1, 4), rng.randint(1, 3)
        ns = rng.choice([1, 2])
        with ctx.attempt("SOC npz round trip", dict(NB=NB, NK=NKs, nspin=ns)):
            with quiet(), warnings.catch_warnings():
                warnings.simplefilter("ignore")
                soc = C["SOC"](data=[rvals(nprng, (ns, ns, 3, NB, NB)) for _ in range(NKs)],
                               overlap=[rvals(nprng, (NB, NB)) for _ in range(NKs)])
                path = os.path.join(work, "x.soc.npz")
                soc.to_npz(path)
                back = C["SOC"].from_npz(path)
            msg = deep_equal(soc.as_dict(), back.as_dict())
            ctx.case(signature=("soc", NB, NKs, ns, it), nontrivial=True)
            if msg or not soc.equals(back)[0]:
                ctx.fail(f"SOC npz round trip differs: {msg}", dict(NB=NB, NK=NKs, nspin=ns))
        with ctx.attempt("WIN npz round trip", dict(it=it)):
            mp = rng.choice([(2, 1, 1), (2, 2, 1), (1, 1, 3)])
            kp = [[i / mp[0], j / mp[1], k / mp[2]] for i in range(mp[0]) for j in range(mp[1]) for k in range(mp[2])]
            data = dict(kpoints=kp, unit_cell_cart=np.diag(nprng.uniform(1, 2, 3)), num_wann=rng.randint(1, 9),
                        num_bands=rng.randint(9, 20), projections=["Fe:d", "Te:s;p"][:rng.randint(1, 2)],
                        dis_win_max=float(nprng.uniform(0, 9)))
            with quiet(), warnings.catch_warnings():
                warnings.simplefilter("ignore")
                win = C["WIN"].from_w90_file(seedname=None, data=data)
                path = os.path.join(work, "x.win.npz")
                win.to_npz(path)
                back = C["WIN"].from_npz(path)
            ctx.case(signature=("win", it), nontrivial=True)
            for k, v in win.as_dict().items():
                if k not in back.data or not np.array_equal(np.asarray(v), np.asarray(back.data[k])):
                    ctx.fail(f"WIN npz round trip: parameter {k} = {v!r} comes back as {back.data.get(k)!r}", dict(parameter=k))

        # ---------------- WannierData container
        with ctx.attempt("WannierData npz round trip", dims):
            objs2, dims2 = gen_objects(C, rng, nprng, irreducible_ok=False)
            keys = ["bkvec"] + rng.sample(["eig", "amn", "mmn", "uhu", "uiu", "shu", "siu", "spn", "unk", "chk"], rng.randint(1, 7))
            extra = rng.random() < 0.35
            seedw = os.path.join(work, f"wd{it}", "w")
            with quiet(), warnings.catch_warnings():
                warnings.simplefilter("ignore")
                w = WD()
                w.seedname = seedw
                for k in keys:
                    w.set_file(k, objs2[k])
                if extra:
                    M2 = MMN(data=[rvals(nprng, (dims2["NNB"], dims2["NB"], dims2["NB"])) for _ in range(dims2["NK"])])
                    w.set_file(rng.choice(["mmn_ud", "mmn_du"]), M2)
                w.to_npz(seedw)
                w2 = WD.from_npz(seedw, files=list(w._files))
            wcase = dict(dims2, files=list(w._files))
            ctx.case(signature=("wd", tuple(sorted(w._files)), it), nontrivial=True)
            ctx.count("oracle.wd.with_mmn_ud" if extra else "oracle.wd.plain")
            bad = []
            if sorted(w2._files) != sorted(w._files):
                bad.append(f"files {sorted(w._files)} -> {sorted(w2._files)}")
            for k in w._files:
                if k in w2._files:
                    msg = deep_equal(w.get_file(k).as_dict(), w2.get_file(k).as_dict())
                    if msg:
                        bad.append(f"file {k}: {msg}")
            if bad:
                ctx.fail("WannierData.from_npz(to_npz): " + "; ".join(bad), wcase,
                         kf=("F15-wandata-mmn-ud-npz" if extra else None))
            shutil.rmtree(os.path.dirname(seedw), ignore_errors=True)


def containers_equal(w, w2, tol=1e-12):
    """the loaded container equals the container AS IT IS NOW: same keys, every file equal"""
    bad = []
    if sorted(w2._files) != sorted(w._files):
        bad.append(f"files {sorted(w._files)} -> {sorted(w2._files)}")
    for k in w._files:
        if k in w2._files:
            a, b = w.get_file(k), w2.get_file(k)
            msg = deep_equal(a.as_dict(), b.as_dict())
            if msg:
                bad.append(f"file {k}: {msg} (NB now {getattr(a, 'NB', '-')}, loaded {getattr(b, 'NB', '-')})")
            elif hasattr(a, "data") and hasattr(a, "equals") and not a.equals(b, tol)[0]:
                bad.append(f"file {k}: equals() is False")
    return bad


def history_oracle(ctx, scale):
    """sequences of to_npz / from_npz / select_bands / select_kpoints / in-place edits / set_file(overwrite) on ONE
    container and on single file objects, with the same and with other seednames and files already on disk: after
    every save the loaded container / object must equal the current one; same for the text writers"""
    C = imports()
    rng, nprng = ctx.rng, ctx.nprng()
    WD, EIG, AMN, MMN = C["WannierData"], C["EIG"], C["AMN"], C["MMN"]
    work = os.path.join(ctx.work, "hist")
    os.makedirs(work, exist_ok=True)
    for it in range(ctx.n(5, 20) * scale):
        d = os.path.join(work, f"h{it}")
        seeds = [os.path.join(d, "A", "w"), os.path.join(d, "B", "w")]
        log = []
        with ctx.attempt("WannierData history", dict(history=log)):
            objs, dims = gen_objects(C, rng, nprng, irreducible_ok=False)
            keys = ["eig", "bkvec"] + rng.sample(["amn", "mmn", "uhu", "spn", "unk", "chk", "siu"], rng.randint(1, 5))
            with quiet(), warnings.catch_warnings():
                warnings.simplefilter("ignore")
                w = WD()
                for k in keys:
                    w.set_file(k, objs[k])
                if rng.random() < 0.5:                       # files of an EARLIER, different container already on disk
                    other, _ = gen_objects(C, rng, nprng, irreducible_ok=False)
                    w0 = WD()
                    for k in keys:
                        if k in other and k not in ("bkvec",):
                            try:
                                w0.set_file(k, other[k])
                            except AssertionError:
                                pass
                    w0.to_npz(seeds[0])
                    log.append("files of another container already under seed A")
                nsave = 0
                # every history starts with  save(A), an in-place modification, save(A)  and continues at random
                forced = [0.0, rng.choice([0.5, 0.65, 0.8]), 0.0]
                for step in range(3 + rng.randint(1, 4)):
                    r = forced[step] if step < 3 else rng.random()
                    if step == 1 and r == 0.5 and not (w.eig.NB > 1 and not (w.has_file('chk') and w.chk.wannierised)):
                        r = 0.8
                    if step == 1 and r == 0.65 and len(w.eig.data) <= 1:
                        r = 0.8
                    if r < 0.4:
                        sd = seeds[0] if (step < 3 or rng.random() < 0.6) else seeds[1]
                        w.to_npz(sd)
                        w2 = WD.from_npz(sd, files=list(w._files))
                        log.append(f"to_npz({'A' if sd == seeds[0] else 'B'}) + from_npz")
                        nsave += 1
                        bad = containers_equal(w, w2)
                        if bad:
                            ctx.fail("WannierData.from_npz after a repeated to_npz does not return the container as it "
                                     "is now: " + "; ".join(bad), dict(history=list(log), dims=dims))
                            break
                    elif r < 0.6 and w.eig.NB > 1 and not (w.has_file('chk') and w.chk.wannierised):   # documented precondition
                        NBc = w.eig.NB
                        sel = sorted(rng.sample(range(NBc), rng.randint(1, NBc - 1)))
                        w.select_bands(selected_bands=sel, allow_again=True)
                        log.append(f"select_bands({sel})")
                    elif r < 0.72:
                        nk = w.eig.NK
                        have = sorted(w.eig.data)
                        if len(have) > 1:
                            keep = sorted(rng.sample(have, rng.randint(1, len(have) - 1)))
                            for k in w._files:
                                f = w.get_file(k)
                                if hasattr(f, "data") and k not in ("bkvec",):
                                    f.select_kpoints(keep)
                            log.append(f"select_kpoints({keep}) on the data files")
                    elif r < 0.88:
                        k = rng.choice([k for k in w._files if hasattr(w.get_file(k), "data") and k != "bkvec"])
                        f = w.get_file(k)
                        ik = rng.choice(sorted(f.data))
                        if rng.random() < 0.5:
                            f.data[ik] *= 1.5                  # in-place edit of the array
                        else:
                            f.data[ik] = f.data[ik] + 0.25     # the dictionary entry is replaced
                        log.append(f"in-place edit of {k}.data[{ik}]")
                    else:
                        if w.eig.NB == dims["NB"] and len(w.eig.data) == dims["NK"]:
                            E = EIG(data=[rvals(nprng, (dims["NB"],), False) for _ in range(dims["NK"])])
                            w.set_file("eig", E, overwrite=True, allow_selected_bands=True)
                            log.append("set_file('eig', new object, overwrite=True)")
            ctx.case(signature=("hist", tuple(log), it), nontrivial=nsave >= 2)
            ctx.count(f"oracle.history.saves={min(nsave, 3)}{'+' if nsave >= 3 else ''}")

        # ---- a single file object: save, modify in place, save to the same path, load
        with ctx.attempt("file object history", dict(it=it)):
            NK, NB, NW = rng.randint(2, 4), rng.randint(2, 6), rng.randint(1, 3)
            kind = rng.choice(["eig", "amn", "mmn"])
            if kind == "eig":
                obj = EIG(data=[rvals(nprng, (NB,), False) for _ in range(NK)])
            elif kind == "amn":
                obj = AMN(data=[rvals(nprng, (NB, NW)) for _ in range(NK)])
            else:
                obj = MMN(data=[rvals(nprng, (2, NB, NB)) for _ in range(NK)])
            path = os.path.join(d, f"single.{kind}.npz")
            os.makedirs(d, exist_ok=True)
            hist = []
            for step in range(rng.randint(2, 4)):
                with quiet():
                    obj.to_npz(path)
                    back = type(obj).from_npz(path)
                hist.append("to_npz + from_npz")
                msg = deep_equal(obj.as_dict(), back.as_dict())
                if msg or not obj.equals(back, 1e-12)[0]:
                    ctx.fail(f"{type(obj).__name__}: after {hist} the reloaded object differs from the current one ({msg})",
                             dict(kind=kind, history=hist))
                    break
                if obj.NB > 1 and rng.random() < 0.6:
                    sel = sorted(rng.sample(range(obj.NB), rng.randint(1, obj.NB - 1)))
                    obj.select_bands(sel)
                    hist.append(f"select_bands({sel})")
                else:
                    ik = rng.choice(sorted(obj.data))
                    obj.data[ik] = obj.data[ik] * 2 + 1
                    hist.append(f"edit data[{ik}]")
            ctx.case(signature=("filehist", kind, tuple(hist), it), nontrivial=True)
            ctx.count("oracle.history.file_object")

        # ---- text writers: write, modify, write to the same seedname, read
        with ctx.attempt("text writer history", dict(it=it)):
            NK, NB, NW = rng.randint(1, 4), rng.randint(2, 6), rng.randint(1, 3)
            eig = EIG(data=[rvals(nprng, (NB,), False) for _ in range(NK)])
            amn = AMN(data=[rvals(nprng, (NB, NW)) for _ in range(NK)])
            seedt = os.path.join(d, "txt")
            hist = []
            for step in range(rng.randint(2, 3)):
                with quiet():
                    eig.to_w90_file(seedt)
                    amn.to_w90_file(seedt)
                    e2, a2 = EIG.from_w90_file(seedt), AMN.from_w90_file(seedt, npar=1)
                hist.append("write + read")
                ok = (e2.NK, e2.NB) == (eig.NK, eig.NB) and (a2.NK, a2.NB, a2.NW) == (amn.NK, amn.NB, amn.NW) and \
                    all(np.array_equal(e2.data[k], rho12_arr(eig.data[k])) for k in range(NK)) and \
                    all(np.array_equal(a2.data[k], rho12_arr(amn.data[k])) for k in range(NK))
                if not ok:
                    ctx.fail(f"text writers: after {hist} the files read back are not the current objects "
                             f"(eig NB {eig.NB} -> {e2.NB}, amn NB {amn.NB} -> {a2.NB})", dict(history=hist))
                    break
                if eig.NB > 1 and rng.random() < 0.6:
                    sel = sorted(rng.sample(range(eig.NB), rng.randint(1, eig.NB - 1)))
                    eig.select_bands(sel)
                    amn.select_bands(sel)
                    hist.append(f"select_bands({sel})")
                else:
                    eig.data[0] = eig.data[0] + 1.0
                    amn.data[NK - 1] = amn.data[NK - 1] * 0.5
                    hist.append("edit data")
            ctx.case(signature=("texthist", tuple(hist), it), nontrivial=True)
            ctx.count("oracle.history.text")
        shutil.rmtree(d, ignore_errors=True)


def replay(ctx, case):
    oracle(ctx, 1)
