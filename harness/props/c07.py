"""C07 - irreducible K-points + symmetrisation reproduce the unsymmetrised full-grid run."""
import itertools
import math
import os
from fractions import Fraction as Fr

import numpy as np

from ..common import rats, ints, quiet, InfraError
from . import c09
from .c09 import (Family, ref_closure, flat, fmat, fmul, ftrans, finv, wire_elems, wire_transform, wire_tensor,
                  parse_tensor, rand_transform_pair, code_transform, ref_transform_tensor, rand_tensor, ratss_m)

PID = "C07"
KF_SHEAR = "C07-aniso-fft-sheared-op"
KF_DEGEN = "C07-shift-injection-degenerate-bands"
GAUGE_DEPENDENT_AT_DEGENERACY = ("ShiftCurrent", "InjectionCurrent")
CLAIM = dict(
    design="3/C07",
    technique="Lean 4 proof of the orbit / weight / stacking bookkeeping for any finite group and any equivariant "
              "per-k value (on top of the C09 model of the tensor action) + exact differential correspondence of "
              "TABresult.transform / to_grid and of run()'s weighted symmetrised sum against synthetic calculators + "
              "property oracle on genuinely symmetric real-space models with the real calculators",
    text="Theorems: orbit sum (orbit-stabiliser) Sum_g F(g r) = c Sum_{k in orbit(r)} F k with c|orbit| = |G|; for every "
         "equivariant f the irreducible points weighted by |orbit|/N, each value averaged over the group, sum to the plain "
         "grid average (abstractly, and for the model of run(): irrSum = fullSum with symmetrize_tensor / transform_tensor "
         "of C09, every rank, every Transform pair); the symmetrised stacked table carries f at every entry and "
         "reaches every grid point; TABresult.to_grid gives the grid point of cell c the index c, every index is in range, "
         "whatever gets index c is that grid point modulo the reciprocal lattice, and cells filled with equal values "
         "average to that value; the index map of an anisotropic division grid is n'_j = sum_i n_i M_ij div_j/div_i "
         "(integral iff symmetric_grid) and dropping the ratio merges inequivalent points (oblique example).  With the "
         "C06 model: the K-list of get_K_list with its own factors (retained points pairwise different, |star|/N, orbit "
         "cover) satisfies the partition hypothesis, so its weighted symmetrised sum is the grid average "
         "(irred_equals_full_with_C06_weights; interface hypothesis: C06's star of a grid index = orbit under the action, "
         "compared on every group/grid used).  Rotation covariance: every well-formed Cartesian tensor expression (tensor "
         "product, sum, integer multiple, delta- and epsilon-contraction, index transposition, k-derivative) over "
         "equivariant atoms is equivariant with the structurally computed grade (rank, axial, TR-odd), in the convention "
         "of transform_tensor: transformInv = (-1)^(rank+axial), transformTR = (-1)^trOdd, with the curried rotation "
         "proved equal to the model's rotate; 42 structure terms (static calculators and tabulators) are kernel-checked "
         "against the rank and declared transforms of the live calculators on every run.  STILL PARTIAL: equivariance "
         "of the atoms (E, Omega, morb, spin, metric at g.k vs k for a symmetric system) and the chain rule for the "
         "k-derivative are hypotheses; structure terms are hand transcriptions (index order not transcribed); "
         "OpticalConductivity / ShiftCurrent / InjectionCurrent / SHC / SDCT (transposing TR transforms, sums over "
         "intermediate states) have no structure term. The oracle tests the whole hypothesis on the real calculators by comparing run(use_irred_kpt=True, symmetrize=True) with run(use_irred_kpt=False, "
         "symmetrize=False) - the reference is NOT symmetrised.",
    note="Trusted: Lean kernel + Mathlib; the harness incl. its own group-averaging construction of symmetric models "
         "(validated on every model with System.check_symmetry and an independent eigenvalue test); irreducible weights "
         "|orbit|/N and the orbit partition are hypotheses here (C06). Known findings: C07-aniso-fft-sheared-op (grids with "
         "anisotropic NKFFT and an operation whose reduced matrix does not commute with diag(NKFFT) are accepted but the "
         "irreducible run is wrong) and C07-shift-injection-degenerate-bands (ShiftCurrent / InjectionCurrent are not "
         "covariant at k-points with exactly degenerate bands); spin-dependent calculators (Spin, SHC, GME_spin, ...) are "
         "not exercised: the s-orbital models carry no SS matrix.",
)
TRUSTED = [
    "modelled: TABresult.__init__ (k % 1), transform, stacking by __add__, to_grid (on-grid test, index, k_map), "
    "K__Result.to_grid (cell average), PointGroup.symmetrize of a tabulated / integrated result, run()'s sum "
    "Sum_K factor_K * symmetrize(result_K)",
    "hypotheses of the theorems, checked not proved: the K-list weights are |orbit|/N and the orbits partition the grid "
    "(C06); every calculator's per-k value is equivariant under the declared group (oracle)",
    "structure terms of WB/Lemmas/C07Terms.lean are a hand transcription of the formula classes (atoms E, delta, Omega, "
    "morb, spin, metric; products / sums / epsilon contractions as in formula/covariant.py and calculators/static.py); a "
    "transcription error or a changed declaration shows up as a failed kernel check of the regenerated table",
    "the point group is declared to the code by PointSymmetry objects or by generator strings built from the documented "
    "meaning of the names of dict_sym (own matrix tables; products of one to three, preferably non-commuting, named "
    "operations); the code's group must equal the group the model was averaged over (from_string_prod itself is "
    "modelled and proved in C09)",
    "not modelled (oracle only): Data_K / calculators / formulas, TABresult.find_grid, adaptive refinement "
    "(KpointBZparallel.divide, exclude_equiv_points), parallel execution",
    "the symmetric test models are built by the harness (explicit group average of a random Hermitian real-space "
    "model of s-like orbitals on symmetric site orbits, Ham and AA); a wrong construction shows up as a failed "
    "System.check_symmetry / eigenvalue test and is reported as an infrastructure error, never as a violation",
    "tolerance of the oracle: 1e-9 relative to the larger of max|full result| and max|same quantity in the "
    "unsymmetrised companion model|; models are drawn until all bands on the grid are exactly degenerate (symmetry) or "
    ">= 0.05 apart, so rounding is amplified by at most eps*(bandwidth/0.05)^4 ~ 3e-10 (observed <= 1e-12); "
    "symmetry-forbidden components are exactly 0 on the symmetrised side and rounding noise on the other",
]
RULE = ("symmetric models: cubic / tetragonal / orthorhombic / monoclinic / hexagonal / rhombohedral lattices in conventional "
        "and oblique (non-reduced) cells, random generator subsets with and without time "
        "reversal and black-white (magnetic) combinations, the group declared to the code by PointSymmetry objects or by "
        "generator strings (single names and products of non-commuting named operations such as 'C4z*Mx'), 1-6 s-like orbitals on site orbits; grids NKdiv x NKFFT accepted "
        "by the code, isotropic and anisotropic; static (ranks 0-3), dynamic (ranks 0-3) and tabulating calculators; "
        "synthetic calculators returning arbitrary / orbit-built equivariant tensors of rank 0-3 for every Transform pair. "
        "non-trivial = group order >= 2 and more than one irreducible K-point; distinct = distinct (model, grid, calculator)")


# ------------------------------------------------------------------------------------------------
# groups and exact k-point action

def group_of(rng, famname, max_order, oblique=False):
    fam = Family(rng, famname, oblique=oblique)
    names, trs, gens, cl = c09.random_generators(rng, fam, max_order)
    # remove repeated generators (not the subject here)
    seen, n2, t2, g2 = set(), [], [], []
    for nm, tr, g in zip(names, trs, gens):
        if g not in seen:
            seen.add(g); n2.append(nm); t2.append(tr); g2.append(g)
    return fam, n2, t2, g2, ref_closure(g2)


def cart_elements(fam, names, trs):
    """closure in Cartesian floats: list of (R_full, tr), identity first"""
    gens = [(fam.cart(nm), bool(tr)) for nm, tr in zip(names, trs)]
    elems = [(np.eye(3), False)]
    seen = {(tuple(np.round(elems[0][0], 6).reshape(-1) + 0.0), False)}
    frontier = list(elems)
    while frontier:
        new = []
        for x in frontier:
            for g in gens:
                y = (g[0] @ x[0], g[1] != x[1])
                key = (tuple(np.round(y[0], 6).reshape(-1) + 0.0), y[1])
                if key not in seen:
                    seen.add(key); elems.append(y); new.append(y)
        frontier = new
    return elems


def kmat_exact(fam, Rfull, tr):
    """exact integer matrix N with  k'_red = k_red @ N  (reduced coordinates of the reciprocal lattice), sign included"""
    Q = fam.to_model(np.array(Rfull, dtype=float))          # full matrix in model coordinates (integers)
    B = fam.basis_recip
    N = fmul(fmul(B, ftrans(fmat(Q))), finv(B))
    s = -1 if tr else 1
    out = [[s * x for x in r] for r in N]
    assert all(x.denominator == 1 for r in out for x in r)
    return [[int(x) for x in r] for r in out]


def sheared_aniso(Ns, nkfft):
    """the known-finding input class: some operation's reduced matrix does not commute with diag(NKFFT)"""
    for N in Ns:
        for i in range(3):
            for j in range(3):
                if N[i][j] != 0 and nkfft[i] != nkfft[j]:
                    return True
    return False


def grid_accepted(pg, div, fft):
    tot = [a * b for a, b in zip(div, fft)]
    return pg.symmetric_grid(div) and pg.symmetric_grid(fft) and pg.symmetric_grid(tot)


def grid_ok_exact(Ns, nk):
    """own exact version of symmetric_grid: D^-1 N D integral for every operation"""
    return all((N[i][j] * nk[j]) % nk[i] == 0 for N in Ns for i in range(3) for j in range(3))


def coupled_aniso(Ns, nk):
    """some operation couples two reduced axes that carry different numbers of divisions"""
    return any(N[i][j] != 0 and nk[i] != nk[j] for N in Ns for i in range(3) for j in range(3))


def pick_grid(rng, pg, Ns, max_pts, min_div=1, sheared_fft_prob=0.0):
    """a (NKdiv, NKFFT) pair accepted by the code; anisotropic NKdiv on coupled axes preferred when the group and the
    cell allow it.  NKFFT is kept isotropic on coupled axes (otherwise: known finding) except with sheared_fft_prob."""
    rngs = range(1, 7)
    divs = [d for d in itertools.product(rngs, repeat=3)
            if min_div <= d[0] * d[1] * d[2] <= max_pts and d[0] * d[1] * d[2] >= 2 and grid_ok_exact(Ns, d)]
    coupled = [d for d in divs if coupled_aniso(Ns, d)]
    for _ in range(200):
        pool = coupled if (coupled and rng.random() < 0.6) else divs
        if not pool:
            break
        div = rng.choice(pool)
        ffts = [f for f in itertools.product([1, 2, 3], repeat=3)
                if div[0] * div[1] * div[2] * f[0] * f[1] * f[2] <= max_pts and grid_ok_exact(Ns, f)
                and grid_ok_exact(Ns, tuple(a * b for a, b in zip(div, f)))]
        plain = [f for f in ffts if not sheared_aniso(Ns, f)]
        cand = ffts if (rng.random() < sheared_fft_prob and ffts) else plain
        if not cand:
            continue
        fft = rng.choice(cand)
        if not grid_accepted(pg, div, fft):
            raise InfraError(f"harness: the exact grid test accepts NKdiv={div} NKFFT={fft} but symmetric_grid does not")
        return div, fft
    return (2, 2, 2), (1, 1, 1)


def check_cover(ctx, K_list, Ns, div, case, kf=None):
    """C06-style statement on this grid: the retained K-points are pairwise inequivalent, their factors are
    |orbit| / N and their orbits cover the division grid - orbits computed by brute force with the exact index map
    n'_j = sum_i n_i N_ij div_j / div_i."""
    ntot = div[0] * div[1] * div[2]

    def images(n):
        out = set()
        for N in Ns:
            q = [sum(Fr(n[i] * N[i][j] * div[j], div[i]) for i in range(3)) for j in range(3)]
            if any(x.denominator != 1 for x in q):
                raise InfraError("harness: division grid not invariant")
            out.add(tuple(int(q[j]) % div[j] for j in range(3)))
        return out
    covered = {}
    for K in K_list:
        n = tuple(int(round(float(K.K[i]) * div[i])) % div[i] for i in range(3))
        orb = images(n)
        if abs(K.factor - len(orb) / ntot) > 1e-12:
            ctx.fail(f"get_K_list: K-point {n} of the {div} grid has factor {K.factor:.6f}, its orbit has {len(orb)} of "
                     f"{ntot} points (expected factor {len(orb) / ntot:.6f})", dict(case, K_index=n), kf=kf)
            return False
        for q in orb:
            if q in covered:
                ctx.fail(f"get_K_list: the retained K-points {covered[q]} and {n} are symmetry-equivalent", case, kf=kf)
                return False
            covered[q] = n
    if len(covered) != ntot:
        ctx.fail(f"get_K_list: the orbits of the retained K-points cover {len(covered)} of {ntot} grid points", case, kf=kf)
        return False
    return True



# ------------------------------------------------------------------------------------------------
# declaring the point group by generator STRINGS ('C4z', 'C4z*Mx', 'TimeReversal*C2x', ...)

def documented_named_matrices():
    """the matrices the module docstring of point_symmetry promises for the names of dict_sym (own tables)"""
    return {"Inversion": np.array(c09.CART["I"], float), "Mx": np.array(c09.CART["IC2x"], float),
            "My": np.array(c09.CART["IC2y"], float), "Mz": np.array(c09.CART["IC2z"], float),
            "C2x": np.array(c09.CART["C2x"], float), "C2y": np.array(c09.CART["C2y"], float),
            "C2z": np.array(c09.CART["C2z"], float), "C4x": np.array(c09.CART["C4x"], float),
            "C4y": np.array(c09.CART["C4y"], float), "C4z": np.array(c09.CART["C4z"], float),
            "C3z": np.array(c09.HEXOPS["C3z"], float), "C6z": np.array(c09.HEXOPS["C6z"], float)}


_PRODUCT_TABLE = None


def product_table():
    """all products of one, two or three documented named operations: matrix -> list of factor lists"""
    global _PRODUCT_TABLE
    if _PRODUCT_TABLE is None:
        NM = documented_named_matrices()
        names = list(NM)
        tab = {}
        for n in (1, 2, 3):
            for fs in itertools.product(names, repeat=n):
                M = np.eye(3)
                for f in fs:
                    M = M @ NM[f]
                key = tuple(np.round(M, 6).reshape(-1) + 0.0)
                tab.setdefault(key, []).append(list(fs))
        _PRODUCT_TABLE = (tab, NM)
    return _PRODUCT_TABLE


def operation_as_string(rng, R_full, tr):
    """a generator string whose documented meaning (product of the named operations, left to right as matrices) is the
    operation (R_full, tr); products of non-commuting factors preferred.  None if the operation is not expressible."""
    tab, NM = product_table()
    key = tuple(np.round(np.array(R_full, float), 6).reshape(-1) + 0.0)
    if np.abs(np.array(R_full, float) - np.eye(3)).max() < 1e-9:
        return "TimeReversal" if tr else "Identity"
    cands = tab.get(key)
    if not cands:
        return None

    def noncommuting(fs):
        return any(np.abs(NM[a] @ NM[b] - NM[b] @ NM[a]).max() > 1e-9 for a in fs for b in fs)
    multi = [fs for fs in cands if len(fs) >= 2 and noncommuting(fs)]
    fs = list(rng.choice(multi if (multi and rng.random() < 0.7) else cands))
    if tr:
        fs.insert(rng.randrange(len(fs) + 1), "TimeReversal")
    return "*".join(fs)


def generator_strings(rng, fam, names, trs):
    out = []
    for nm, tr in zip(names, trs):
        st = operation_as_string(rng, fam.cart(nm), bool(tr))
        if st is None:
            return None
        out.append(st)
    return out


def declared_group_matches(ctx, s, G, case):
    """the code's point group (from the generator strings) must be the group the model was built for"""
    want = {(tuple(np.round(R, 6).reshape(-1) + 0.0), bool(tr)) for R, tr in G}
    got = {(tuple(np.round(np.array(S.R, float) * S.iInv, 6).reshape(-1) + 0.0), bool(S.TR)) for S in s.pointgroup.symmetries}
    if want != got:
        ctx.fail(f"set_pointgroup({case.get('generator_strings')}) gives a point group of {len(got)} operations that is not "
                 f"the group generated by the documented products ({len(want)} operations; "
                 f"{len(want - got)} missing, {len(got - want)} foreign)", case)
        return False
    return True

# ------------------------------------------------------------------------------------------------
# genuinely symmetric real-space models (explicit group average)

SEEDS = {
    "cubic": [(0, 0, 0), (Fr(1, 2), 0, 0), (Fr(1, 2), Fr(1, 2), Fr(1, 2)), (Fr(1, 2), Fr(1, 2), 0), (Fr(1, 4), Fr(1, 4), Fr(1, 4))],
    "tetra": [(0, 0, 0), (Fr(1, 2), 0, 0), (Fr(1, 2), Fr(1, 2), 0), (0, 0, Fr(1, 2)), (Fr(1, 2), 0, Fr(1, 4)), (Fr(1, 4), Fr(1, 4), 0)],
    "ortho": [(0, 0, 0), (Fr(1, 2), 0, 0), (0, Fr(1, 2), Fr(1, 2)), (Fr(1, 4), 0, 0)],
    "hex": [(0, 0, 0), (Fr(1, 3), Fr(2, 3), 0), (Fr(1, 2), 0, 0), (0, 0, Fr(1, 2)), (Fr(1, 3), Fr(2, 3), Fr(1, 4))],
    "mono": [(0, 0, 0), (Fr(1, 2), 0, 0), (0, Fr(1, 2), Fr(1, 2)), (Fr(1, 4), Fr(1, 3), 0), (Fr(1, 5), Fr(2, 5), Fr(1, 4))],
    "rhombo": [(0, 0, 0), (Fr(1, 2), Fr(1, 2), Fr(1, 2)), (Fr(1, 4), Fr(1, 4), Fr(1, 4)), (Fr(1, 2), 0, 0)],
}
# (family, oblique description of the cell) visited in turn by the oracles
FAMILY_CYCLE = [("tetra", False), ("ortho", True), ("hex", False), ("mono", True), ("cubic", False), ("rhombo", True),
                ("tetra", True), ("ortho", False), ("hex", True), ("mono", False)]


def build_symmetric_system(rs, fam, names, trs, seeds, nbonds=7, maxR=1, scale_AA=0.3, gen_strings=None):
    """returns (symmetric System_R, unsymmetrised companion System_R on the same sites, elements, sites)"""
    from wannierberri.system.system_R import System_R
    from wannierberri.fourier.rvectors import Rvectors
    from wannierberri.symmetry.point_symmetry import PointSymmetry
    A = fam.A
    Ainv = np.linalg.inv(A)
    G = cart_elements(fam, names, trs)
    sites = []
    for s in seeds:
        for (R, tr) in G:
            t = np.array([float(x) for x in s]) @ (A @ R.T @ Ainv)
            t = t - np.floor(t + 1e-9)
            if not any(np.abs(((t - u + 0.5) % 1) - 0.5).max() < 1e-7 for u in sites):
                sites.append(t)
    sites = np.array(sites)
    nw = len(sites)
    perms = []
    for (R, tr) in G:
        N = A @ R.T @ Ainv
        if np.abs(N - np.round(N)).max() > 1e-7:
            raise InfraError("harness: lattice not invariant under a group element")
        pi = np.zeros(nw, dtype=int)
        T = np.zeros((nw, 3), dtype=int)
        for i in range(nw):
            t = sites[i] @ N
            for j in range(nw):
                d = t - sites[j]
                if np.abs(d - np.round(d)).max() < 1e-7:
                    pi[i] = j
                    T[i] = np.round(d).astype(int)
                    break
            else:
                raise InfraError("harness: site orbit not closed")
        perms.append((np.round(N).astype(int), pi, T))
    H0, A0 = {}, {}
    Rs = list(itertools.product(range(-maxR, maxR + 1), repeat=3))
    for _ in range(nbonds):
        R = Rs[rs.randint(len(Rs))]
        i, j = rs.randint(nw), rs.randint(nw)
        if R == (0, 0, 0) and i == j:
            continue
        H0[(R, i, j)] = H0.get((R, i, j), 0) + (rs.uniform(-1, 1) + 1j * rs.uniform(-1, 1))
        A0[(R, i, j)] = A0.get((R, i, j), 0) + (rs.uniform(-1, 1, 3) + 1j * rs.uniform(-1, 1, 3)) * scale_AA
    for i in range(nw):
        H0[((0, 0, 0), i, i)] = rs.uniform(-1, 1)

    def hermitize(D):
        out = {}
        for (R, i, j), v in D.items():
            mR = tuple(-np.array(R))
            out[(R, i, j)] = out.get((R, i, j), 0) + 0.5 * v
            out[(mR, j, i)] = out.get((mR, j, i), 0) + 0.5 * np.conj(v)
        return out
    H0, A0 = hermitize(H0), hermitize(A0)
    Hs, As = {}, {}
    ng = len(G)
    for (R_full, tr), (N, pi, T) in zip(G, perms):
        for (R, i, j), v in H0.items():
            k = (tuple(np.array(R) @ N + T[j] - T[i]), pi[i], pi[j])
            Hs[k] = Hs.get(k, 0) + (np.conj(v) if tr else v) / ng
        for (R, i, j), a in A0.items():
            k = (tuple(np.array(R) @ N + T[j] - T[i]), pi[i], pi[j])
            As[k] = As.get(k, 0) + (R_full @ (np.conj(a) if tr else a)) / ng

    def make(Hd, Ad, with_group):
        iRvec = sorted({k[0] for k in Hd} | {k[0] for k in Ad} | {(0, 0, 0)})
        idx = {R: n for n, R in enumerate(iRvec)}
        Ham = np.zeros((len(iRvec), nw, nw), dtype=complex)
        AA = np.zeros((len(iRvec), nw, nw, 3), dtype=complex)
        for (R, i, j), v in Hd.items():
            Ham[idx[R], i, j] = v
        for (R, i, j), a in Ad.items():
            AA[idx[R], i, j] = a
        with quiet():
            s = System_R(name="symrand")
            s.set_real_lattice(A)
            s.num_wann = nw
            s.set_wannier_centers(wannier_centers_red=sites)
            s.rvec = Rvectors(lattice=s.real_lattice, iRvec=np.array(iRvec), shifts_left_red=s.wannier_centers_red)
            s.set_R_mat('Ham', Ham)
            s.set_R_mat('AA', AA)
            s.do_at_end_of_init()
            if with_group:
                if gen_strings is not None:
                    s.set_pointgroup(symmetry_gen=list(gen_strings))
                else:
                    s.set_pointgroup(symmetry_gen=[PointSymmetry(fam.cart(nm), TR=bool(tr)) for nm, tr in zip(names, trs)])
        return s
    return make(Hs, As, True), make(H0, A0, False), G, sites


def count_sites(fam, names, trs, seeds):
    A = fam.A
    Ainv = np.linalg.inv(A)
    sites = []
    for s in seeds:
        for (R, tr) in cart_elements(fam, names, trs):
            t = np.array([float(x) for x in s]) @ (A @ R.T @ Ainv)
            t = t - np.floor(t + 1e-9)
            if not any(np.abs(((t - u + 0.5) % 1) - 0.5).max() < 1e-7 for u in sites):
                sites.append(t)
    return len(sites)


def validate_symmetric(ctx, s, G, case):
    """the construction is the harness's: a model that is not symmetric is an infrastructure error"""
    rs = np.random.RandomState(ctx.rng.getrandbits(31))
    k = rs.uniform(0, 1, 3)
    with quiet():
        diff, _ = s.check_symmetry(kpoint=k)
    worst = max(diff.values())
    if worst > 1e-9:
        raise InfraError(f"harness: the constructed model is not symmetric (check_symmetry {worst:.2e}) for {case}")
    if s.pointgroup.size != len(G):
        raise InfraError("harness: group order differs from the closure used for averaging")


# ------------------------------------------------------------------------------------------------
# real calculators

def real_calculators(rng, tier_full, Ef=None, om=None):
    from wannierberri import calculators as calc
    st, dy, tb = calc.static, calc.dynamic, calc.tabulate
    if Ef is None:
        Ef = np.linspace(-0.9, 0.8, 3)
    if om is None:
        om = np.array([0.3, 1.1])
    sm = dict(save_mode="")
    internal = {"external_terms": False}
    pool = {
        "DOS": lambda: st.DOS(Efermi=Ef, tetra=False, **sm),
        "CumDOS": lambda: st.CumDOS(Efermi=Ef, **sm),
        "Ohmic_FermiSea": lambda: st.Ohmic_FermiSea(Efermi=Ef, **sm),
        "Ohmic_FermiSurf": lambda: st.Ohmic_FermiSurf(Efermi=Ef, **sm),
        "AHC": lambda: st.AHC(Efermi=Ef, **sm),
        "AHC_internal": lambda: st.AHC(Efermi=Ef, kwargs_formula={"external_terms": False}, **sm),
        "BerryDipole_FermiSea": lambda: st.BerryDipole_FermiSea(Efermi=Ef, **sm),
        "BerryDipole_FermiSurf": lambda: st.BerryDipole_FermiSurf(Efermi=Ef, **sm),
        "Hall_classic_FermiSea": lambda: st.Hall_classic_FermiSea(Efermi=Ef, **sm),
        "Hall_classic_FermiSurf": lambda: st.Hall_classic_FermiSurf(Efermi=Ef, **sm),
        "NLDrude_FermiSea": lambda: st.NLDrude_FermiSea(Efermi=Ef, **sm),
        "NLDrude_FermiSurf": lambda: st.NLDrude_FermiSurf(Efermi=Ef, **sm),
        "NLAHC_FermiSea": lambda: st.NLAHC_FermiSea(Efermi=Ef, **sm),
        # the model has Ham and AA only: calculators that need BB/CC/FF/... run with their internal terms
        "QuantumMetric_FermiSea_int": lambda: st.QuantumMetric_FermiSea(Efermi=Ef, kwargs_formula=internal, **sm),
        "QuantumMetric_Vel_DQ_int": lambda: st.QuantumMetric_Vel_DQ(Efermi=Ef, kwargs_formula=internal, **sm),
        "Morb_int": lambda: st.Morb(Efermi=Ef, kwargs_formula=internal, **sm),
        "GME_orb_FermiSea_int": lambda: st.GME_orb_FermiSea(Efermi=Ef, kwargs_formula=internal, **sm),
        "GME_orb_FermiSurf_int": lambda: st.GME_orb_FermiSurf(Efermi=Ef, kwargs_formula=internal, **sm),
        "NLDrude_Zeeman_orb_int": lambda: st.NLDrude_Zeeman_orb(Efermi=Ef, kwargs_formula=internal, **sm),
        "AHC_Zeeman_orb_int": lambda: st.AHC_Zeeman_orb(Efermi=Ef, kwargs_formula=internal, **sm),
        "eMChA_FermiSurf_int": lambda: st.eMChA_FermiSurf(Efermi=Ef, kwargs_formula=internal, **sm),
        "NLDrude_Fermider2": lambda: st.NLDrude_Fermider2(Efermi=Ef, **sm),
        "OmegaOmega_int": lambda: st.OmegaOmega(Efermi=Ef, kwargs_formula=internal, **sm),
        "JDOS": lambda: dy.JDOS(Efermi=Ef, omega=om, **sm),
        "OpticalConductivity": lambda: dy.OpticalConductivity(Efermi=Ef, omega=om, **sm),
        "ShiftCurrent": lambda: dy.ShiftCurrent(Efermi=Ef, omega=om, sc_eta=0.1, **sm),
        "InjectionCurrent": lambda: dy.InjectionCurrent(Efermi=Ef, omega=om, **sm),
    }
    tabs = {
        "Energy": lambda: tb.Energy(),
        "Velocity": lambda: tb.Velocity(),
        "InvMass": lambda: tb.InvMass(),
        "BerryCurvature": lambda: tb.BerryCurvature(),
        "BerryCurvature_internal": lambda: tb.BerryCurvature(kwargs_formula={"external_terms": False}),
        "DerBerryCurvature": lambda: tb.DerBerryCurvature(),
        "Der3E": lambda: tb.Der3E(),
        "OrbitalMoment_int": lambda: tb.OrbitalMoment(kwargs_formula=internal),
        "DerOrbitalMoment_int": lambda: tb.DerOrbitalMoment(kwargs_formula=internal),
    }
    names = list(pool)
    tnames = list(tabs)
    if not tier_full:
        names = ["DOS", "Ohmic_FermiSea", "AHC", "BerryDipole_FermiSea", "OpticalConductivity"] + rng.sample(
            [n for n in names if n not in ("DOS", "Ohmic_FermiSea", "AHC", "BerryDipole_FermiSea", "OpticalConductivity")], 4)
        tnames = ["Energy", "Velocity", "BerryCurvature"] + rng.sample(["InvMass", "DerBerryCurvature", "Der3E",
                                                                        "BerryCurvature_internal", "OrbitalMoment_int",
                                                                        "DerOrbitalMoment_int"], 1)

    def make():
        c = {n: pool[n]() for n in names}
        c["tabulate"] = calc.TabulatorAll({n: tabs[n]() for n in tnames}, mode="grid", save_mode="")
        return c
    return make, names, tnames


def run_pair(system, div, fft, make, data_k_class=None, irr_only=False):
    import wannierberri as wb
    kw = dict(parallel=False, print_progress_step_time=1e9)
    if data_k_class is not None:
        kw["data_k_class"] = data_k_class
    with quiet():
        grid = wb.Grid(system, NKdiv=div, NKFFT=fft)
        r1 = wb.run(system, grid, make(), use_irred_kpt=True, symmetrize=True, **kw)
        r0 = None if irr_only else wb.run(system, grid, make(), use_irred_kpt=False, symmetrize=False, **kw)
        K_list = grid.get_K_list(use_symmetry=True)
    return r1, r0, K_list


MIN_GAP = 0.05


def grid_gaps(system, div, fft):
    """band gaps on the full grid (cheap Energy-only tabulation)"""
    import wannierberri as wb
    from wannierberri import calculators as calc
    with quiet():
        grid = wb.Grid(system, NKdiv=div, NKFFT=fft)
        r = wb.run(system, grid, {"tabulate": calc.TabulatorAll({"Energy": calc.tabulate.Energy()}, mode="grid",
                                                                   save_mode="")},
                   use_irred_kpt=False, symmetrize=False, parallel=False, print_progress_step_time=1e9)
    E = r.results["tabulate"].results["Energy"].data
    return gap_analysis(r) + (E,)


def energies_for_calculators(E):
    """Fermi levels inside the bands and frequencies at actual interband transition energies of the grid, so that no
    quantity vanishes identically for trivial reasons (empty / full bands, no transitions)"""
    Es = np.sort(E.reshape(-1))
    Ef = np.linspace(np.quantile(Es, 0.25), np.quantile(Es, 0.8), 3)          # uniform (Fermi-surface terms difference it)
    trans = np.array([abs(E[:, m] - E[:, n]) for n in range(E.shape[1]) for m in range(n + 1, E.shape[1])]).reshape(-1)
    trans = trans[trans > 0.05]
    om = np.quantile(trans, [0.3, 0.75]) if trans.size else np.array([0.3, 1.1])
    Ef = np.round(Ef, 3)
    # The T=0 binning of the static calculators, iEf = ceil((E - EFmin)/dEF), is discontinuous where a band energy
    # sits exactly on the lattice  Ef[0] + j*dEF :  symmetry-equivalent k-points, whose energies agree only to
    # rounding (1e-16), then fall into different bins (observed: thorough seed 8, hexagonal model with a dyadic
    # on-site energy equal to a Fermi level at the M points of a 2x2x1 grid).  That is the measure-zero case treated
    # by C13, not a failure of the symmetry reduction: move the Fermi levels off the band energies of the grid.
    dE = Ef[1] - Ef[0]
    LAST_SHIFTS[0] = 0
    for _ in range(40):
        if dE <= 0:
            break
        fr = ((Es - Ef[0]) / dE) % 1.0
        if min(fr.min(), 1.0 - fr.max()) > 1e-6:
            break
        Ef = Ef + 0.000731
        LAST_SHIFTS[0] += 1
    return Ef, np.round(om, 3)


LAST_SHIFTS = [0]


def gap_analysis(r0, degen_thresh=1e-4):
    """from the tabulated energies of the full run: (has exactly degenerate bands on the grid, smallest gap that the
    calculators treat as non-degenerate, number of gaps within a factor 3 of the degeneracy threshold)"""
    E = np.sort(r0.results["tabulate"].results["Energy"].data, axis=1)
    if E.shape[1] < 2:
        return False, np.inf, 0
    gaps = np.diff(E, axis=1)
    degenerate = bool((gaps < 1e-9).any())
    nondeg = gaps[gaps > degen_thresh]
    gmin = float(nondeg.min()) if nondeg.size else np.inf
    near = int(((gaps > 1e-9) & (gaps < 3 * degen_thresh)).sum())
    return degenerate, gmin, near


def klist_of(system, div, fft):
    import wannierberri as wb
    with quiet():
        return wb.Grid(system, NKdiv=div, NKFFT=fft).get_K_list(use_symmetry=True)


def compare_results(ctx, r1, r0, scales, case, kf=None, tolrel=1e-9, kf_by_quantity=None):
    """r1 = irreducible+symmetrised, r0 = full unsymmetrised.  scales: dict quantity -> companion scale"""
    worst = None
    for key in r0.results:
        a, b = r1.results[key], r0.results[key]
        if key == "tabulate" or hasattr(b, "kpoints"):
            if a.kpoints.shape != b.kpoints.shape or np.abs(a.kpoints - b.kpoints).max() > 1e-9:
                ctx.fail(f"tabulation: the k-points of the irreducible+symmetrised run differ from the full grid", case, kf=kf)
                continue
            for q in b.results:
                da, db = a.results[q].data, b.results[q].data
                sc = max(float(np.abs(db).max()), scales.get(("tab", q), 0.0), 1e-300)
                if da.shape != db.shape:
                    ctx.fail(f"tabulated {q}: shapes differ {da.shape} vs {db.shape}", case, kf=kf)
                    continue
                err = float(np.abs(da - db).max())
                if err > tolrel * sc:
                    ik = int(np.unravel_index(np.argmax(np.abs(da - db)), da.shape)[0])
                    ctx.fail(f"tabulated {q} (rank {a.results[q].rank}) differs per k between the irreducible+symmetrised run "
                             f"and the full run: max|diff| = {err:.3e} at k = {b.kpoints[ik].tolist()}, scale {sc:.3e}",
                             dict(case, quantity=q, irr=da[ik], full=db[ik]), kf=kf)
                worst = max(worst or 0, err / sc)
        else:
            sc = max(float(np.abs(b.data).max()), scales.get(key, 0.0), 1e-300)
            if a.data.shape != b.data.shape:
                ctx.fail(f"{key}: shapes differ", case, kf=kf)
                continue
            err = float(np.abs(a.data - b.data).max())
            kfq = (kf_by_quantity or {}).get(key, kf)
            if err > tolrel * sc:
                ctx.fail(f"{key} (rank {b.rank}): run(use_irred_kpt=True, symmetrize=True) differs from "
                         f"run(use_irred_kpt=False, symmetrize=False): max|diff| = {err:.3e}, scale {sc:.3e} "
                         f"(relative {err / sc:.2e})",
                         dict(case, quantity=key, irr=a.data.reshape(-1)[:27], full=b.data.reshape(-1)[:27]), kf=kfq)
            worst = max(worst or 0, err / sc)
    return worst


def companion_scales(system0, div, fft, make):
    """order of magnitude of every quantity in the unsymmetrised companion model: on the same k-points (evaluated as
    ONE K-point whose FFT grid is the whole grid: cheap) and on the next finer grid (whole grid + 1 per direction).
    The second grid matters when every point of the first is a time-reversal invariant momentum (2x2x1: Gamma and M):
    there all k-odd factors - band velocities, hence every Fermi-surface quantity - vanish identically, the companion
    scale is 0 and the comparison would degenerate into rounding noise (1e-24) against rounding noise (observed:
    thorough seed 8, a false alarm).  The scale only fixes the ABSOLUTE tolerance 1e-9 x natural magnitude."""
    import wannierberri as wb
    whole = tuple(int(a * b) for a, b in zip(div, fft))
    sc = {}
    for nk in (whole, tuple(n + 1 for n in whole)):
        with quiet():
            grid = wb.Grid(system0, NKdiv=(1, 1, 1), NKFFT=nk)
            r = wb.run(system0, grid, make(), use_irred_kpt=False, symmetrize=False, parallel=False,
                       print_progress_step_time=1e9)
        for key, v in r.results.items():
            if hasattr(v, "kpoints"):
                if nk != whole:
                    continue                     # per-k tabulated values: the scale of the same k-points only
                for q in v.results:
                    sc[("tab", q)] = float(np.abs(v.results[q].data).max())
            else:
                sc[key] = max(sc.get(key, 0.0), float(np.abs(v.data).max()))
    return sc


def oracle_physical(ctx, scale):
    rng = ctx.rng
    nsys = ctx.n(6, 36) * scale
    for it in range(nsys):
        famname, oblique = FAMILY_CYCLE[it % len(FAMILY_CYCLE)]
        max_order = ctx.n(16, 48)
        want = ["magnetic", "gray(TR)", "noTR"][(it // 3 + it) % 3]
        fam, names, trs, gens, cl = group_of(rng, famname, max_order, oblique)
        if cl is None or len(cl) < 2:
            names, trs = ["C2z"], [False]
        names = [n for n in names if n != "E"]
        if not names:
            names = ["C2z"]
        if want == "noTR":
            trs = [False] * len(names)
        elif want == "gray(TR)":
            trs = [False] * len(names)
            names, trs = names + ["E"], trs + [True]
        else:
            trs = [False] * len(names)
            trs[rng.randrange(len(names))] = True
        rs = np.random.RandomState(rng.getrandbits(31))
        # site orbits: 2-6 Wannier functions (interband quantities need several bands)
        for attempt in range(20):
            seeds = [fam.conv_to_cell(rng.choice(SEEDS[famname]))]
            if rng.random() < 0.5:
                seeds.append(fam.conv_to_cell(rng.choice(SEEDS[famname])))
            nw = count_sites(fam, names, trs, seeds)
            if 2 <= nw <= ctx.n(5, 6):
                break
        else:
            seeds = [fam.conv_to_cell(x) for x in ([(0, 0, 0), (Fr(1, 2), Fr(1, 2), Fr(1, 2))] if famname != "hex"
                                                   else [(Fr(1, 3), Fr(2, 3), 0)])]
        case = dict(family=famname, lattice=fam.name, real_lattice=fam.A, generators=names, TR=[bool(t) for t in trs],
                    site_seeds=[[str(x) for x in s] for s in seeds])
        # draw hoppings until the bands on the grid are either exactly degenerate (symmetry) or at least MIN_GAP apart:
        # then rounding is amplified by at most eps * (bandwidth / MIN_GAP)^4 ~ 3e-10 and a flat 1e-9 tolerance is sharp
        # the group is declared to the code either by PointSymmetry objects or - as users do - by generator strings
        gstr = generator_strings(rng, fam, names, trs) if rng.random() < 0.6 else None
        case["generator_strings"] = gstr
        ctx.count("oracle.physical.group_declared_by=" + ("strings" if gstr else "objects"))
        if gstr and any("*" in g for g in gstr):
            ctx.count("oracle.physical.product_strings")
        accepted = False
        group_ok = True
        for attempt in range(8):
            sys_sym, sys0, G, sites = build_symmetric_system(rs, fam, names, trs, seeds, gen_strings=gstr)
            if attempt == 0:
                group_ok = declared_group_matches(ctx, sys_sym, G, case)
                if not group_ok:
                    break
                validate_symmetric(ctx, sys_sym, G, case)
                Ns = [kmat_exact(fam, R, tr) for R, tr in G]
                # (the known-finding grid class - sheared anisotropic NKFFT - is witnessed elsewhere)
                div, fft = pick_grid(rng, sys_sym.pointgroup, Ns, ctx.n(160, 400), min_div=4)
            degenerate, gmin, near, Egrid = grid_gaps(sys_sym, div, fft)
            if near == 0 and gmin >= MIN_GAP:
                accepted = True
                break
        if not group_ok:
            continue
        ctx.count("oracle.physical.hopping_redraws", attempt)
        if not accepted:
            ctx.count("oracle.physical.no_well_separated_model_found")
            continue
        validate_symmetric(ctx, sys_sym, G, case)
        has_tr = any(tr for _, tr in G)
        pure_tr = any(tr and np.abs(R - np.eye(3)).max() < 1e-9 for R, tr in G)
        kind = "gray(TR)" if pure_tr else ("magnetic" if has_tr else "noTR")
        Ef, om = energies_for_calculators(Egrid)
        if LAST_SHIFTS[0]:
            ctx.count("oracle.physical.Fermi_levels_moved_off_a_band_energy_of_the_grid")
        state = rng.getstate()
        make, names_c, tnames = real_calculators(rng, ctx.tier == "thorough" and it % 3 == 0, Ef, om)
        # the companion only supplies the natural order of magnitude of every quantity: wide energy grids, so that
        # Fermi-surface and resonant terms are sampled somewhere
        rng.setstate(state)
        make_wide, _, _ = real_calculators(rng, ctx.tier == "thorough" and it % 3 == 0,
                                           np.linspace(Egrid.min(), Egrid.max(), 15),
                                           np.linspace(0.05, max(0.3, Egrid.max() - Egrid.min()), 8))
        case.update(Efermi=Ef, omega=om)
        case.update(NKdiv=div, NKFFT=fft, num_wann=sys_sym.num_wann, group_order=len(G), kind=kind,
                    calculators=names_c, tabulators=tnames)
        kf = KF_SHEAR if sheared_aniso(Ns, fft) else None
        ctx.count(f"oracle.physical.family={famname}")
        ctx.count(f"oracle.physical.kind={kind}")
        ctx.count(f"oracle.physical.order={len(G)}")
        ctx.count("oracle.physical.grid=" + ("anisotropic" if len(set(fft)) > 1 or len(set(div)) > 1 else "isotropic"))
        ctx.count("oracle.physical.cell=" + ("oblique" if oblique else "conventional"))
        ctx.count("oracle.physical.NKdiv_differs_on_coupled_axes=" + ("yes" if coupled_aniso(Ns, div) else "no"))
        with ctx.attempt("run() on a symmetric model", case, kf=kf):
            scales = companion_scales(sys0, div, fft, make_wide)
            check_cover(ctx, klist_of(sys_sym, div, fft), Ns, div, case, kf=kf)
            r1, r0, K_list = run_pair(sys_sym, div, fft, make)
            nirr = len(K_list)
            ntot = int(np.prod(div))
            ctx.case(signature=("phys", famname, fam.name, tuple(names), tuple(trs), div, fft, tuple(names_c)),
                     nontrivial=len(G) >= 2 and nirr < ntot)
            ctx.count("oracle.physical.reduction=" + ("yes" if nirr < ntot else "none"))
            tolrel = 1e-9
            ctx.count("oracle.physical.degenerate_bands_on_grid=" + ("yes" if degenerate else "no"))
            kfq = {n: KF_DEGEN for n in GAUGE_DEPENDENT_AT_DEGENERACY} if degenerate else {}
            case.update(min_nondegenerate_gap=gmin, degenerate_bands_on_grid=degenerate, tolerance_rel=tolrel)
            worst = compare_results(ctx, r1, r0, scales, case, kf=kf, tolrel=tolrel,
                                    kf_by_quantity={k: (v if kf is None else kf) for k, v in kfq.items()})
            ctx.note(f"physical {famname} {names}/{trs} order {len(G)} nw {sys_sym.num_wann} div {div} fft {fft}: "
                     f"{nirr}/{ntot} K-points, min gap {gmin:.2e}, degenerate {degenerate}, tol {tolrel:.1e}, "
                     f"worst relative difference {worst:.2e}")


# ------------------------------------------------------------------------------------------------
# synthetic calculators: run()'s bookkeeping with exactly known per-k values

class FakeDataK:
    """stands in for Data_K: only remembers which K-point it was built for"""

    def __init__(self, system, dK, grid, Kpoint=None, **kw):
        self.system = system
        self.Kpoint = Kpoint
        self.grid = grid
        nf = np.array(grid.FFT)
        pts = np.array([[ix, iy, iz] for ix in range(nf[0]) for iy in range(nf[1]) for iz in range(nf[2])], dtype=float)
        self.kpoints_all = ((pts + np.array(Kpoint.K)[None, :]) / nf[None, :]) % 1


class FakeCalc:
    allow_grid = True
    allow_path = False
    comment = "synthetic calculator (verification harness)"

    def __init__(self, fn, rank, tT, tI, nE):
        self.fn, self.rank, self.tT, self.tI = fn, rank, tT, tI
        self.E = np.linspace(0, 1, nE)

    def __call__(self, data_K):
        from wannierberri.result import EnergyResult
        vals = np.array([self.fn(k) for k in data_K.kpoints_all])      # (nk, nE, 3,..)
        return EnergyResult(self.E, vals.mean(axis=0), transformTR=self.tT, transformInv=self.tI, rank=self.rank,
                            save_mode="")


class FakeTab:
    allow_grid = True
    allow_path = False
    comment = "synthetic tabulator (verification harness)"

    def __init__(self, fnE, fnX, rank, tT, tI):
        self.fnE, self.fnX, self.rank, self.tT, self.tI = fnE, fnX, rank, tT, tI

    def __call__(self, data_K):
        from wannierberri.result import TABresult, KBandResult
        from wannierberri.symmetry.point_symmetry import transform_ident
        ks = data_K.kpoints_all
        E = np.array([self.fnE(k) for k in ks])                        # (nk, nb)
        X = np.array([self.fnX(k) for k in ks])                        # (nk, nb, 3,..)
        return TABresult(kpoints=ks.copy(), mode="grid", recip_lattice=data_K.system.recip_lattice, save_mode="",
                         results={"Energy": KBandResult(E, transformTR=transform_ident, transformInv=transform_ident),
                                  "X": KBandResult(X, transformTR=self.tT, transformInv=self.tI)})


def grid_key(k, ntot):
    return tuple(int(round(float(k[i]) * ntot[i])) % ntot[i] for i in range(3))


def equivariant_table(rng, G, Ns, ntot, shape_lead, rank, tT, tI, complex_vals):
    """a tensor-valued function on the grid with  F(g k) = T_g F(k):  random on one point per orbit, projected on the
    stabiliser-invariant part, carried around the orbit.  Everything with the harness's own reference transform."""
    table = {}
    all_pts = list(itertools.product(range(ntot[0]), range(ntot[1]), range(ntot[2])))
    for p in all_pts:
        if p in table:
            continue
        # exact images on the fine grid: k' = k @ N with k_i = p_i / ntot_i ; k'_j * ntot_j must be an integer
        imgs = []
        for N in Ns:
            kk = [sum(Fr(p[i], ntot[i]) * N[i][j] for i in range(3)) for j in range(3)]
            qq = [kk[j] * ntot[j] for j in range(3)]
            if any(x.denominator != 1 for x in qq):
                raise InfraError("harness: grid not invariant under the group")
            imgs.append(tuple(int(qq[j]) % ntot[j] for j in range(3)))
        x = rand_tensor(rng, rank, shape_lead)
        if not complex_vals:
            x = x.real.copy()
        stab = [g for g, q in zip(G, imgs) if q == p]
        y = sum(ref_transform_tensor(R * (-1 if (np.linalg.det(R) < 0) else 1), np.linalg.det(R) < 0, tr, x, rank, tT, tI)
                for R, tr in stab) / len(stab)
        for (R, tr), q in zip(G, imgs):
            if q not in table:
                table[q] = ref_transform_tensor(R * (-1 if (np.linalg.det(R) < 0) else 1), np.linalg.det(R) < 0, tr, y,
                                                rank, tT, tI)
    return table


def synthetic_setup(ctx, rng, famname, max_order, max_pts, oblique=False, sheared_fft_prob=0.1):
    fam, names, trs, gens, cl = group_of(rng, famname, max_order, oblique)
    rs = np.random.RandomState(rng.getrandbits(31))
    seeds = [fam.conv_to_cell((0, 0, 0) if famname != "hex" else (Fr(1, 3), Fr(2, 3), 0))]
    gstr = generator_strings(rng, fam, names, trs) if rng.random() < 0.6 else None
    sys_sym, sys0, G, sites = build_symmetric_system(rs, fam, names, trs, seeds, nbonds=2, gen_strings=gstr)
    ctx.count("synthetic.group_declared_by=" + ("strings" if gstr else "objects"))
    if gstr and any("*" in g for g in gstr):
        ctx.count("synthetic.product_strings")
    if not declared_group_matches(ctx, sys_sym, G, dict(family=famname, lattice=fam.name, generators=names,
                                                        TR=[bool(t) for t in trs], generator_strings=gstr)):
        return None
    Ns = [kmat_exact(fam, R, tr) for R, tr in G]
    div, fft = pick_grid(rng, sys_sym.pointgroup, Ns, max_pts, sheared_fft_prob=sheared_fft_prob)
    return fam, names, trs, sys_sym, G, Ns, div, fft


def oracle_synthetic(ctx, scale):
    """run() with synthetic calculators whose per-k value is equivariant by construction: the irreducible +
    symmetrised result must equal the full unsymmetrised one and the directly computed grid average / table"""
    rng = ctx.rng
    for it in range(ctx.n(12, 60) * scale):
        famname, oblique = FAMILY_CYCLE[(it + 1) % len(FAMILY_CYCLE)]
        setup = synthetic_setup(ctx, rng, famname, 48, ctx.n(96, 216), oblique)
        if setup is None:
            continue
        fam, names, trs, sys_sym, G, Ns, div, fft = setup
        ntot = tuple(a * b for a, b in zip(div, fft))
        rank = rng.choice([0, 1, 2, 2, 3])
        tT, tI = rand_transform_pair(rng, rank, valid=True)
        tT["conj"] = tI["conj"] = rng.random() < 0.25 and tT["conj"]
        cT, cI = code_transform(tT), code_transform(tI)
        nE, nb = 2, 2
        cplx = rng.random() < 0.5 or tT["conj"]
        FE = equivariant_table(rng, G, Ns, ntot, (nE,), rank, tT, tI, cplx)
        ident = dict(factor=1, conj=False, axes=None)
        TE = equivariant_table(rng, G, Ns, ntot, (nb,), 0, ident, ident, False)
        TX = equivariant_table(rng, G, Ns, ntot, (nb,), rank, tT, tI, cplx)
        kf = KF_SHEAR if sheared_aniso(Ns, fft) else None
        case = dict(family=famname, lattice=fam.name, real_lattice=fam.A, generators=names, TR=[bool(t) for t in trs],
                    NKdiv=div, NKFFT=fft, rank=rank, tTR=tT, tInv=tI, group_order=len(G), synthetic=True)

        def make():
            return {"int": FakeCalc(lambda k: FE[grid_key(k, ntot)], rank, cT, cI, nE),
                    "tabulate": FakeTab(lambda k: TE[grid_key(k, ntot)], lambda k: TX[grid_key(k, ntot)], rank, cT, cI)}
        ctx.count(f"oracle.synthetic.family={famname}")
        ctx.count("oracle.synthetic.cell=" + ("oblique" if oblique else "conventional"))
        ctx.count("oracle.synthetic.NKdiv_differs_on_coupled_axes=" + ("yes" if coupled_aniso(Ns, div) else "no"))
        ctx.count(f"oracle.synthetic.rank={rank}")
        ctx.count("oracle.synthetic.grid=" + ("sheared-anisotropic(known finding)" if kf else
                                              ("anisotropic" if len(set(ntot)) > 1 else "isotropic")))
        with ctx.attempt("run() with synthetic equivariant calculators", case, kf=kf):
            # the cover statement concerns the map K -> K.M on the division grid and holds for every accepted grid
            check_cover(ctx, klist_of(sys_sym, div, fft), Ns, div, case)
            r1, r0, K_list = run_pair(sys_sym, div, fft, make, data_k_class=FakeDataK)
            nirr = len(K_list)
            ctx.case(signature=("syn", famname, fam.name, tuple(names), tuple(trs), div, fft, rank, str(tT), str(tI)),
                     nontrivial=len(G) >= 2 and nirr < int(np.prod(div)))
            # (the random tensors the tables are projected from are O(1): a table that symmetry forces to vanish is
            # rounding noise and is compared on that scale)
            scales = {"int": max(1.0, max(float(np.abs(v).max()) for v in FE.values())),
                      ("tab", "X"): max(1.0, max(float(np.abs(v).max()) for v in TX.values())),
                      ("tab", "Energy"): max(1.0, max(float(np.abs(v).max()) for v in TE.values()))}
            compare_results(ctx, r1, r0, scales, case, kf=kf, tolrel=1e-11)
            # independent reference: plain average / table
            allk = list(itertools.product(range(ntot[0]), range(ntot[1]), range(ntot[2])))
            avg = sum(FE[p] for p in allk) / len(allk)
            sc = max(1.0, scales["int"])
            if np.abs(r1.results["int"].data - avg).max() > 1e-11 * sc * 10:
                ctx.fail(f"integrated synthetic quantity (rank {rank}): irreducible+symmetrised run differs from the plain "
                         f"grid average by {np.abs(r1.results['int'].data - avg).max():.3e}", case, kf=kf)
            tab = r1.results["tabulate"]
            refX = np.array([TX[p] for p in allk])
            refE = np.array([TE[p] for p in allk])
            kref = np.array([[p[i] / ntot[i] for i in range(3)] for p in allk])
            if tab.kpoints.shape != kref.shape or np.abs(tab.kpoints - kref).max() > 1e-9:
                ctx.fail("tabulated k-points are not the full grid in C order", case, kf=kf)
            elif np.abs(tab.results["X"].data - refX).max() > 1e-11 * 10 * max(1.0, np.abs(refX).max()) or \
                    np.abs(tab.results["Energy"].data - refE).max() > 1e-11:
                ctx.fail(f"tabulated synthetic values (rank {rank}) per k differ from the table they were built from: "
                         f"{np.abs(tab.results['X'].data - refX).max():.3e}", case, kf=kf)


def oracle_known_finding(ctx):
    """the input class of the known finding, witnessed on every run (cheap synthetic calculators)"""
    rng = ctx.rng
    fam = Family(rng, "hex")
    names, trs = ["C2x"], [False]
    rs = np.random.RandomState(7)
    sys_sym, sys0, G, sites = build_symmetric_system(rs, fam, names, trs, [(Fr(1, 3), Fr(2, 3), 0)], nbonds=2)
    Ns = [kmat_exact(fam, R, tr) for R, tr in G]
    div, fft = (3, 3, 1), (1, 2, 1)
    if not grid_accepted(sys_sym.pointgroup, div, fft):
        ctx.note("the anisotropic sheared grid (3,3,1)x(1,2,1) is now rejected by the code")
        return
    if not sheared_aniso(Ns, fft):
        raise InfraError("harness: expected a sheared operation for C2x on hexagonal axes")
    ntot = tuple(a * b for a, b in zip(div, fft))
    ident = dict(factor=1, conj=False, axes=None)
    FE = equivariant_table(rng, G, Ns, ntot, (2,), 0, ident, ident, False)
    case = dict(family="hex", real_lattice=fam.A, generators=names, NKdiv=div, NKFFT=fft,
                what="DOS-like scalar that is invariant under the group")
    cI = code_transform(ident)

    def make():
        return {"int": FakeCalc(lambda k: FE[grid_key(k, ntot)], 0, cI, cI, 2)}
    with ctx.attempt("run() on an accepted anisotropic FFT grid with a sheared operation", case, kf=KF_SHEAR):
        r1, r0, K_list = run_pair(sys_sym, div, fft, make, data_k_class=FakeDataK)
        ctx.case(signature=("kf-shear",), nontrivial=True)
        compare_results(ctx, r1, r0, {"int": max(1.0, max(float(np.abs(v).max()) for v in FE.values()))}, case, kf=KF_SHEAR,
                        tolrel=1e-11)


def oracle(ctx, scale):
    oracle_synthetic(ctx, scale)
    oracle_physical(ctx, scale)
    oracle_known_finding(ctx)



# ------------------------------------------------------------------------------------------------
# regenerated table: structure terms (Lean) vs the live calculators' rank and declared transforms

STATIC_TERMS = ["DOS", "CumDOS", "Spin", "Morb", "GME_orb_FermiSurf", "GME_orb_FermiSea", "GME_spin_FermiSea",
                "GME_spin_FermiSurf", "AHC", "Ohmic_FermiSea", "Ohmic_FermiSurf", "Hall_classic_FermiSea",
                "Hall_classic_FermiSurf", "BerryDipole_FermiSurf", "BerryDipole_FermiSea", "NLAHC_FermiSurf",
                "NLAHC_FermiSea", "NLDrude_FermiSea", "NLDrude_FermiSurf", "NLDrude_Fermider2", "AHC_Zeeman_spin",
                "OmegaOmega", "AHC_Zeeman_orb", "QuantumMetric_FermiSea", "QuantumMetric_Vel_DQ", "NLDrude_Zeeman_spin",
                "NLDrude_Zeeman_orb", "NLDrude_Zeeman_orb_Omega", "eMChA_FermiSurf"]
TAB_TERMS = ["Energy", "Velocity", "InvMass", "Der3E", "BerryCurvature", "DerBerryCurvature", "Der2BerryCurvature",
             "Spin", "DerSpin", "Der2Spin", "OrbitalMoment", "DerOrbitalMoment", "Der2OrbitalMoment"]
NEEDS_INTERNAL = ("QuantumMetric_FermiSea", "QuantumMetric_Vel_DQ")      # external terms need the FF matrix


def tables(ctx):
    """Every structure term of WB/Lemmas/C07Terms.lean predicts (rank, transformInv odd, transformTR odd); the live
    calculators are instantiated on a small random system (all matrices) and their rank and declared transforms read
    from the result objects; the equalities are then checked by the Lean kernel (`decide`) in a generated file."""
    import wannierberri as wb
    from wannierberri import calculators as calc
    from .. import wbsys
    rs = np.random.RandomState(12345)
    Ef = np.linspace(-0.5, 0.5, 3)
    live = {}
    with quiet():
        s = wbsys.rand_system(rs, num_wann=2, nR=5, matrices=("Ham", "AA", "BB", "CC", "SS"))
        grid = wb.Grid(s, NKdiv=1, NKFFT=2)
        cs = {}
        for n in STATIC_TERMS:
            kw = dict(kwargs_formula={"external_terms": False}) if n in NEEDS_INTERNAL else {}
            cs[n] = getattr(calc.static, n)(Efermi=Ef, save_mode="", **kw)
        cs["tabulate"] = calc.TabulatorAll({n: getattr(calc.tabulate, n)() for n in TAB_TERMS}, mode="grid", save_mode="")
        res = wb.run(s, grid, cs, use_irred_kpt=False, symmetrize=False, parallel=False, print_progress_step_time=1e9)
    for n in STATIC_TERMS:
        live["Term." + n] = res.results[n]
    for n in TAB_TERMS:
        live["Term.tab" + n] = res.results["tabulate"].results[n]
    lines = ["import WB.Model.C07", "open WB.C07"]
    declared = {}
    for term, r in live.items():
        tT, tI = r.transformTR, r.transformInv
        plain = all(t is not None and not t.conj and t.transpose_axes is None and getattr(t, "swap_axes", None) is None
                    for t in (tT, tI))
        if not plain:
            ctx.mismatch(f"{term}: the live calculator declares a transform with conjugation / transposition; the grade "
                         f"calculus only predicts factors", dict(term=term, TR=str(tT), Inv=str(tI)))
            continue
        declared[term] = (int(r.rank), tI.factor == -1, tT.factor == -1)
        b = lambda x: "true" if x else "false"
        lines.append(f"example : {term}.grade = ({int(r.rank)}, {b(tI.factor == -1)}, {b(tT.factor == -1)}, true) := by decide")
        lines.append(f'#eval ("{term}", {term}.grade)')
    ok, out = ctx.lean_file("GenC07Terms.lean", "\n".join(lines) + "\n")
    ctx.count("tables.structure_terms", len(declared))
    ctx.corr_cases += len(declared)
    if not ok:
        import re
        pred = dict(re.findall(r'\("(Term\.\w+)", (\d+, \w+, \w+, \w+)\)', out))
        bad = [t for t, d in declared.items()
               if pred.get(t) != f"{d[0]}, {str(d[1]).lower()}, {str(d[2]).lower()}, true"]
        for t in bad or ["?"]:
            ctx.mismatch(f"structure term {t}: predicted (rank, Inv odd, TR odd, wf) = ({pred.get(t)}), live calculator "
                         f"declares {declared.get(t)}", dict(term=t, lean_output=out[-600:] if not bad else ""))
    ctx.sample(dict(structure_terms_checked=len(declared), example=lines[2] if len(lines) > 2 else ""))


# ------------------------------------------------------------------------------------------------
# correspondence: model vs code

def c06_sym_token(fam, grp_elems):
    """the group in the wire format of the C06 model: unsigned reduced matrix of the proper part (k' = k @ M * sign),
    inv, tr"""
    from ..common import intss
    B = fam.basis_recip
    Binv = finv(B)
    rows = []
    for (Q, inv, tr) in grp_elems:
        M = fmul(fmul(B, ftrans(fmat(Q))), Binv)
        assert all(x.denominator == 1 for r in M for x in r)
        rows.append([int(x) for r in M for x in r] + [int(inv), int(tr)])
    return intss(rows)


def corr(ctx):
    from wannierberri.result import TABresult, KBandResult, EnergyResult
    from wannierberri.symmetry.point_symmetry import transform_ident
    from . import c06
    rng = ctx.rng
    lines, checks = [], []
    c06_lines, c06_checks = [], []
    # --- TABresult.to_grid: k_map, averages, grid points
    for _ in range(ctx.n(40, 300)):
        g = [rng.choice([1, 2, 3, 4]) for _ in range(3)]
        ncell = g[0] * g[1] * g[2]
        style = rng.choice(["cover", "cover", "cover+dups", "holes", "offgrid"])
        kpts = []
        cells = list(itertools.product(range(g[0]), range(g[1]), range(g[2])))
        if style != "holes":
            for c in cells:
                kpts.append([Fr(c[i], g[i]) + rng.choice([0, 0, 1, -1, 2]) for i in range(3)])
        else:
            for c in rng.sample(cells, max(1, len(cells) - 1)):
                kpts.append([Fr(c[i], g[i]) for i in range(3)])
        if style in ("cover+dups", "offgrid"):
            for _ in range(rng.randint(1, 4)):
                c = rng.choice(cells)
                kpts.append([Fr(c[i], g[i]) + rng.choice([0, 1, -3]) for i in range(3)])
        if style == "offgrid":
            kpts.insert(rng.randrange(len(kpts) + 1), [Fr(1, 2 * g[0]) + Fr(1, 7), Fr(0), Fr(0)])
        rng.shuffle(kpts)
        vals = [rng.randint(-9, 9) for _ in kpts]
        case = dict(grid=g, kpoints=[[str(x) for x in k] for k in kpts], values=vals, style=style)
        try:
            with quiet():
                import warnings
                with warnings.catch_warnings():
                    warnings.simplefilter("ignore")
                    tab = TABresult(kpoints=np.array([[float(x) for x in k] for k in kpts]), recip_lattice=np.eye(3),
                                    results={"Energy": KBandResult(np.array(vals, dtype=float).reshape(-1, 1),
                                                                   transformTR=transform_ident, transformInv=transform_ident)})
                    out = tab.to_grid(np.array(g))
            exp = ("grid", out.results["Energy"].data.reshape(-1), out.kpoints)
        except ZeroDivisionError:
            exp = "ERR"
        except Exception as e:  # noqa  - any other exception on these valid inputs is a failure of the real code
            ctx.fail(f"TABresult.to_grid raised {type(e).__name__}: {str(e)[:200]}", case)
            continue
        lines.append(f"kmap {ints(g)} {';'.join(rats(k) for k in kpts)}")
        checks.append(("kmap", case, None))
        lines.append(f"togrid {ints(g)} {';'.join(rats(k) for k in kpts)} {rats(vals)}")
        checks.append(("togrid", case, exp))
        ctx.count(f"corr.togrid.{style}")
        if exp != "ERR":
            c = rng.randrange(ncell)
            lines.append(f"gridpoint {ints(g)} {c}")
            checks.append(("gridpoint", dict(grid=g, cell=c), ("vec", exp[2][c])))
    # --- TABresult.transform
    fams = ["cubic", "tetra", "hex", "rhombo", "ortho"]
    for it in range(ctx.n(12, 80)):
        famname = fams[it % 5]
        fam = Family(rng, famname)
        names, trs, gens, cl = c09.random_generators(rng, fam, 24)
        case = dict(family=famname, lattice=fam.name, generators=names, TR=[bool(t) for t in trs])
        with ctx.attempt("TABresult.transform", case):
            grp = c09.build_code_group(fam, names, trs)
            elems = c09.code_elements(fam, grp)
            i = rng.randrange(len(elems))
            s = grp.symmetries[i]
            rank = rng.choice([0, 1, 2, 3])
            tT, tI = rand_transform_pair(rng, rank, valid=rng.random() < 0.8)
            x = rand_tensor(rng, rank)
            k = c09.kpoints(rng)
            xc = fam.tensor_to_cart(x, rank)
            with quiet():
                tab = TABresult(kpoints=np.array([[float(v) for v in k]]), recip_lattice=grp.recip_lattice,
                                results={"Energy": KBandResult(np.zeros((1, 1)), transformTR=transform_ident,
                                                               transformInv=transform_ident),
                                         "X": KBandResult(np.array(xc).reshape((1, 1) + (3,) * rank),
                                                          transformTR=code_transform(tT), transformInv=code_transform(tI))})
                tt = tab.transform(s)
            we = wire_elems([elems[i]])
            lines.append(f"tabtr {we[0]} {we[1]} {we[2]} {rats(flat(fam.basis_recip))} {rank} {wire_transform(tT)} "
                         f"{wire_transform(tI)} {rats(k)} {wire_tensor(x)}")
            checks.append(("tabtr", dict(case, element=i, rank=rank, tTR=tT, tInv=tI, k=[str(v) for v in k]),
                           ("tabtr", fam, rank, tt.kpoints[0], tt.results["X"].data.reshape((3,) * rank))))
            ctx.count(f"corr.tabtr.rank={rank}")
    # --- run(): weighted symmetrised sum with synthetic calculators returning ARBITRARY tables (not equivariant)
    for it in range(ctx.n(4, 24)):
        famname, oblique = FAMILY_CYCLE[(it + 1) % len(FAMILY_CYCLE)]
        setup = synthetic_setup(ctx, rng, famname, 16, 48, oblique, sheared_fft_prob=0.0)
        if setup is None:
            continue
        fam, names, trs, sys_sym, G, Ns, div, fft = setup
        fft = (1, 1, 1)
        rank = rng.choice([0, 1, 2])
        tT, tI = rand_transform_pair(rng, rank, valid=True)
        cT, cI = code_transform(tT), code_transform(tI)
        ntot = div
        table = {p: rand_tensor(rng, rank) for p in itertools.product(range(div[0]), range(div[1]), range(div[2]))}
        case = dict(family=famname, lattice=fam.name, generators=names, TR=[bool(t) for t in trs], NKdiv=div, rank=rank,
                    tTR=tT, tInv=tI)
        with ctx.attempt("run() with a synthetic calculator", case):
            import wannierberri as wb

            def make():
                return {"int": FakeCalc(lambda k: fam.tensor_to_cart(table[grid_key(k, ntot)], rank).reshape((1,) + (3,) * rank),
                                        rank, cT, cI, 1)}
            r1, r0, K_list = run_pair(sys_sym, div, fft, make, data_k_class=FakeDataK)
            nirr = len(K_list)
            grp_elems = c09.code_elements(fam, sys_sym.pointgroup)
            w = wire_elems(grp_elems)
            ws = [Fr(float(K.factor)).limit_denominator(10000) for K in K_list]
            vs = [table[grid_key(K.K, ntot)] for K in K_list]
            lines.append(f"irrsum {w[0]} {w[1]} {w[2]} {rank} {wire_transform(tT)} {wire_transform(tI)} {rats(ws)} "
                         f"{';'.join(wire_tensor(v).split(' ')[0] for v in vs)} {';'.join(wire_tensor(v).split(' ')[1] for v in vs)}")
            checks.append(("irrsum", case, ("tensor", fam, rank, r1.results["int"].data.reshape((3,) * rank))))
            allp = list(table)
            lines.append(f"fullsum {rank} {rats([Fr(1, len(allp))] * len(allp))} "
                         f"{';'.join(wire_tensor(table[p]).split(' ')[0] for p in allp)} "
                         f"{';'.join(wire_tensor(table[p]).split(' ')[1] for p in allp)}")
            checks.append(("fullsum", case, ("tensor", fam, rank, r0.results["int"].data.reshape((3,) * rank))))
            # index map of the division grid: the code's  round(star * div) % div  element by element
            for _ in range(3):
                n = [rng.randrange(div[i]) for i in range(3)]
                kk = np.array([n[i] / div[i] for i in range(3)])
                pgc = sys_sym.pointgroup
                imgs = [np.array(np.round(S.transform_reduced_vector(kk, pgc.recip_lattice) * np.array(div)), dtype=int)
                        % np.array(div) for S in pgc.symmetries]
                lines.append(f"gridimg {w[0]} {w[1]} {w[2]} {rats(flat(fam.basis_recip))} {ints(div)} {ints(n)}")
                checks.append(("gridimg", dict(case, n=n), ";".join(",".join(str(int(v)) for v in im) for im in imgs)))
                ctx.count("corr.gridimg.coupled_anisotropic=" + ("yes" if coupled_aniso(Ns, div) else "no"))
            # interface with the C06 model (theorem irred_equals_full_with_C06_weights): its star of a grid index is the
            # orbit under the action used here, and its K-list (points, factors) is the code's
            stok = c06_sym_token(fam, grp_elems)
            for _ in range(2):
                n = tuple(rng.randrange(div[i]) for i in range(3))
                orb = set()
                for N in Ns:
                    q = [sum(Fr(n[i] * N[i][j] * div[j], div[i]) for i in range(3)) for j in range(3)]
                    orb.add(tuple(int(q[j]) % div[j] for j in range(3)))
                c06_lines.append(f"staridx {stok} {ints(div)} {ints(n)}")
                c06_checks.append(("staridx", dict(case, n=n), orb))
            c06_lines.append(f"orbithyp {stok} {ints(div)}")
            c06_checks.append(("orbithyp", case, "1"))
            c06_lines.append(f"klist {stok} {ints(div)} 1")
            c06_checks.append(("klist", case, list(K_list)))
            ctx.count(f"corr.irrsum.rank={rank}")
            ctx.count(f"corr.irrsum.irreducible={nirr}/{len(allp)}")

    out = ctx.lean(lines)
    for line, o, (kind, case, exp) in zip(lines, out, checks):
        ctx.case(signature=line, nontrivial=kind in ("togrid", "tabtr", "irrsum", "fullsum", "gridimg"))
        if o == "bad-op" or o == "singular":
            ctx.mismatch(f"{kind}: the model rejected the line", dict(case, line=line[:500]))
        elif exp is None:
            continue
        elif isinstance(exp, str) and kind == "gridimg":
            if o != exp:
                ctx.mismatch(f"{kind}: model {o[:150]} code {exp[:150]}", dict(case, line=line[:300]))
        elif exp == "ERR":
            if o != "ERR":
                ctx.mismatch(f"{kind}: code raises ZeroDivisionError (empty grid cell), model gives {o[:100]}", case)
        elif exp[0] == "grid":
            if o == "ERR":
                ctx.mismatch(f"{kind}: model reports an empty cell, code returned data", case)
            else:
                mv = np.array([float(Fr(t)) for t in o.split(",")])
                if mv.shape != exp[1].shape or np.abs(mv - exp[1]).max() > 1e-12 * (1 + np.abs(mv).max()):
                    ctx.mismatch(f"{kind}: grid values differ: model {o[:120]} code {exp[1].tolist()[:12]}", case)
        elif exp[0] == "vec":
            mv = np.array([float(Fr(t)) for t in o.split(",")])
            if np.abs(mv - np.asarray(exp[1], dtype=float)).max() > 1e-12:
                ctx.mismatch(f"{kind}: model {o} code {np.asarray(exp[1]).tolist()}", case)
        elif exp[0] == "tabtr":
            _, fam, rank, kcode, xcode = exp
            parts = o.split(" ")
            km = np.array([float(Fr(t)) for t in parts[0].split(",")])
            mt = fam.tensor_to_cart(parse_tensor(parts[1] + " " + parts[2], rank), rank)
            dk = np.abs(((km - np.asarray(kcode, dtype=float) + 0.5) % 1) - 0.5).max()
            # a k component that is an integer may be reported as 0 or 0.99999.. by the float code: compare modulo 1
            if dk > 1e-9:
                ctx.mismatch(f"{kind}: transformed k-point differs: model {km.tolist()} code {np.asarray(kcode).tolist()}", case)
            if np.abs(np.asarray(xcode, dtype=complex) - mt).max() > 1e-10 * max(1.0, float(np.abs(mt).max())):
                ctx.mismatch(f"{kind}: transformed value differs by {np.abs(np.asarray(xcode, dtype=complex) - mt).max():.2e}", case)
        elif exp[0] == "tensor":
            _, fam, rank, got = exp
            mt = fam.tensor_to_cart(parse_tensor(o, rank), rank)
            if np.abs(np.asarray(got, dtype=complex) - mt).max() > 1e-10 * max(1.0, float(np.abs(mt).max())):
                ctx.mismatch(f"{kind}: run() result differs from the model by "
                             f"{np.abs(np.asarray(got, dtype=complex) - mt).max():.2e}", dict(case, line=line[:300]))
    if lines:
        ctx.sample(dict(protocol_line=lines[0][:300], model=out[0][:300]))
        ctx.sample(dict(protocol_line=lines[-1][:300], model=out[-1][:300]))
    if c06_lines:
        out6 = ctx.lean(c06_lines, model="C06")
        for line, o, (kind, case, exp) in zip(c06_lines, out6, c06_checks):
            ctx.case(signature=("C06", line), nontrivial=True)
            if kind == "staridx":
                got = set() if o == "_" else {tuple(int(t) for t in v.split(",")) for v in o.split(";")}
                n_listed = 0 if o == "_" else len(o.split(";"))
                if got != exp or n_listed != len(exp):
                    ctx.mismatch(f"C06 model: starIdx lists {n_listed} points {sorted(got)}, the orbit under the C07 action "
                                 f"is {sorted(exp)}", dict(case, line=line[:300]))
            elif kind == "orbithyp":
                if o != exp:
                    ctx.mismatch(f"C06 model: OrbitHyp check gives {o} on a grid accepted by the code", dict(case, line=line[:300]))
            elif kind == "klist":
                msg = c06.cmp_klist(o, exp, False)
                if msg:
                    ctx.mismatch(f"C06 model K-list differs from the code's get_K_list: {msg}", dict(case, line=line[:300]))
        ctx.count("corr.c06_interface_lines", len(c06_lines))


def replay(ctx, case):
    oracle(ctx, 1)
