"""C03 - integrals depend only on the k-point set, not on its FFT factorisation (nor on the FFT library)."""
import inspect
import os
import tempfile
import warnings
from fractions import Fraction as Fr

import numpy as np

from ..common import F, rats, ints, parse_ratss, quiet
from . import c06 as g6

PID = "C03"
CLAIM = dict(
    design="3/C03",
    technique="Lean 4 proof over an exact model of the k-point bookkeeping (Grid.get_K_list without symmetry, "
              "KpointBZ.Kp_fullBZ, GridAbstract.points_FFT, Data_K.kpoints_all, the weight factor_K/prod(NKFFT), "
              "determineNK, the folded FFT of one direction) + exact in-order comparison of the (k, weight) lists of the "
              "real Grid/Data_K objects with the model for all factorisations + real run() of every constructible "
              "calculator for several factorisations, both FFT libraries, tetra on/off",
    text="Theorems: (kset_bijection) (x, m) -> m*div + x is a bijection [0,div) x [0,fft) -> [0, div*fft); "
         "(kpoint_is_grid_point) the k-point the code assigns to K-point x and FFT point m, (m/fft + (x/div)/fft) % 1, is "
         "grid point m*div+x of the full grid; (weighted_sum_is_grid_mean / weighted_sum_invariant) for EVERY function f of "
         "k with values in any Q-module and every factorisation with positive sizes, sum_K factor_K (prod fft)^-1 "
         "sum_{k in K} f(k) equals the plain mean of f over the full grid div*fft, hence is the same for any two "
         "factorisations of the same grid; (folded_fft_is_direct_sum) with R-vectors folded into (and added on) an FFT box "
         "of any size >= 1 and the K-shift phase, FFT point m of K-point x carries the Fourier sum at grid point m*div+x, "
         "for every phase function that is multiplicative and div*fft-periodic; (cell_shape_invariant) dK_fullBZ = "
         "1/(div*fft); (determineNK_exact) NK = div*fft with NKFFT given reproduces (div, fft); (symmetric_grid_star_on_grid, "
         "total_grid_symmetric_not_enough) the symmetry reduction needs NKdiv (and NKFFT) symmetric on their own - a symmetric "
         "total grid is not enough - so the rule the check enforces is determineNK's: every specified grid symmetric "
         "(compared with the real accept/refuse decision), and every factorisation of small grids of C4/C6/cubic models is "
         "either refused or reproduces the full-grid result with use_irred_kpt on and off; (star_images_same_with_inversion, "
         "dropping_TR_sign_merges_valleys) the image rule k -> iTR iInv (k M): with inversion in the group the TR sign does "
         "not change the set of images, for C3z + C2y*TR on a 3x3 K-grid dropping it merges the inequivalent K and K' "
         "(tied to the code through the C06 star correspondence and the magnetic-group oracle).",
    note="Assumed, not proved: every grid calculator is of the form 'mean over the k-points of Data_K of a function of k' "
         "(holds by construction of the calculators; checked by running every constructible calculator), exp is "
         "multiplicative/periodic and the FFT libraries compute the DFT (trusted kernels, checked numerically). "
         "autoNK and symmetric K-lists are compared with the code but are not part of the theorem.",
)
TRUSTED = [
    "modelled: Grid.get_K_list (C06 model), KpointBZ.Kp_fullBZ, dK_fullBZ, GridAbstract.points_FFT, Data_K.kpoints_all, "
    "determineNK (paths NKdiv+NKFFT and NK+NKFFT), FFT_R_to_k folding (one direction, abstract phase)",
    "assumed: exp(2 pi i (a+b)) = exp(2 pi i a) exp(2 pi i b), exp(2 pi i n) = 1; numpy / FFTW compute the DFT",
    "assumed: each calculator returns the mean over data_K.kpoints_all of a function of k (checked by real run())",
    "not modelled (checked only): autoNK, the calculators themselves, TABresult.to_grid",
]
RULE = ("corr: (grid N per direction in 1..12, every/some factorisation N = div x fft, symmetry group on/off, refined "
        "K-lists) -> the (k, weight) list of the real Grid + Data_K objects; oracle: (random system, N in {3,4,6} per "
        "direction, always the two extreme factorisations NKdiv=N x NKFFT=1 and NKdiv=1 x NKFFT=N plus 1-2 random ones incl. "
        "NKFFT below NKFFT_recommended, both fftlibs, tetra on/off) x calculator; (model with a "
        "C4 / C6 / cubic point group or a magnetic group (rotation x time reversal without inversion), ALL factorisations of (6,6,2), (4,4,2), (4,4,4), (6,6,6 sample), use_irred_kpt on/off): "
        "refused by Grid() or equal to the full-grid reference; non-trivial = "
        "more than one K-point and more than one FFT point, or a calculator result that is not identically zero; "
        "distinct = distinct protocol line / distinct (system seed, N, factorisation, fftlib, tetra, calculator)")


def factorisations(n):
    return [(d, n // d) for d in range(1, n + 1) if n % d == 0]


def _mods():
    with quiet():
        import wannierberri as wb
        from wannierberri.data_K import get_data_k_class_from_system
        from wannierberri.grid.grid import determineNK
    return wb, get_data_k_class_from_system, determineNK


def small_system(rs, lat=None, nw=2):
    from ..wbsys import rand_system
    with quiet():
        return rand_system(rs, num_wann=nw, nR=5, max_R=2, lattice=np.diag([1.0, 1.25, 1.5]) if lat is None else lat,
                           matrices=("Ham",))


def code_kw(system, grid, kl, fftlib="numpy"):
    """[(k, weight)] in the order of the code: K-points in list order, k-points in the order of kpoints_all"""
    wb, get_cls, _ = _mods()
    cls = get_cls(system)
    out = []
    nfft = int(np.prod(grid.FFT))
    for K in kl:
        with quiet():
            d = cls(system, dK=K.Kp_fullBZ, grid=grid, Kpoint=K, fftlib=fftlib)
        for k in d.kpoints_all:
            out.append([float(k[0]), float(k[1]), float(k[2]), float(K.factor) / nfft])
    return out


def cmp_kw(model_tok, rows, exact):
    m = parse_ratss(model_tok)
    if len(m) != len(rows):
        return f"number of k-points model={len(m)} code={len(rows)}"
    for i, (a, b) in enumerate(zip(m, rows)):
        for j in range(4):
            if exact:
                if a[j] != F(b[j]):
                    return f"k-point {i} field {j}: model={a[j]} code={b[j]!r}"
            elif abs(float(a[j]) - b[j]) > 1e-14:
                # a k-point at 1 - 1e-17 wraps to 0 in floats only when it is an exact integer; thirds never do
                return f"k-point {i} field {j}: model={float(a[j])!r} code={b[j]!r}"
    return None


def corr(ctx):
    rng = ctx.rng
    wb, get_cls, determineNK = _mods()
    B = g6.Batch()
    rs = np.random.RandomState(rng.getrandbits(31))
    system = small_system(rs)
    # --- a. (k, weight) lists of whole grids, all / some factorisations
    for it in range(ctx.n(14, 60)):
        N = [rng.choice([1, 2, 3, 4, 4, 6, 6, 8, 12] if ctx.tier == "thorough" else [1, 2, 3, 4, 4, 6]) for _ in range(3)]
        while np.prod(N) > ctx.n(150, 600):
            N[rng.randrange(3)] = rng.choice([1, 2, 3])
        facs = [factorisations(n) for n in N]
        combos = [(a, b, c) for a in facs[0] for b in facs[1] for c in facs[2]]
        rng.shuffle(combos)
        useSym = rng.random() < 0.3
        for (dx, fx), (dy, fy), (dz, fz) in combos[:ctx.n(3, 8)]:
            div, fft = [dx, dy, dz], [fx, fy, fz]
            desc = dict(kind="kw", N=N, div=div, fft=fft, useSym=useSym)
            with ctx.attempt("Grid + Data_K.kpoints_all", desc):
                if useSym:
                    gd, pg = g6.pick_case(rng)
                    if not (all(gd["periodic"]) and pg.symmetric_grid(div) and pg.symmetric_grid(fft)):
                        pg = g6.get_pg("1", [], np.diag([1.0, 1.25, 1.5]))
                        desc["group"] = "1"
                    else:
                        desc["group"] = gd["group"]
                    system.pointgroup = pg   # only the K-list reduction uses it
                else:
                    pg = g6.get_pg("1", [], np.diag([1.0, 1.25, 1.5]))
                    system.pointgroup = pg
                with quiet(), warnings.catch_warnings():
                    warnings.simplefilter("ignore")
                    grid = wb.Grid(system, NKdiv=np.array(div), NKFFT=np.array(fft))
                    kl = grid.get_K_list(use_symmetry=useSym)
                rows = code_kw(system, grid, kl)
                exact = all(g6.pow2(x) for x in div + fft)
                line = f"gridkw {g6.sym_tok(pg)} {ints(div)} {ints(fft)} {int(useSym)}"
                B.add(line, (lambda o, rows=rows, exact=exact: cmp_kw(o, rows, exact)), desc, "(k, weight) list")
                ctx.count(f"corr.kw.N={np.prod(N)}")
                ctx.count("corr.kw.sym" if useSym else "corr.kw.nosym")
                ctx.count("corr.kw.fft<recommended" if any(f < r for f, r in zip(fft, system.NKFFT_recommended)) else
                          "corr.kw.fft>=recommended")
                # dK_fullBZ
                K0 = kl[0]
                B.add(f"dkfull {rats([Fr(1, d) for d in div])} {ints(fft)}",
                      (lambda o, v=[float(x) for x in K0.dK_fullBZ]:
                       None if all(abs(float(a) - b) < 1e-15 for a, b in zip(parse_ratss(o)[0], v)) else f"model={o} code={v}"),
                      desc, "dK_fullBZ")
    system.pointgroup = g6.get_pg("1", [], np.diag([1.0, 1.25, 1.5]))
    # --- b. refined K-lists: children have K outside [0,1): the `% 1` matters
    for it in range(ctx.n(8, 40)):
        div = [rng.choice([1, 2, 4]) for _ in range(3)]
        fft = [rng.choice([1, 2, 3, 4]) for _ in range(3)]
        desc = dict(kind="kw-refined", div=div, fft=fft)
        with ctx.attempt("Data_K.kpoints_all of refined K-points", desc):
            with quiet(), warnings.catch_warnings():
                warnings.simplefilter("ignore")
                grid = wb.Grid(system, NKdiv=np.array(div), NKFFT=np.array(fft))
                kl = grid.get_K_list(use_symmetry=False)
                sel = sorted({rng.randrange(len(kl)) for _ in range(2)} | {0})
                nd = rng.choice([2, 2, 4])
                for i in sel:
                    kl += kl[i].divide(ndiv=np.array([nd] * 3), periodic=system.periodic, use_symmetry=False)
            sub = kl[-min(len(kl), 12):] + [kl[0]]
            rows = code_kw(system, grid, sub)
            B.add(f"listkw {g6.kl_tok(sub)} {ints(fft)}",
                  (lambda o, rows=rows, exact=all(g6.pow2(x) for x in fft): cmp_kw(o, rows, exact)), desc,
                  "(k, weight) list of refined K-points")
            ctx.count("corr.kw.refined")
    # --- c. determineNK
    pg1 = g6.get_pg("1", [], np.diag([1.0, 1.25, 1.5]))
    for it in range(ctx.n(40, 300)):
        periodic = [rng.random() < 0.85 for _ in range(3)]
        fft = [rng.choice([1, 2, 3, 4, 5]) for _ in range(3)]
        if rng.random() < 0.5:
            div = [rng.choice([1, 2, 3, 4, 6]) for _ in range(3)]
            args = dict(NKdiv=np.array(div), NKFFT=np.array(fft), NK=None)
            line = f"detnk {ints([int(p) for p in periodic])} {ints(div)} {ints(fft)} _"
        else:
            nk = [rng.choice([f * rng.randint(1, 4), rng.randint(1, 13)]) for f in fft]
            args = dict(NKdiv=None, NKFFT=np.array(fft), NK=np.array(nk))
            line = f"detnk {ints([int(p) for p in periodic])} _ {ints(fft)} {ints(nk)}"
        desc = dict(kind="determineNK", periodic=periodic, **{k: (None if v is None else v.tolist()) for k, v in args.items()})
        with ctx.attempt("determineNK", desc), warnings.catch_warnings():
            warnings.simplefilter("ignore")
            d, f = determineNK(np.array(periodic), NKFFT_recommended=np.array([3, 3, 3]), pointgroup=pg1, **args)
            want = f"{ints(d)};{ints(f)}"
            B.add(line, (lambda o, want=want: None if o == want else f"model={o} code={want}"), desc, "determineNK")
            ctx.count("corr.determineNK")
    # --- d. which grids determineNK accepts: the model's rule is `every specified grid is symmetric on its own`
    for it in range(ctx.n(40, 250)):
        gd, pg = g6.pick_case(rng)
        fft = [rng.choice([1, 2, 3, 4, 6]) for _ in range(3)]
        other = [rng.choice([1, 2, 3, 4, 6]) for _ in range(3)]
        r = rng.random()
        if r < 0.45:      # make the TOTAL grid symmetric while the factors are anisotropic in related directions
            a, b = rng.choice([(2, 3), (3, 2), (1, 6), (6, 1), (1, 2), (2, 1), (2, 2), (3, 3)])
            fft = [a, b, rng.choice([1, 2])]
            other = [b, a, rng.choice([1, 2])]
            if rng.random() < 0.3:
                fft, other = [fft[0], fft[2], fft[1]], [other[0], other[2], other[1]]
        elif r < 0.7:
            fft = [fft[0]] * 3
            other = [other[0], other[0], other[2]]
        if rng.random() < 0.6:
            args = dict(NKdiv=np.array(other), NKFFT=np.array(fft), NK=None)
            line = f"accept {g6.sym_tok(pg)} {ints(other)} {ints(fft)} _"
        else:
            nk = [o * f for o, f in zip(other, fft)]
            args = dict(NKdiv=None, NKFFT=np.array(fft), NK=np.array(nk))
            line = f"accept {g6.sym_tok(pg)} _ {ints(fft)} {ints(nk)}"
        desc = dict(kind="acceptance", group=gd["group"], lat=gd["lat"],
                    **{k: (None if v is None else v.tolist()) for k, v in args.items()})
        with ctx.attempt("determineNK acceptance", desc), warnings.catch_warnings():
            warnings.simplefilter("ignore")
            try:
                d, f = determineNK(np.array([True, True, True]), NKFFT_recommended=np.array([3, 3, 3]), pointgroup=pg, **args)
                got = "1"
            except AssertionError:
                got = "0"
            B.add(line, (lambda o, got=got: None if o == got else
                         f"acceptance differs: model rule (each specified grid symmetric)={o} determineNK={'accepts' if got == '1' else 'refuses'}"),
                  desc, "determineNK acceptance")
            ctx.count("corr.accept.accepted" if got == "1" else "corr.accept.refused")
            tot = [int(x) for x in (np.array(other) * np.array(fft))]
            if got == "0" and pg.symmetric_grid(tot):
                ctx.count("corr.accept.refused-although-total-grid-symmetric")
    B.run(ctx)


# ------------------------------------------------------------------------------------------------
# oracle

def full_system(rs, nw=3, lat=None, nR=8, max_R=2):
    """random Hermitian system with every real-space matrix the calculators may ask for"""
    from ..wbsys import hermitize, get_system_random
    np.random.seed(int(rs.randint(0, 2 ** 31 - 1)))
    with quiet(), warnings.catch_warnings():
        warnings.simplefilter("ignore")
        s = get_system_random(nw, nRvec=nR, max_R=max_R, real_lattice=np.diag([1.0, 1.25, 1.5]) if lat is None else lat,
                              berry=True, morb=True, spin=True, SHCryoo=True, SHCqiao=True, qmetric=True)
        hermitize(s)
    return s


def all_calculators(Ef, om):
    """{name: (constructor, is_static, is_tabulator)} for every concrete calculator class found by introspection"""
    with quiet():
        import wannierberri.calculators.static as st
        import wannierberri.calculators.dynamic as dy
        import wannierberri.calculators.tabulate as tb
    out = {}

    def concrete(mod, base):
        return [(n, c) for n, c in inspect.getmembers(mod, inspect.isclass)
                if issubclass(c, base) and c.__module__ == mod.__name__ and c is not base
                and not inspect.isabstract(c) and not n.startswith("_")]
    for n, c in concrete(st, st.StaticCalculator):
        out["static." + n] = (lambda tetra=False, c=c: c(Efermi=Ef, tetra=tetra), True, False)
    for n, c in concrete(dy, dy.DynamicCalculator):
        kw = dict(Efermi=Ef, omega=om)
        if "sc_eta" in inspect.signature(c.__init__).parameters:
            kw["sc_eta"] = 0.1
        out["dynamic." + n] = (lambda tetra=False, c=c, kw=kw: c(**kw), False, False)
    for n, c in concrete(tb, tb.Tabulator):
        out["tabulate." + n] = (lambda tetra=False, c=c: c(), False, True)
    return out


def result_arrays(res):
    """{key: ndarray} of a ResultDict (tabulated results: every quantity on the full grid)"""
    out = {}
    for key, r in res.results.items():
        if hasattr(r, "results") and hasattr(r, "kpoints"):   # TABresult
            for q, v in r.results.items():
                out[f"{key}/{q}"] = np.array(v.data)
            out[f"{key}/kpoints"] = np.array(r.kpoints)
        else:
            out[key] = np.array(r.data)
    return out


def do_run(system, div, fft, calcs, fftlib, tmp):
    wb = _mods()[0]
    with quiet(), warnings.catch_warnings():
        warnings.simplefilter("ignore")
        grid = wb.Grid(system, NKdiv=np.array(div), NKFFT=np.array(fft))
        cwd = os.getcwd()
        os.chdir(tmp)
        try:
            res = wb.run(system, grid, calcs, parallel=False, use_irred_kpt=False, symmetrize=False,
                         parameters_K=dict(fftlib=fftlib), print_progress_step_time=1e9,
                         fout_name=os.path.join(tmp, "r"))
        finally:
            os.chdir(cwd)
    return result_arrays(res)


_usable = {}


def usable_calculators(ctx, system, Ef, om):
    """try every calculator once on the toy system; the ones that cannot be built/evaluated go to the skip list"""
    key = id(system)
    if key in _usable:
        return _usable[key]
    cands = all_calculators(Ef, om)
    with quiet():
        import wannierberri.calculators.tabulate as tb
    ok, skipped = {}, {}
    with tempfile.TemporaryDirectory(prefix="c03") as tmp:
        for name, (mk, is_static, is_tab) in sorted(cands.items()):
            try:
                c = mk()
                if is_tab:
                    c = tb.TabulatorAll({name.split(".")[1]: c}, ibands=None)
                do_run(system, [1, 1, 1], [2, 1, 1], {"x": c}, "numpy", tmp)
                ok[name] = (mk, is_static, is_tab)
            except Exception as e:  # noqa
                skipped[name] = f"{type(e).__name__}: {str(e)[:90]}"
    _usable[key] = (ok, skipped)
    return ok, skipped


EXPENSIVE = {"static.GME_orb_FermiSurf", "static.NLDrude_Zeeman_orb", "tabulate.Der2OrbitalMoment",
             "tabulate.Der2BerryCurvature", "static.NLDrude_Zeeman_orb_Omega", "tabulate.DerOrbitalMoment",
             "static.eMChA_FermiSurf", "static.GME_orb_FermiSea"}


def oracle_runs(ctx, scale):
    rng = ctx.rng
    with quiet():
        import wannierberri.calculators.tabulate as tb
    Ef = np.linspace(-0.7, 0.9, 4)
    om = np.linspace(0.2, 1.6, 3)
    nsys = ctx.n(1, 2) * (1 if scale == 1 else 2)
    for isys in range(nsys):
        rs = np.random.RandomState(rng.getrandbits(31))
        lat = rng.choice([np.diag([1.0, 1.25, 1.5]), np.array([[1.0, 0.2, 0], [-0.1, 1.3, 0.3], [0.2, 0, 1.1]]),
                          np.array([[1.0, 0, 0], [-0.5, np.sqrt(3) / 2, 0], [0, 0, 1.4]])])
        case0 = dict(kind="run", lattice=lat, num_wann=3)
        with ctx.attempt("building the toy system / calculators", case0):
            system = full_system(rs, nw=3, lat=lat, max_R=rng.choice([1, 2]))
            ok, skipped = usable_calculators(ctx, system, Ef, om)
            if isys == 0:
                ctx.note(f"calculators found: {len(ok) + len(skipped)}; run: {len(ok)}; skipped (cannot be constructed/evaluated "
                         f"on the toy system): {skipped}")
                ctx.note(f"NKFFT_recommended of the toy system: {list(system.NKFFT_recommended)}")
        names = sorted(ok)
        if ctx.tier == "quick":
            cheap = [n for n in names if n not in EXPENSIVE]
            exp = [n for n in names if n in EXPENSIVE]
            # quick tier: a random half of the cheap calculators + one expensive one (every seed another sample;
            # the thorough tier runs all of them)
            names = sorted(rng.sample(cheap, min(24, len(cheap)))) + rng.sample(exp, min(1, len(exp)))
            ctx.note(f"quick tier sample of calculators: {names}")
        N = [rng.choice([3, 4, 6]) for _ in range(3)]
        N[rng.randrange(3)] = rng.choice([3, 4])
        if ctx.tier == "quick" and N.count(6) > 1:
            N[N.index(6)] = 4
        facs = [factorisations(n) for n in N]
        ref = ([n for n in N], [1, 1, 1])
        # the two EXTREME factorisations are always compared: the reference is NKdiv=N x NKFFT=(1,1,1), the first of the
        # others is the pure-FFT one NKdiv=(1,1,1) x NKFFT=N (run with both FFT libraries, tetra on and off)
        others = [([1, 1, 1], list(N))]
        for _ in range(ctx.n(1, 2)):
            for _try in range(20):
                c = [rng.choice(f) for f in facs]
                div, fft = [x[0] for x in c], [x[1] for x in c]
                if (div, fft) != ref and (div, fft) not in others and np.prod(fft) > 1:
                    others.append((div, fft))
                    break
        for tetra in (False, True):
            calcs = {}
            for n in names:
                mk, is_static, is_tab = ok[n]
                if tetra and (not is_static or n in EXPENSIVE):
                    continue     # tetra only applies to static calculators; the expensive ones are run without it only
                calcs[n] = mk(tetra=tetra)
            tabs = {n.split(".")[1]: calcs.pop(n) for n in list(calcs) if ok[n][2]}
            if tabs:
                calcs["tabulate"] = tb.TabulatorAll(tabs, ibands=None)
            if not calcs:
                continue
            with tempfile.TemporaryDirectory(prefix="c03") as tmp:
                case = dict(case0, N=N, tetra=tetra, reference=dict(div=ref[0], fft=ref[1], fftlib="numpy"))
                with ctx.attempt("run() reference", case):
                    base = do_run(system, ref[0], ref[1], calcs, "numpy", tmp)
                    first = None
                    for i, (div, fft) in enumerate(others):
                        fftlib = "fftw" if i % 2 == 0 else "numpy"
                        c2 = dict(case, div=div, fft=fft, fftlib=fftlib,
                                  fft_below_recommended=bool(any(f < r for f, r in zip(fft, system.NKFFT_recommended))))
                        with ctx.attempt("run()", c2):
                            got = do_run(system, div, fft, calcs, fftlib, tmp)
                            if i == 0:
                                first = got
                            compare_results(ctx, base, got, c2)
                            ctx.count(f"oracle.run.fftlib={fftlib}")
                            ctx.count("oracle.run.tetra" if tetra else "oracle.run.notetra")
                            ctx.count("oracle.run.fft<recommended" if c2["fft_below_recommended"] else
                                      "oracle.run.fft>=recommended")
                    # same factorisation, the other FFT library
                    if first is not None:
                        div, fft = others[0]
                        c3 = dict(case, div=div, fft=fft, fftlib="numpy vs fftw", reference=dict(div=div, fft=fft, fftlib="fftw"))
                        with ctx.attempt("run() fftlib", c3):
                            b = do_run(system, div, fft, calcs, "numpy", tmp)
                            compare_results(ctx, first, b, c3)
                            ctx.count("oracle.run.same-factorisation-other-fftlib")


def compare_results(ctx, base, got, case):
    for key in sorted(base):
        a, b = base[key], got.get(key)
        sig = (case["N"], tuple(case["div"]), tuple(case["fft"]), case["fftlib"], case["tetra"], key,
               float(np.abs(a).sum()))
        if b is None or a.shape != b.shape:
            ctx.case(signature=sig, nontrivial=True)
            ctx.fail(f"calculator {key}: result missing or of different shape for another factorisation", dict(case, calculator=key))
            continue
        scale = max(np.abs(a).max(), np.abs(b).max(), 1e-300)
        err = np.abs(a - b).max()
        ctx.case(signature=sig, nontrivial=bool(np.abs(a).max() > 0))
        ctx.count(f"oracle.calc.{key.split('/')[0].split('.')[0]}")
        if key.endswith("/kpoints"):
            if err > 1e-12:
                ctx.fail(f"tabulated k-points differ between factorisations by {err:.2e}", dict(case, calculator=key))
            continue
        if err > 1e-9 * scale:
            ctx.fail(f"calculator {key}: result changes by {err:.3e} (relative {err / scale:.2e}) between the factorisation "
                     f"div={case['reference']['div']} x fft={case['reference']['fft']} and div={case['div']} x fft={case['fft']} "
                     f"(fftlib={case['fftlib']}, tetra={case['tetra']})", dict(case, calculator=key))


def oracle_kset(ctx, scale):
    """the set of (k, weight) that the real Grid/Data_K objects produce is the full grid with weight 1/N, for every
    factorisation; and the per-k Hamiltonian from the folded FFT equals the one evaluated at that k directly"""
    rng = ctx.rng
    wb, get_cls, _ = _mods()
    rs = np.random.RandomState(rng.getrandbits(31))
    system = small_system(rs, lat=np.array([[1.0, 0.2, 0], [-0.1, 1.3, 0.3], [0.2, 0, 1.1]]), nw=3)
    cls = get_cls(system)
    for it in range(ctx.n(12, 60) * scale):
        N = [rng.choice([1, 2, 3, 4, 5, 6, 8]) for _ in range(3)]
        while np.prod(N) > 130:
            N[rng.randrange(3)] = rng.choice([1, 2])
        facs = [factorisations(n) for n in N]
        Ntot = int(np.prod(N))
        full = sorted((a / N[0], b / N[1], c / N[2]) for a in range(N[0]) for b in range(N[1]) for c in range(N[2]))
        for _ in range(2):
            c = [rng.choice(f) for f in facs]
            div, fft = [x[0] for x in c], [x[1] for x in c]
            fftlib = rng.choice(["numpy", "fftw"])
            case = dict(kind="kset", N=N, div=div, fft=fft, fftlib=fftlib)
            with ctx.attempt("Grid / Data_K", case), warnings.catch_warnings():
                warnings.simplefilter("ignore")
                with quiet():
                    grid = wb.Grid(system, NKdiv=np.array(div), NKFFT=np.array(fft))
                    kl = grid.get_K_list(use_symmetry=False)
                rows = code_kw(system, grid, kl, fftlib=fftlib)
                ctx.case(signature=("kset", tuple(N), tuple(div), tuple(fft)), nontrivial=len(kl) > 1 and np.prod(fft) > 1)
                ks = sorted((round(r[0], 12) % 1, round(r[1], 12) % 1, round(r[2], 12) % 1) for r in rows)
                if len(ks) != Ntot or np.abs(np.array(ks) - np.array(full)).max() > 1e-12:
                    ctx.fail("the k-points of all K-points are not the full grid (each point once)", case)
                if any(abs(r[3] - 1.0 / Ntot) > 1e-16 for r in rows):
                    ctx.fail("a k-point does not carry the weight 1/N", case)
                if any(not (0 <= x < 1) for r in rows for x in r[:3]):
                    ctx.fail("kpoints_all returns a k-point outside [0,1)", case)
                if not np.allclose(kl[0].dK_fullBZ, 1.0 / np.array(N), rtol=1e-15):
                    ctx.fail("dK_fullBZ is not 1/(div*fft)", case)
                # per-k Hamiltonian: FFT route (folded box, K-shift) against the direct evaluation at the same k
                K = rng.choice(kl)
                with quiet():
                    d1 = cls(system, dK=K.Kp_fullBZ, grid=grid, Kpoint=K, fftlib=fftlib)
                    H1 = np.array(d1.HH_K)
                    d2 = cls(system, k_list=np.array(d1.kpoints_all), grid=grid, Kpoint=K)
                    H2 = np.array(d2.HH_K)
                err = np.abs(H1 - H2).max()
                ctx.count("oracle.kset.fft<recommended" if any(f < r for f, r in zip(fft, system.NKFFT_recommended))
                          else "oracle.kset.fft>=recommended")
                if err > 1e-11 * max(1, np.abs(H2).max()):
                    ctx.fail(f"H(k) from the FFT (NKFFT={fft}, fftlib={fftlib}) differs from H evaluated at kpoints_all by {err:.2e}",
                             dict(case, K=K.K))


_HEX = lambda a, c: np.array([[a, 0, 0], [-a / 2, a * np.sqrt(3) / 2, 0], [0, 0, c]])   # noqa
SYM_KINDS = {
    "c4": (["C4z", "Mx", "Inversion", "TimeReversal"], lambda a, c: np.diag([a, a, c]), [(6, 6, 2), (4, 4, 2)]),
    "hex": (["C6z", "Mx", "Mz", "TimeReversal"], _HEX, [(6, 6, 2), (4, 4, 2)]),
    "cubic": (["C4z", "C4x", "Inversion", "TimeReversal"], lambda a, c: np.eye(3) * a, [(4, 4, 4), (6, 6, 6)]),
    # magnetic groups: rotation*TimeReversal WITHOUT inversion and without pure time reversal (k -> -Rk for those operations)
    "c3-magnetic": (["C3z", "C2y*TimeReversal"], _HEX, [(6, 6, 2), (3, 3, 2)]),
    "c4-magnetic": (["C4z", "Mx*TimeReversal"], lambda a, c: np.diag([a, a, c]), [(4, 4, 3), (6, 6, 3)]),
    "c3m-magnetic": (["C3z", "Mx*TimeReversal", "Mz"], _HEX, [(3, 3, 2), (6, 6, 1)]),
}


def symmetric_system(rng, kind, nw=2):
    """tight-binding model that really has the (magnetic) point group: s-like orbitals at the origin; a random Hermitian
    model on a set of R-vectors closed under the group and R -> -R is averaged over the group, where a unitary operation
    acts as H(R) -> H(gR) and one containing time reversal as H(R) -> conj H(gR)"""
    with quiet():
        from wannierberri.system.system_R import System_R
    gens, mklat, _ = SYM_KINDS[kind]
    A = mklat(rng.choice([1.0, 1.3]), rng.choice([1.6, 2.1]))
    pg = g6.get_pg("sym-" + kind, gens, A)
    Ainv = np.linalg.inv(A)
    ops = []
    for S in pg.symmetries:
        M = A @ (S.R * S.iInv).T @ Ainv
        assert np.abs(M - np.round(M)).max() < 1e-9
        ops.append((np.round(M).astype(int), bool(S.TR)))
    Rset = set()
    for seed in [(0, 0, 0), (1, 0, 0), (0, 0, 1), (1, 1, 0), (1, 0, 1), (2, 0, 0), (1, 1, 1), (2, 1, 0)]:
        for M, _ in ops:
            R = tuple(int(x) for x in np.array(seed) @ M)
            Rset.add(R)
            Rset.add(tuple(-x for x in R))
    for _ in range(2):   # close under the group
        Rset |= {tuple(int(x) for x in np.array(R) @ M) for R in Rset for M, _ in ops}
    rs = np.random.RandomState(rng.getrandbits(31))
    H0 = {}
    for R in sorted(Rset):
        if R in H0:
            continue
        h = (rs.uniform(-1, 1, (nw, nw)) + 1j * rs.uniform(-1, 1, (nw, nw))) * (1.0 if R == (0, 0, 0) else 0.4)
        mR = tuple(-x for x in R)
        if mR == R:
            h = (h + h.conj().T) / 2
        H0[R] = h
        H0[mR] = h.conj().T
    ham = {}
    for R in Rset:
        acc = np.zeros((nw, nw), dtype=complex)
        for M, tr in ops:
            h = H0[tuple(int(x) for x in np.array(R) @ M)]
            acc += h.conj() if tr else h
        acc /= len(ops)
        ham[R] = {(i, j): acc[i, j] for i in range(nw) for j in range(nw)}
    with quiet(), warnings.catch_warnings():
        warnings.simplefilter("ignore")
        system = System_R.from_sparse(real_lattice=A, wannier_centers_red=np.zeros((nw, 3)), matrices={"Ham": ham})
        system.set_pointgroup(gens)
    return system


def oracle_symmetric(ctx, scale):
    """systems whose point group mixes reciprocal axes, use_irred_kpt True and False: EVERY factorisation of a small grid
    must either be refused by Grid() or give the result of the reference (full grid, no FFT, no symmetry)"""
    rng = ctx.rng
    wb = _mods()[0]
    mag = [k for k in SYM_KINDS if "magnetic" in k]
    nonmag = [k for k in SYM_KINDS if "magnetic" not in k]
    kinds = list(SYM_KINDS) if ctx.tier == "thorough" else [rng.choice(nonmag), rng.choice(mag)]
    for kind in kinds * (1 if scale == 1 else 2):
        case0 = dict(kind="symmetric", lattice_kind=kind)
        with ctx.attempt("building a symmetric model", case0):
            system = symmetric_system(rng, kind)
        grids = SYM_KINDS[kind][2]
        N = rng.choice(grids) if ctx.tier == "quick" else None
        for N in ([N] if N else grids):
            facs = [factorisations(n) for n in N]
            combos = [(a, b, c) for a in facs[0] for b in facs[1] for c in facs[2]]
            limit = ctx.n(32, 64)
            if len(combos) > limit:
                rng.shuffle(combos)
                # keep the anisotropic ones with a symmetric total grid in the sample
                combos = combos[:limit]
            Ef = np.linspace(-2.5, 2.5, 9) + 0.01234 * rng.uniform(0.5, 1.5)
            with quiet():
                calcs = {"cumdos": wb.calculators.static.CumDOS(Efermi=Ef),
                         "ohmic": wb.calculators.static.Ohmic_FermiSea(Efermi=Ef),
                         "dos": wb.calculators.static.DOS(Efermi=Ef)}
            with tempfile.TemporaryDirectory(prefix="c03s") as tmp:
                def runit(div, fft, irred):
                    with quiet(), warnings.catch_warnings():
                        warnings.simplefilter("ignore")
                        grid = wb.Grid(system, NKdiv=np.array(div), NKFFT=np.array(fft))
                        cwd = os.getcwd()
                        os.chdir(tmp)
                        try:
                            res = wb.run(system, grid, calcs, parallel=False, use_irred_kpt=irred, symmetrize=irred,
                                         print_progress_step_time=1e9, fout_name=os.path.join(tmp, "r"))
                        finally:
                            os.chdir(cwd)
                    return result_arrays(res)
                case = dict(case0, N=list(N), group_size=system.pointgroup.size)
                with ctx.attempt("run() reference on a symmetric model", case):
                    ref = runit(list(N), [1, 1, 1], False)
                    for c in combos:
                        div, fft = [x[0] for x in c], [x[1] for x in c]
                        c2 = dict(case, div=div, fft=fft)
                        try:
                            with quiet(), warnings.catch_warnings():
                                warnings.simplefilter("ignore")
                                wb.Grid(system, NKdiv=np.array(div), NKFFT=np.array(fft))
                        except AssertionError:
                            ctx.count("oracle.sym.refused-by-Grid")
                            ctx.case(signature=("sym-refused", kind, tuple(N), tuple(div), tuple(fft)), nontrivial=False)
                            continue
                        aniso = len(set(div[:2])) > 1 or len(set(fft[:2])) > 1
                        ctx.count("oracle.sym.accepted-anisotropic" if aniso else "oracle.sym.accepted-isotropic")
                        for irred in (True, False):
                            c3 = dict(c2, use_irred_kpt=irred)
                            with ctx.attempt("run() on a symmetric model", c3):
                                got = runit(div, fft, irred)
                                for key in sorted(ref):
                                    a, b = ref[key], got[key]
                                    sc = max(np.abs(a).max(), 1e-300)
                                    err = np.abs(a - b).max()
                                    ctx.case(signature=("sym", kind, tuple(N), tuple(div), tuple(fft), irred, key),
                                             nontrivial=bool(np.abs(a).max() > 0))
                                    if err > 1e-9 * sc:
                                        ctx.fail(f"symmetric model ({kind}, group of {system.pointgroup.size}), grid {list(N)}: the "
                                                 f"ACCEPTED factorisation div={div} x fft={fft} (use_irred_kpt={irred}) changes "
                                                 f"{key} by {err:.3e} (relative {err / sc:.2e}) with respect to the full grid",
                                                 dict(c3, calculator=key))


def oracle(ctx, scale):
    oracle_kset(ctx, scale)
    oracle_symmetric(ctx, scale)
    oracle_runs(ctx, scale)


def replay(ctx, case):
    oracle(ctx, 1)
