"""C11 - restarting an interrupted refinement run reproduces the uninterrupted run, for every directory listing order."""
import contextlib
import glob as _glob
import itertools
import os
import shutil
import types
from fractions import Fraction as Fr

import numpy as np

from ..common import quiet, rats, ints, parse_rats, F
from . import _rungrid as rg
from . import c10
from ._rungrid import wb

PID = "C11"
CLAIM = dict(
    design="3/C11",
    technique="Lean 4 proof on a model of run()'s restart machinery (append-only K_list.pickle, factors files with an "
              "adversarial directory listing, read_factors, re-summation of result_all) layered on the C10 bookkeeping "
              "model, by invariants over arbitrary refinement policies; exact differential correspondence (read_factors "
              "under permuted glob listings; whole restart campaigns of the REAL run() replayed through the model and "
              "compared on saved results, factors files and pickled K-point weights); property oracle: real campaigns "
              "for all stopping points x splits x storage modes x listing orders vs the uninterrupted run",
    text="Theorems: (T1) the repaired read_factors loads the same (iteration, factors) for every re-ordering of the "
         "directory listing and every `iter`, and iter=-1 loads the largest iteration present; the original code provably "
         "depends on the order (listing 0,2,1 restarts from 1). (T2) for every refinement policy (any function of the "
         "K-point list), initial list, storage mode memory/dump, every n1, n2 and every listing order: restarting from "
         "the files of an n1-iteration run and running n2 more iterations succeeds and ends in exactly the state of the "
         "uninterrupted n1+n2 run (K-point list, weights, result_all), writes exactly its saved results for iterations "
         "n1+1..n1+n2, leaves an identical K_list.pickle and the same set of factors files; (T2') the same for any split "
         "of the remaining iterations into several restarts with a re-shuffled listing before each. (T3) any amount of "
         "in-memory state that is not written to the restart files is harmless as long as the refinement decision does not "
         "read it, and a decision that reads it provably breaks equivalence. (T4) equivalence for the concrete selection "
         "rule of run() (per criterion the adpt_fac last positions of argsort(max|result| x weight), union, then any "
         "division/merging) for EVERY argsort function; on tie-free scores all admissible argsorts select the same "
         "points, on ties two admissible argsorts provably select different ones; padding the score array with zero "
         "scores (stale points of a restart from an earlier iteration) does not change the selection when the positive "
         "scores are pairwise different and at least adpt_fac of them exist. Storage names under restarts: see C10.",
    note="Trusted: Lean kernel + Mathlib; the harness (glob.glob patched in the harness process to permute the listing). "
         "Pickle round trips, the file system, Result arithmetic and the determinism of the real selection/merging code "
         "are exercised on the real run() only. Restarts from an EARLIER iteration (restart_iteration != -1, stale "
         "points revived by exclude_equiv_points) are outside the theorems and covered by the oracle only.",
)
TRUSTED = [
    "regenerated on every run: `chooseIterGen` is produced from the LIVE source of read_factors by an AST translator "
    "(harness/props/_translate.py; fragment: int arithmetic/comparisons, a[-1], a[a <= x], `in`, np.sort/np.array/list "
    "comprehension over glob.glob) and the kernel re-checks order independence for it and its definitional equality with "
    "the hand model; the translator itself is trusted; outside the fragment the hand model is used (evidence note)",
    "modelled: run() restart branch (reload of K_list.pickle, read_factors incl. the negative-index arithmetic and the "
    "`closest previous` fallback, zero padding, set_factor, result_all = sum get_result_factor, the no-op pass i_iter=0 "
    "that rewrites the factors file and saves nothing), append of K_list[nk_prev:nk] to K_list.pickle, write_factors, "
    "savedata numbering i_iter + start_iter; np.sort as insertion sort",
    "the refinement decision is an arbitrary function `Policy` of the K-point list as the model sees it (values, weights, "
    "flags, order); the real decision also reads immutable geometric attributes that are pickled with each K-point",
    "setFactors truncates a factors vector that is longer than K_list (the code would raise ValueError: negative "
    "dimensions); unreachable, K_list.pickle only grows and every factors file is at most as long as the list",
    "selection rule: `crit` (result.max as a function of the stored result), `argsort` (any function) and `expand` "
    "(division + symmetry merging of the selected points) are parameters; np.argsort's behaviour on ties is NOT assumed "
    "stable - the tie-free theorem and the tie counterexample delimit what can be expected of restarts from an earlier "
    "iteration, whose arrays contain additional stale zero-weight entries (checked on the real code only)",
    "not modelled (oracle only): pickle/np.save round trips, Klist_part chunking, remove_dir, restart_iteration != -1 "
    "with revival of stale points, float rounding of the re-summed result_all (exact on dyadic weights x integer results)",
]
RULE = ("campaigns = (configuration, number of iterations N <= 4 (5 thorough), stopping point, composition of the remaining "
        "iterations, storage mode allow_restart|dump_results, listing order identity|reversed|rotated|random, Klist_part); "
        "non-trivial = the campaign contains at least one restart after which K-points were added or old weights changed; "
        "read_factors cases: random sets of iteration numbers (gaps, missing 0) x iter in -7..6 x random listing")


# ------------------------------------------------------------------------------------------------
# patched directory listing

@contextlib.contextmanager
def listing_order(order, rng=None):
    """make wannierberri.run_grid.glob.glob return its matches in a chosen order"""
    real = _glob.glob

    def fake(pattern, *a, **kw):
        out = sorted(real(pattern, *a, **kw))
        if order == "reversed":
            out = out[::-1]
        elif order == "rotated":
            out = out[1:] + out[:1]
        elif order == "random":
            rng.shuffle(out)
        elif order == "maxfirst":
            out = out[-1:] + out[:-1]
        return out
    old = rg.run_grid.glob
    rg.run_grid.glob = types.SimpleNamespace(glob=fake)
    try:
        yield
    finally:
        rg.run_grid.glob = old


ORDERS = ("identity", "reversed", "rotated", "random", "maxfirst")


def compositions(n):
    """all ordered ways of writing n >= 1 as a sum of positive integers"""
    if n == 0:
        return [[]]
    out = []
    for first in range(1, n + 1):
        for rest in compositions(n - first):
            out.append([first] + rest)
    return out


# ------------------------------------------------------------------------------------------------
# correspondence 1: read_factors vs chooseIter

def corr_read_factors(ctx):
    rng = ctx.rng
    d = rg.scratch("c11rf")
    lines, expect, cases = [], [], []
    for it in range(ctx.n(150, 1500)):
        m = rng.randint(0, 7)
        present = sorted(rng.sample(range(0, 9), m)) if m else []
        if present and rng.random() < 0.6 and 0 not in present:
            present = [0] + present[1:]
        for f in _glob.glob(os.path.join(d, "factors_iter-*.npy")):
            os.remove(f)
        for i in present:
            rg.run_grid.write_factors(d, np.array([float(i), 0.5]), i)
        order = list(present)
        rng.shuffle(order)
        iter_ = rng.randint(-7, 6)
        case = dict(present=present, listing=order, iter=iter_)

        def fake(pattern, _order=order):
            return [os.path.join(d, f"factors_iter-{i:08d}.npy") for i in _order]
        old = rg.run_grid.glob
        rg.run_grid.glob = types.SimpleNamespace(glob=fake)
        try:
            try:
                got_i, fac = rg.run_grid.read_factors(d, iter_)
                got = str(int(got_i)) if int(fac[0]) == int(got_i) else f"wrong-content:{got_i}:{fac[0]}"
            except IndexError:
                got = "IndexError"
            except FileNotFoundError as e:
                got = "missing:" + os.path.basename(e.filename).split("-")[-1].split(".")[0].lstrip("0").rjust(1, "0")
        finally:
            rg.run_grid.glob = old
        lines.append(f"choose 1 {ints(order)} {iter_}")
        expect.append((got, present))
        cases.append(case)
        ctx.count("corr.read_factors.iter<0" if iter_ < 0 else "corr.read_factors.iter>=0")
        ctx.count("corr.read_factors.listing_sorted" if order == present else "corr.read_factors.listing_permuted")
    rg.cleanup()

    def check(out):
        for l, o, (got, present), c in zip(lines, out, expect, cases):
            ctx.case(signature=l, nontrivial=c["iter"] < 0 and c["listing"] != c["present"])
            want = o
            if o not in ("IndexError", "bad-op") and int(o) not in present:
                want = f"missing:{int(o)}"       # the model chose an iteration whose file does not exist
            if got != want:
                ctx.mismatch(f"read_factors: code -> {got}, model -> {want}", dict(c, line=l))
    return lines, check


# ------------------------------------------------------------------------------------------------
# real campaigns

def run_campaign(cfg, store, d, tag, n, more, order, rng, keys, klist_part=10, restart_iteration=-1):
    """first call with n iterations, then one restarted call per entry of `more` (glob listing permuted).
    Returns dict(saved={iteration: {key: array}} as written by the call that performed it, returned=[...per call],
    kl=path, calls=[(first_iter, last_iter)])"""
    saved, returned, calls = {}, [], []
    extra = dict(Klist_part=klist_part)
    res, pre, kl = c10.do_run(cfg, store, d, tag, niter=n, extra=extra)
    for t in range(n + 1):
        saved[t] = {k: np.array(rg.load_saved(pre, k, t), dtype=float) for k in keys}
    returned.append({k: np.array(res.results[k].data, dtype=float) for k in keys})
    calls.append((0, n))
    done = n
    for m in more:
        for f in _glob.glob(pre + "-*_iter-*.npz"):
            os.remove(f)
        with listing_order(order, rng):
            res, pre, kl = c10.do_run(cfg, store, d, tag, niter=m,
                                      extra=dict(extra, restart=True, restart_iteration=restart_iteration))
        written = sorted(int(f.split("_iter-")[-1].split(".")[0]) for f in _glob.glob(pre + f"-{keys[0]}_iter-*.npz"))
        if not (set(range(done + 1, done + m + 1)) <= set(written) <= set(range(done, done + m + 1))):
            return dict(error=f"restarted call #{len(calls)} wrote results for iterations {written}, "
                              f"expected {list(range(done + 1, done + m + 1))}", kl=kl)
        for t in written:
            saved[t] = {k: np.array(rg.load_saved(pre, k, t), dtype=float) for k in keys}
        returned.append({k: np.array(res.results[k].data, dtype=float) for k in keys})
        calls.append((done + 1, done + m))
        done += m
    return dict(saved=saved, returned=returned, kl=kl, calls=calls)


def pickled_factors(kl):
    return [float(k.factor) for k in rg.read_klist(kl)]


# ------------------------------------------------------------------------------------------------
# correspondence 2: whole campaigns, real run() vs model

def corr_campaign(ctx):
    rng = ctx.rng
    d = rg.scratch("c11corr")
    lines, checks = [], []
    for it in range(ctx.n(8, 60)):
        cfg = c10.rand_config(rng, dyadic=True, real_calc=False)
        cfg["calcs"] = ("hash",) if rng.random() < 0.5 else ("hash", "peak")
        N = rng.randint(1, 4)
        cfg["adpt_num_iter"] = N
        store = rng.choice(["restart", "dump"])
        n = rng.randint(0, N - 1)
        more = rng.choice(compositions(N - n))
        order = rng.choice(ORDERS)
        key = "hash"
        case = dict(cfg, store=store, first=n, more=more, listing=order)
        with ctx.attempt("campaign (traced uninterrupted run + restarted runs)", case):
            tr = c10.Trace()
            res, pre, kl = c10.do_run(cfg, store, d, "fresh", trace=tr)
            if tr.problems:
                ctx.mismatch("event tracing lost track of K_list: " + tr.problems[0], case)
                continue
            K = tr.K_list
            val = c10.values_of(K, kl, key)
            rs, fs, its, changed, bad = c10.protocol_of_trace(tr, K, val)
            fresh = dict(saved=[float(np.ravel(rg.load_saved(pre, key, t))[0]) for t in range(N + 1)],
                         klog=pickled_factors(kl), facs=rg.read_all_factors(kl))
            camp = run_campaign(cfg, store, d, "split", n, more, order, rng, [key], klist_part=rng.choice([1, 3, 10]))
            if "error" in camp:
                ctx.fail(camp["error"], case)
                continue
            split = dict(saved=[float(np.ravel(camp["saved"][t][key])[0]) for t in range(N + 1)],
                         klog=pickled_factors(camp["kl"]), facs=rg.read_all_factors(camp["kl"]),
                         last_call=camp["calls"][-1], final=float(np.ravel(camp["returned"][-1][key])[0]))
            shuf = {"identity": "id", "reversed": "rev", "rotated": "rot", "random": "rev", "maxfirst": "rot"}[order]
            mode = "dump" if store == "dump" else "memory"
            lines.append(f"campaign {mode} {rats(rs)} {rats(fs)} {'|'.join(its) if its else '_'} {n} {ints(more)} {shuf}")
            checks.append(dict(case=case, fresh=fresh, split=split, N=N))
            ctx.count(f"corr.campaign.store={store}")
            ctx.count(f"corr.campaign.restarts={len(more)}")
            ctx.count(f"corr.campaign.listing={order}")
    rg.cleanup()

    def parse_run(s):
        ra, facs, saved, klog, files, it, err = s.split("@")
        return dict(ra=None if ra == "None" else Fr(ra), factors=parse_rats(facs),
                    saved=[(int(e.split(":")[0]), Fr(e.split(":")[1])) for e in saved.split(",")] if saved != "_" else [],
                    klog=parse_rats(klog),
                    files={int(e.split(":")[0]): parse_rats(e.split(":")[1]) for e in files.split(";")} if files != "_" else {},
                    iter=int(it), err=err)

    def check(out):
        for l, o, c in zip(lines, out, checks):
            case = c["case"]
            ctx.case(signature=l, nontrivial=True)
            parts = o.split(" ")
            if o == "bad-op" or len(parts) != 2 or parts[1] == "FAILED":
                ctx.mismatch(f"model campaign returned {o[-60:]}", dict(case, line=l[:300]))
                continue
            for name, mr, real in (("uninterrupted", parse_run(parts[0]), c["fresh"]), ("restarted", parse_run(parts[1]), c["split"])):
                what = None
                if mr["err"] != "0" or mr["iter"] != c["N"]:
                    what = f"model err={mr['err']} iter={mr['iter']}"
                elif [F(x) for x in real["klog"]] != mr["klog"]:
                    what = "weights pickled in K_list.pickle differ from the model's log"
                elif sorted(real["facs"]) != sorted(mr["files"]) or any(
                        [F(x) for x in real["facs"][t]] != mr["files"][t] for t in real["facs"]):
                    what = "factors files differ from the model's"
                else:
                    for t, v in mr["saved"]:
                        if F(real["saved"][t]) != v:
                            what = f"result saved after iteration {t}: code {real['saved'][t]!r} model {float(v)!r}"
                            break
                    if name == "restarted" and what is None:
                        if [t for t, _ in mr["saved"]] != list(range(real["last_call"][0], real["last_call"][1] + 1)):
                            what = f"last call saved iterations {real['last_call']} but the model's last call {[t for t, _ in mr['saved']]}"
                        elif mr["ra"] != F(real["final"]):
                            what = f"returned result {real['final']!r} differs from the model's {float(mr['ra'])!r}"
                if what:
                    ctx.mismatch(f"{name} campaign: {what}", dict(case, line=l[:300]))
                    break
        if lines:
            ctx.sample(dict(protocol_line=lines[0][:300], model=out[0][:300]))
    return lines, check


def corr_selection(ctx):
    """the model's selectPoints (stable argsort) vs the K-points the REAL run() divided, on the Kmax rows rebuilt from
    the restart files; compared when the non-zero scores of every criterion are pairwise different (T4'), and then
    on the selected points of non-zero weight (zero-weight ones leave no trace)"""
    rng = ctx.rng
    d = rg.scratch("c11sel")
    lines, checks = [], []
    for it in range(ctx.n(6, 40)):
        cfg = c10.merge_heavy(it, niter=3) if it % 3 == 0 else c10.rand_config(rng, real_calc=False)
        cfg["calcs"] = ("peak",) if it % 2 == 0 else cfg["calcs"]
        if cfg["calcs"] == ("peak",):
            cfg["width"] = 0.3
        cfg["adpt_num_iter"] = min(cfg["adpt_num_iter"], 3)
        with ctx.attempt("run for the selection correspondence", cfg):
            res, pre, kl = c10.do_run(cfg, "restart", d, "sel")
            K = rg.read_klist(kl)
            facs = rg.read_all_factors(kl)
            for t in range(cfg["adpt_num_iter"]):
                f0, f1 = facs[t], facs[t + 1]
                n = len(f0)
                rows = np.array([K[i]._max * f0[i] for i in range(n)]).T
                tie = any(len(set(r[r != 0])) != int(np.sum(r != 0)) for r in rows) or \
                    any(int(np.sum(r > 0)) < cfg["adpt_fac"] for r in rows)
                ctx.count("corr.selection.ties_or_too_few_live_points(skipped)" if tie else "corr.selection.tie_free")
                if tie:
                    continue
                lines.append(f"select {cfg['adpt_fac']} {';'.join(rats(r) for r in rows)}")
                checks.append(dict(case=dict(cfg, iteration=t), f0=f0,
                                   divided=sorted(int(i) for i in range(n) if f0[i] != 0 and f1[i] == 0)))
    rg.cleanup()

    def check(out):
        for l, o, c in zip(lines, out, checks):
            ctx.case(signature=l[:2000], nontrivial=True)
            sel = sorted(i for i in (int(x) for x in o.split(",")) if c["f0"][i] != 0) if o not in ("_", "bad-op") else []
            if o == "bad-op" or sel != c["divided"]:
                ctx.mismatch(f"selection rule: the model selects {sel}, run() divided {c['divided']}", dict(c["case"], line=l[:300]))
    return lines, check


def tables(ctx):
    """regenerate `chooseIter` from the live source of read_factors (AST translator) and let the kernel re-check T1 for
    the regenerated definition; fall back to the hand model when the source leaves the translator's fragment"""
    from ..common import REPO
    from . import _translate as T
    try:
        definition, info = T.translate_read_factors(REPO)
    except T.OutsideFragment as e:
        ctx.note(f"translator: read_factors left the supported Python fragment ({e}); the hand-written model chooseIter "
                 f"is used and tied to the code by the correspondence check only")
        ctx.count("tables.read_factors.fallback_to_hand_model")
        return
    header = "import WB.Props.C11\nnamespace WB.C11\nnamespace Gen\n"
    ths = [
        ("gen_order_independent",
         "theorem gen_order_independent (l1 l2 : List Nat) (h : l1.Perm l2) (iter : Int) :\n"
         "    chooseIterGen l1 iter = chooseIterGen l2 iter := by\n"
         "  unfold chooseIterGen\n  simp only [sortNat_eq_of_perm h]\n"),
        ("gen_eq_hand",
         "theorem gen_eq_hand (lst : List Nat) (iter : Int) : chooseIterGen lst iter = chooseIter true lst iter := by\n"
         "  first\n    | rfl\n    | (unfold chooseIterGen chooseIter; simp)\n"),
        ("gen_eq_original",
         "theorem gen_eq_original (lst : List Nat) (iter : Int) : chooseIterGen lst iter = chooseIter false lst iter := by\n"
         "  first\n    | rfl\n    | (unfold chooseIterGen chooseIter; simp)\n"),
    ]
    res, out = T.check_generated(ctx, "GenC11.lean", header, definition, ths)
    if res is None:
        ctx.note("translator: the regenerated chooseIterGen did not compile; hand model used. " + out[-300:].replace("\n", " | "))
        ctx.count("tables.read_factors.fallback_to_hand_model")
        return
    ctx.count("tables.read_factors.regenerated")
    if res["gen_order_independent"]:
        T.record(ctx, "Gen.gen_order_independent(chooseIterGen from live read_factors)", True)
        if res["gen_eq_hand"]:
            T.record(ctx, "Gen.gen_eq_hand(chooseIterGen = chooseIter true)", True)
            ctx.note("translator: chooseIterGen regenerated from the live read_factors is definitionally equal to the hand "
                     "model; T1 (order independence) re-proved for the regenerated definition")
        else:
            ctx.note("translator: chooseIterGen regenerated from the live read_factors differs from the hand model, but T1 "
                     "(order independence) was re-proved for it; the other theorems rest on the correspondence check")
    else:
        why = "it equals the ORIGINAL rule (listing order used as is), for which old_read_factors_depends_on_listing is a " \
              "proved counterexample" if res["gen_eq_original"] else "see the regenerated definition"
        T.record(ctx, "Gen.gen_order_independent(chooseIterGen from live read_factors)", False,
                 f"the definition regenerated from the live read_factors is NOT independent of the listing order: {why}")


def corr(ctx):
    l1, chk1 = corr_read_factors(ctx)
    l2, chk2 = corr_campaign(ctx)
    l3, chk3 = corr_selection(ctx)
    out = ctx.lean(l1 + l2 + l3)
    chk1(out[:len(l1)])
    chk2(out[len(l1):len(l1) + len(l2)])
    chk3(out[len(l1) + len(l2):])


# ------------------------------------------------------------------------------------------------
# oracle: the property on the real run()

def compare_to_fresh(ctx, fresh, camp, keys, hist, exact, what, case):
    """every result saved / returned by the campaign equals the uninterrupted run's result of that iteration"""
    for t in sorted(camp["saved"]):
        for k in keys:
            a, b = fresh["saved"][t][k], camp["saved"][t][k]
            tol = 0.0 if (exact and k == "hash") else 1e-13 * hist[k]
            if a.shape != b.shape or np.abs(a - b).max() > tol:
                ctx.fail(f"{what}: result '{k}' of iteration {t} differs from the uninterrupted run by "
                         f"{np.abs(a - b).max() if a.shape == b.shape else 'shape'} (tolerance {tol:.1e})",
                         dict(case, iteration=t, uninterrupted=a, restarted=b))
                return False
    for (first, last), ret in zip(camp["calls"], camp["returned"]):
        for k in keys:
            tol = 0.0 if (exact and k == "hash") else 1e-13 * hist[k]
            if np.abs(ret[k] - fresh["saved"][last][k]).max() > tol:
                ctx.fail(f"{what}: the call that ended at iteration {last} returned a '{k}' that differs from the "
                         f"uninterrupted run's by {np.abs(ret[k] - fresh['saved'][last][k]).max()}", case)
                return False
    return True


def oracle(ctx, scale):
    rng = ctx.rng
    d = rg.scratch("c11orc")
    nheavy = ctx.n(3, 5)
    nconf = nheavy + ctx.n(6, 14) * scale
    for it in range(nconf):
        heavy = it < nheavy
        cfg = c10.rand_config(rng, real_calc=False)
        if heavy:
            # fixed merge-heavy configurations (evaluated old K-points gain weight, then more iterations follow), 4
            # iterations, EVERY stopping point and EVERY split of the remaining iterations; they always run first
            cfg = c10.merge_heavy(it, niter=4)
        elif it % 2 == 1:
            # a smooth, wide peak and one refined point per criterion: no ties between refinement criteria, so that the
            # restart-from-an-earlier-iteration stream below is not cut short by np.argsort tie-breaking
            cfg.update(calcs=("peak",), adpt_fac=1, width=0.3, peak=[0.11, 0.2, 0.0 if cfg["system"].startswith("haldane") else 0.3137])
        N = 4 if heavy else (rng.choice([2, 3, 4]) if ctx.tier == "quick" else rng.choice([2, 3, 4, 4, 5]))
        cfg["adpt_num_iter"] = N
        store = ["restart", "dump"][it % 2] if heavy else rng.choice(["restart", "dump"])
        keys = list(cfg["calcs"])
        exact = cfg["dyadic"]
        base = dict(cfg, store=store)
        fresh = None
        with ctx.attempt("uninterrupted run", base):
            fresh = run_campaign(cfg, store, d, "fresh", N, [], "identity", rng, keys)
            hist = c10.history_magnitude(fresh["kl"], keys)
            fresh_fac = rg.read_all_factors(fresh["kl"])
            fresh_nk = len(rg.read_klist(fresh["kl"]))
            grew = any(len(fresh_fac[t]) > len(fresh_fac[t - 1]) or np.any(fresh_fac[t][:len(fresh_fac[t - 1])] != fresh_fac[t - 1])
                       for t in range(1, N + 1))
            fresh["ok"] = True
            for t in range(1, N + 1):
                added, moved, gained, revived = c10.weight_events(fresh_fac, t)
                ctx.count("oracle.uninterrupted.evaluated_points_with_weight_gained_weight", gained)
            check_selection(ctx, fresh["kl"], cfg, N, "uninterrupted run", base)
        if fresh is None or not fresh.get("ok"):
            continue
        # all stopping points x compositions of the rest (sampled in the quick tier) x listing orders
        plans = [(n, comp_) for n in range(0, N) for comp_ in compositions(N - n)]
        rng.shuffle(plans)
        if heavy:
            ctx.count("oracle.merge_heavy_configurations(all splits)")
        elif ctx.tier == "quick":
            plans = plans[:4]
        elif len(plans) > 10:
            plans = plans[:10]
        for n, more in plans:
            order = rng.choice(ORDERS)
            case = dict(base, first=n, more=more, listing=order, restart_iteration=-1)
            with ctx.attempt("restart campaign", case):
                camp = run_campaign(cfg, store, d, "split", n, more, order, rng, keys, klist_part=rng.choice([1, 2, 10]))
                ctx.case(signature=str(sorted((k, str(v)) for k, v in case.items())), nontrivial=grew)
                ctx.count(f"oracle.listing={order}")
                ctx.count(f"oracle.store={store}")
                ctx.count(f"oracle.restarts={len(more)}")
                if "error" in camp:
                    ctx.fail(camp["error"], case)
                    continue
                if not compare_to_fresh(ctx, fresh, camp, keys, hist, exact, "restart", case):
                    continue
                fac = rg.read_all_factors(camp["kl"])
                if sorted(fac) != sorted(fresh_fac) or any(len(fac[t]) != len(fresh_fac[t]) or np.any(fac[t] != fresh_fac[t]) for t in fac):
                    ctx.fail("restart: the factors files differ from those of the uninterrupted run", case)
                elif len(rg.read_klist(camp["kl"])) != fresh_nk:
                    ctx.fail(f"restart: K_list.pickle holds {len(rg.read_klist(camp['kl']))} K-points, the uninterrupted "
                             f"run's holds {fresh_nk}", case)
                else:
                    check_selection(ctx, camp["kl"], cfg, N, "restarted campaign", case)
                    if store == "dump":
                        c10.check_own_files(ctx, camp["kl"], cfg, "restarted campaign (dump_results)", case)
        # restart from an EARLIER iteration (restart_iteration given explicitly or negative).  Outside the property
        # statement and the theorems: the K-point list then contains stale zero-weight points, np.argsort may break
        # ties between equal refinement criteria differently, and the redone iterations may legitimately refine other
        # points.  What must hold in any case: iteration numbering, total weight, and - whenever the redone
        # iteration ends with the same live K-points and weights as the uninterrupted one - the same results.
        if N >= 2:
            back = rng.randint(1, N - 1)
            k0 = N - back
            rit = rng.choice([k0, -(back + 1)])
            order = rng.choice(ORDERS)
            case = dict(base, first=N, restart_iteration=rit, resumes_from=k0, more=[back], listing=order)
            with ctx.attempt("restart from an earlier iteration", case):
                fresh_live = {t: live_set(fresh["kl"], t) for t in range(N + 1)}
                camp = run_campaign_earlier(cfg, store, d, "early", N, k0, back, rit, order, rng, keys)
                ctx.case(signature=str(sorted((k, str(v)) for k, v in case.items())), nontrivial=grew)
                ctx.count("oracle.earlier.campaigns")
                if "error" in camp:
                    ctx.fail(camp["error"], case)
                    continue
                for t in range(k0 + 1, N + 1):
                    live = live_set(camp["kl"], t)
                    w0, w1 = sum(fresh_live[t].values()), sum(live.values())
                    if abs(w0 - w1) > 1e-12:
                        ctx.fail(f"restart from an earlier iteration: total weight after iteration {t} is {w1!r}, "
                                 f"uninterrupted run has {w0!r}", dict(case, iteration=t))
                        break
                    if live != fresh_live[t]:
                        ctx.count("oracle.earlier.iterations_diverged_by_tie_breaking")
                        break
                    ctx.count("oracle.earlier.iterations_same_live_points")
                    sub = dict(saved={t: camp["saved"][t]}, calls=[], returned=[])
                    if not compare_to_fresh(ctx, fresh, sub, keys, hist, False, "restart from an earlier iteration "
                                            "(same live K-points and weights as the uninterrupted run)", case):
                        break
    rg.cleanup()


def check_selection(ctx, kl, cfg, N, what, case):
    """independent of any comparison between runs: the K-points refined after iteration t must be the ones the
    documented rule selects - for every criterion the adpt_fac largest values of  max|result| x weight  - recomputed
    here from the restart files (the pickled per-K maxima and factors_iter-t).  Observable part: the selected points
    of non-zero weight are exactly the old points whose weight dropped to zero in iteration t+1."""
    K = rg.read_klist(kl)
    facs = rg.read_all_factors(kl)
    for t in range(0, N):
        if t not in facs or t + 1 not in facs:
            continue
        f0, f1 = facs[t], facs[t + 1]
        n = len(f0)
        Kmax = np.array([K[i]._max * f0[i] for i in range(n)]).T
        expected = set().union(*(np.argsort(Km)[-cfg["adpt_fac"]:] for Km in Kmax))
        expected_live = sorted(int(i) for i in expected if f0[i] != 0)
        divided = sorted(int(i) for i in range(n) if f0[i] != 0 and f1[i] == 0)
        ctx.count("oracle.selection_rule.iterations_checked")
        if divided != expected_live:
            ctx.fail(f"{what}: the K-points refined after iteration {t} are {divided}, but the adpt_fac largest "
                     f"max|result| x weight (recomputed from the restart files) select {expected_live}",
                     dict(case, iteration=t))
            return False
    return True


def live_set(kl, t):
    """{(K-point coordinates, refinement level): weight} of the points with non-zero weight after iteration t"""
    K = rg.read_klist(kl)
    fac = rg.read_all_factors(kl)[t]
    out = {}
    for kp, f in zip(K, fac):
        if f != 0:
            key = (tuple(np.round(np.array(kp.K, dtype=float) * 2 ** 24).astype(np.int64).tolist()), int(kp.refinement_level))
            out[key] = out.get(key, 0.0) + float(f)
    return out


def run_campaign_earlier(cfg, store, d, tag, N, k0, back, rit, order, rng, keys):
    """N iterations, then restart from iteration k0 < N and redo the `back` last iterations"""
    res, pre, kl = c10.do_run(cfg, store, d, tag, niter=N)
    for f in _glob.glob(pre + "-*_iter-*.npz"):
        os.remove(f)
    with listing_order(order, rng):
        res, pre, kl = c10.do_run(cfg, store, d, tag, niter=back, extra=dict(restart=True, restart_iteration=rit))
    written = sorted(int(f.split("_iter-")[-1].split(".")[0]) for f in _glob.glob(pre + f"-{keys[0]}_iter-*.npz"))
    if not (set(range(k0 + 1, N + 1)) <= set(written) <= set(range(k0, N + 1))):
        return dict(error=f"restart from iteration {k0} wrote results for iterations {written}, expected "
                          f"{list(range(k0 + 1, N + 1))}")
    saved = {t: {k: np.array(rg.load_saved(pre, k, t), dtype=float) for k in keys} for t in written}
    return dict(saved=saved, returned=[{k: np.array(res.results[k].data, dtype=float) for k in keys}], calls=[(k0 + 1, N)], kl=kl)


def replay(ctx, case):
    for fl in case.get("failures", []):
        print("recorded failure:", fl["what"])
        print("  case:", str({k: v for k, v in fl["case"].items() if k not in ("uninterrupted", "restarted")})[:1500])
    corr(ctx)
    oracle(ctx, 1)
    for m in ctx.mismatches[:3]:
        print("MODEL/CODE MISMATCH:", m["what"][:500])
        ctx.failures.append(m)
