"""C06 - K-point weights partition the Brillouin zone for every grid, point group and refinement history."""
import itertools
import os
import signal
import tempfile
import warnings
from fractions import Fraction as Fr

import numpy as np

from ..common import F, rats, ints, intss, ratss, parse_ratss, quiet

PID = "C06"
CLAIM = dict(
    design="3/C06",
    technique="Lean 4 proof over an exact (rational) model of Grid.get_K_list / KpointBZparallel.divide / equiv / "
              "exclude_equiv_points / the refinement step of run() / GridTetra start + split loops / KpointBZtetra.divide, "
              "tied to the code by exact in-order comparison of the K-point lists after every step of random histories, "
              "plus a property oracle on the code's own objects",
    text="Theorems, for EVERY list of symmetry operations (group or not), every grid with positive sizes, every "
         "periodicity mask, with and without symmetry reduction: get_K_list returns non-negative weights that sum to 1 "
         "(getKList_total); for every sequence of calls on one grid object the object is unchanged and each call returns "
         "getKList(group, div, use_symmetry) - a function of its own arguments only (getKList_call_history; the harness "
         "replays call histories with both orders of use_symmetry, refinement of the returned lists in between and run() "
         "reusing the grid, on Grid and GridTetra); if the list of operations is a GROUP (contains identity, inverses and products as maps on reduced "
         "vectors) and the grid passes the symmetric-grid test, each retained point carries |orbit|/N and every grid point "
         "lies in the star of exactly one retained point (getKList_orbit_cover_of_group, via orbitHyp_of_groupHyp; the "
         "executable forms groupCheck / orbitCheck are run on the code's own point groups); for every "
         "ndiv>0 the children of divide() tile the parent's half-open cell (existence and uniqueness) and carry the "
         "parent's weight, the parent keeps weight 0 (divide_tiles, divide_conserves, refineOne_conserves); "
         "exclude_equiv_points conserves the total weight for any equivalence test and any ordering/grouping of the "
         "float pre-filter (excludeEquiv_conserves), never deletes or moves an old point (excludeEquiv_keeps_old), and for "
         "an equivalence relation returns exactly the first point of every class with the summed class weight "
         "(excludeEquiv_spec); by induction over arbitrary refinement histories the weights stay "
         ">= 0 and sum to 1 (history_invariant); the re-weighting at a restart of run() (stored factors padded with "
         "zeros) keeps the stored total and kills every later point, and without the padding weight is gained "
         "(restart_weights, restart_total_one, restart_without_padding_gains_weight; restart histories of real run() are "
         "replayed by the oracle).  Tetrahedra: the five default tetrahedra cover the cell, lie inside it, "
         "have disjoint interiors and volumes/weights 1/6,1/6,1/6,1/6,1/3 (five_tetra_*); default weights are "
         "volume/total (initTets_weights); every piece of an edge split (any edge, any ndiv>0) has 1/ndiv of the volume "
         "and weight and keeps the absolute vertex positions (divideTet_volume, divideTet_vertices), and the pieces tile the "
         "parent: closed parent = union of closed pieces, interiors pairwise disjoint for a non-degenerate parent "
         "(divideTet_tiles); the split loops "
         "conserve total weight and volume for any break test/selection/edge choice (splitLoop_conserves).",
    note="Trusted: Lean kernel + Mathlib; the harness.  The float pre-filter of exclude_equiv_points (distGamma walls) and "
         "SYMMETRY_PRECISION are modelled as exact tests; the longest-edge choice of KpointBZtetra is modelled with exact "
         "squared lengths (ties exact).  Not proved: unconditional termination of split_tetra_size (split_tetra_volume terminates; for the size "
         "loop only splitSize_terminates_of_contraction under a stated geometric contraction hypothesis, and "
         "splitLoop_fuel_irrelevant: extra fuel never changes a finished result), and that "
         "the float pre-filter of exclude_equiv_points puts equivalent points into one group (hypothesis hcov of "
         "excludeEquiv_spec; the key distGamma is modelled by distGammaSq: distGamma_is_true_distance / "
         "distGamma_equal_for_equivalent when the search box contains the minimiser, narrow_box_splits_equivalent_points "
         "for a box of +-1 on a sheared basis - this piece is tied to the code by the oracle on sheared lattices only; "
         "exercised by the correspondence).  run()'s own selection of points is exercised through real run() calls in the oracle.",
)
TRUSTED = [
    "modelled: PointSymmetry.transform_reduced_vector, PointGroup.star, Grid.get_K_list, KpointBZparallel.absorb/equiv/"
    "divide, exclude_equiv_points, the divide+merge step of run(), GridTetra start/weights/split loops, "
    "KpointBZtetra.__init__/divide/size/i_max_edge, tetra_volume",
    "symmetry operations enter the model as the integer reduced matrices + Inv/TR flags read from the code's own PointGroup",
    "idealised: distGamma pre-filter (argsort + 1e-4 walls) as one group in index order; 1e-6 tolerances as exact tests "
    "(inputs are generated with margins >= 1e-3 from every tolerance)",
    "checked, not modelled: run()'s choice of the points to refine, pickling of K-points, GridTrigonal",
]
RULE = ("cases = (point group from generators on a compatible lattice - reduced or in a non-reduced/sheared basis -, grid, symmetry on/off, periodicity mask, random "
        "refinement history of 0-6 steps with random meshes and selected indices; call histories of 3-6 get_K_list calls "
        "with varying (use_symmetry, k_batch) on ONE Grid / GridTetra object with refinement of the returned lists in "
        "between, pairs of run() calls on one Grid, and restart histories of run(): a stored run followed by 1-3 chained "
        "restarts from an earlier / negative / the latest iteration with 0-2 further refinements, with and without "
        "symmetry and dump_results); non-trivial = the group has more than "
        "one element or the history has at least one step; distinct = distinct (group, lattice, grid, flags, history) / "
        "distinct protocol line")

SQ3 = np.sqrt(3.0)

# ------------------------------------------------------------------------------------------------
# the code's own objects


def _wb():
    with quiet():
        from wannierberri.symmetry.point_symmetry import PointGroup
        from wannierberri.grid.grid import Grid
        from wannierberri.grid.Kpoint import KpointBZparallel, exclude_equiv_points
        from wannierberri.grid.grid_tetra import GridTetra, GridTrigonal, tetra_volume
        from wannierberri.grid.Kpoint_tetra import KpointBZtetra
    return dict(PointGroup=PointGroup, Grid=Grid, KP=KpointBZparallel, excl=exclude_equiv_points, GridTetra=GridTetra,
                GridTrigonal=GridTrigonal, tetra_volume=tetra_volume, KT=KpointBZtetra)


class ToySystem:
    """the attributes of a System that Grid / GridTetra read"""

    def __init__(self, pg, periodic=(True, True, True), fft=(1, 1, 1)):
        self.pointgroup = pg
        self.periodic = np.array(periodic, dtype=bool)
        self.NKFFT_recommended = np.array(fft)
        self.real_lattice = pg.real_lattice
        self.recip_lattice = pg.recip_lattice


def lattice(kind, rng, shear=True):
    """lattice of the given kind; with probability 0.35 in a NON-REDUCED (sheared) basis of the same lattice:
    a2 += m3 a1, a3 += m1 a1 + m2 a2 with small integers - a valid but skewed cell, the point group stays compatible"""
    A = _lattice(kind, rng)
    if shear and rng.random() < 0.35:
        U = np.eye(3)
        U[1, 0] = rng.randint(-2, 2)
        U[2, 0] = rng.randint(-2, 2)
        U[2, 1] = rng.randint(-2, 2)
        A = U @ A
    return A


def _lattice(kind, rng):
    a, b, c = rng.choice([1.0, 1.25, 1.5]), rng.choice([1.0, 1.25, 1.75]), rng.choice([1.5, 2.0, 1.125])
    if kind == "cubic":
        return np.eye(3) * a
    if kind == "tetra":
        return np.diag([a, a, c])
    if kind == "ortho":
        return np.diag([a, b + 0.5, c + 1])
    if kind == "mono":
        return np.array([[a, 0, 0], [0.25 * rng.choice([-1, 1, 2]), b, 0], [0, 0, c]])
    if kind == "tric":
        return np.array([[a, 0.25, 0], [-0.25, b, 0.5], [0.125, -0.25, c]])
    if kind == "hex":
        return np.array([[a, 0, 0], [-a / 2, a * SQ3 / 2, 0], [0, 0, c]])
    if kind == "bcc":
        return np.array([[-1, 1, 1], [1, -1, 1], [1, 1, -1]]) * a / 2
    if kind == "fcc":
        return np.array([[0, 1, 1], [1, 0, 1], [1, 1, 0]]) * a / 2
    raise ValueError(kind)


TR = "TimeReversal"
GROUPS = [
    ("1", [], ["tric", "hex", "cubic"]),
    ("-1", ["Inversion"], ["tric", "mono"]),
    ("1'", [TR], ["tric"]),
    ("-1'", ["Inversion*" + TR], ["tric"]),
    ("2/m", ["C2z", "Mz"], ["mono", "ortho"]),
    ("2'/m'", ["C2z*" + TR, "Mz*" + TR], ["mono"]),
    ("mmm", ["Mx", "My", "Mz"], ["ortho", "tetra"]),
    ("m'm'm", ["Mx*" + TR, "My*" + TR, "Mz"], ["ortho"]),
    ("4/mmm", ["C4z", "Mx", "Mz"], ["tetra", "cubic"]),
    ("4/mm'm'", ["C4z", "Mz", "Mx*" + TR], ["tetra"]),
    ("m-3m", ["C4z", "C4x", "Inversion"], ["cubic", "bcc", "fcc"]),
    ("m-3m'", ["C4z", "C4x", "Inversion*" + TR], ["cubic"]),
    ("6/mmm", ["C6z", "Mx", "Mz"], ["hex"]),
    ("6/mm'm'", ["C6z", "Mz", "Mx*" + TR], ["hex"]),
    ("3m", ["C3z", "Mx"], ["hex"]),
    ("3m'", ["C3z", "Mx*" + TR], ["hex"]),
]
_pg_cache = {}


def get_pg(name, gens, lat):
    key = (name, lat.tobytes())
    if key not in _pg_cache:
        with quiet():
            _pg_cache[key] = _wb()["PointGroup"](list(gens), real_lattice=lat)
    return _pg_cache[key]


def red_mats(pg):
    """integer matrices of the proper parts in reduced reciprocal coordinates + flags, read from the code's group"""
    out = []
    B = pg.recip_lattice
    Binv = np.linalg.inv(B)
    for S in pg.symmetries:
        M = B @ S.R.T @ Binv
        Mi = np.round(M)
        if np.abs(M - Mi).max() > 1e-8:
            raise ValueError("symmetry is not integer in reduced coordinates")
        out.append((Mi.astype(int), bool(S.Inv), bool(S.TR)))
    return out


def sym_tok(pg):
    return intss([list(M.flatten()) + [int(i), int(t)] for M, i, t in red_mats(pg)])


def full_mats(pg):
    """signed integer matrices: k' = k @ M"""
    return [M * ((-1 if i else 1) * (-1 if t else 1)) for M, i, t in red_mats(pg)]


def pick_case(rng, big=False):
    name, gens, kinds = rng.choice(GROUPS)
    kind = rng.choice(kinds)
    lat = lattice(kind, rng)
    pg = get_pg(name, gens, lat)
    periodic = [True, True, True]
    if abs(lat[1, 0]) + abs(lat[2, 0]) + abs(lat[2, 1]) > 0.6:
        kind = kind + "+skewed"
    if rng.random() < 0.15:
        periodic[rng.randrange(3)] = False
    sizes = [1, 2, 3, 4, 4, 2, 6] + ([8, 5] if big else [])
    for _ in range(200):
        div = [rng.choice(sizes) for _ in range(3)]
        if rng.random() < 0.6:
            div = [div[0]] * 3
        elif rng.random() < 0.5:
            div = [div[0], div[0], div[2]]
        div = [d if p else 1 for d, p in zip(div, periodic)]
        if np.prod(div) > (512 if big else 100):
            continue
        if pg.symmetric_grid(div):
            break
    else:
        div = [1, 1, 1]
    return dict(group=name, gens=gens, kind=kind, lat=lat, periodic=periodic, div=div), pg


def make_grid(pg, div, periodic):
    s = ToySystem(pg, periodic)
    with quiet(), warnings.catch_warnings():
        warnings.simplefilter("ignore")
        g = _wb()["Grid"](s, NKdiv=np.array(div), NKFFT=np.array([1, 1, 1]))
    return s, g


def kp_row(K):
    return [float(x) for x in K.K] + [float(x) for x in K.dK] + [float(K.factor), int(K.refinement_level)]


def kl_tok(kl):
    """K-points as exact input for the model: the floats are the nearest doubles of small rationals (thirds, sixths,
    dyadics); the model gets the rational itself, so that the code's 1e-6 tests and the model's exact tests agree"""
    return ratss([[Fr(x).limit_denominator(100000) for x in kp_row(K)] for K in kl])


def cmp_klist(model_tok, kl, exact):
    """model K-list token vs list of real K-points; in order"""
    rows = parse_ratss(model_tok)
    if len(rows) != len(kl):
        return f"length model={len(rows)} code={len(kl)}"
    tol = 0 if exact else 1e-12
    for i, (r, K) in enumerate(zip(rows, kl)):
        c = kp_row(K)
        if int(r[7]) != c[7]:
            return f"point {i}: level model={r[7]} code={c[7]}"
        for j in range(7):
            if exact:
                if r[j] != F(c[j]):
                    return f"point {i} field {j}: model={r[j]} code={c[j]!r}"
            elif abs(float(r[j]) - c[j]) > tol * (1 + abs(c[j])):
                return f"point {i} field {j}: model={float(r[j])!r} code={c[j]!r}"
    return None


def pow2(n):
    return n & (n - 1) == 0


NDIVS = [(2, 2, 2)] * 6 + [(3, 3, 3), (2, 2, 1), (1, 2, 2), (2, 1, 3), (4, 4, 4), (1, 1, 2), (3, 2, 2), (2, 2, 4)]


def rand_history(rng, nsteps, same_mesh=None):
    ops = []
    for _ in range(nsteps):
        nd = same_mesh or rng.choice(NDIVS)
        ops.append([list(nd), rng.randint(1, 3), rng.random()])
    return ops


def choose_sel(rng, n, l_old, count, bias):
    """indices to refine: distinct; biased to Gamma (index 0), to the newest points and sometimes to dead points"""
    sel = set()
    for _ in range(count):
        r = rng.random()
        if r < 0.2:
            sel.add(0)
        elif r < 0.6 and l_old < n:
            sel.add(rng.randrange(l_old, n))
        else:
            sel.add(rng.randrange(n))
    return sorted(sel)


def run_history(grid, sys_, useSym, ops_spec, rng, on_step=None, maxlen=350):
    """the refinement glue of run() applied to the real objects; returns (states, ops actually applied)"""
    wbm = _wb()
    with quiet():
        kl = grid.get_K_list(use_symmetry=useSym)
    states = [list(kl)]
    if on_step:
        on_step("init", None, kl, None)
    ops = []
    l_prev = 0
    for nd, cnt, _ in ops_spec:
        if len(kl) > maxlen:
            break
        sel = choose_sel(rng, len(kl), l_prev, cnt, None)
        l1 = len(kl)
        before = [(K, float(K.factor)) for K in kl]
        with quiet():
            for iK in sel:
                kl += kl[iK].divide(ndiv=np.array(nd), periodic=sys_.periodic, use_symmetry=useSym)
            mid = [(K, float(K.factor)) for K in kl]
            if useSym:
                wbm["excl"](kl, new_points=len(kl) - l1)
        ops.append((list(nd), sel))
        l_prev = l1
        states.append(list(kl))
        if on_step:
            on_step("step", (nd, sel, l1, before, mid), kl, None)
    return states, ops


# ------------------------------------------------------------------------------------------------
# correspondence


class Batch:
    """all protocol lines of the correspondence go to the Lean model in one process"""

    def __init__(self):
        self.items = []

    def add(self, line, check, case, what):
        self.items.append((line, check, case, what))

    def run(self, ctx):
        out = ctx.lean([it[0] for it in self.items])
        for (line, check, case, what), o in zip(self.items, out):
            ctx.case(signature=line, nontrivial=True)
            msg = "model rejected the line" if o == "bad-op" else check(o)
            if msg:
                ctx.mismatch(f"{what}: {msg}", dict(case, line=line[:300]))
        if self.items:
            ctx.sample(dict(protocol_line=self.items[0][0][:400], model=out[0][:300]))
            ctx.sample(dict(protocol_line=self.items[-1][0][:400], model=out[-1][:300]))


def corr(ctx):
    B = Batch()
    corr_hist(ctx, B)
    corr_star_equiv(ctx, B)
    corr_divide_excl(ctx, B)
    corr_tetra(ctx, B)
    corr_run(ctx, B)
    B.run(ctx)


def corr_hist(ctx, B):
    rng = ctx.rng
    # --- get_K_list + histories on every group
    ncases = ctx.n(22, 120)
    for it in range(ncases):
        desc, pg = pick_case(rng, big=(ctx.tier == "thorough" and it % 4 == 0))
        if it < len(GROUPS):   # make sure every group occurs
            name = GROUPS[it][0]
            for _ in range(60):
                d2, pg2 = pick_case(rng)
                if d2["group"] == name:
                    desc, pg = d2, pg2
                    break
        useSym = rng.random() < 0.85
        nsteps = rng.choice([0, 1, 2, 2, 3, 4] if ctx.tier == "quick" else [0, 1, 2, 3, 4, 5, 6])
        if np.prod(desc["div"]) * pg.size > 1500:
            nsteps = min(nsteps, 2)
        spec = rand_history(rng, nsteps)
        case = dict(kind="hist", group=desc["group"], gens=desc["gens"], lat=desc["lat"], div=desc["div"],
                    periodic=desc["periodic"], useSym=useSym)
        with ctx.attempt("Grid.get_K_list / divide / exclude_equiv_points", case):
            s, g = make_grid(pg, desc["div"], desc["periodic"])
            _, ops = run_history(g, s, useSym, spec, rng)   # dry run: fixes the selected indices
            case["ops"] = ops
            case["div"] = [int(d) for d in g.div]
            exact = all(pow2(int(d)) for d in g.div) and all(pow2(n) for nd, _ in ops for n in nd)
            line = (f"hist {sym_tok(pg)} {ints(g.div)} {int(useSym)} {ints([int(p) for p in desc['periodic']])} "
                    f"{intss([nd + sel for nd, sel in ops])}")
            ctx.count(f"corr.hist.group={desc['group']}")
            ctx.count(f"corr.hist.steps={len(ops)}")
            ctx.count("corr.hist.exact" if exact else "corr.hist.rounded")
            ctx.count("corr.hist.sym" if useSym else "corr.hist.nosym")
            if not all(desc["periodic"]):
                ctx.count("corr.hist.nonperiodic-direction")
            # the real history is run again and compared with the model right after every step (factors are mutated
            # by later steps, so the comparison cannot be postponed)
            B.add(line, (lambda o, case=case: replay_hist_against_model(ctx, case, o)), case, "history")
    # --- repeated calls on ONE Grid object (both orders of use_symmetry, the returned lists are refined/spoiled in
    #     between): the model is a pure function of (group, div, use_symmetry), every call must reproduce it
    for it in range(ctx.n(8, 40)):
        desc, pg = pick_case(rng)
        first = rng.random() < 0.5
        calls = [first, not first] + [rng.random() < 0.5 for _ in range(rng.randint(0, 2))]
        case = dict(kind="reuse-corr", group=desc["group"], gens=desc["gens"], lat=desc["lat"], div=desc["div"],
                    periodic=desc["periodic"], calls=[bool(c) for c in calls])
        with ctx.attempt("repeated Grid.get_K_list on one Grid object", case):
            s, g = make_grid(pg, desc["div"], desc["periodic"])
            exact = all(pow2(int(d)) for d in g.div)
            keep = []
            for i, us in enumerate(calls):
                with quiet():
                    kl = g.get_K_list(use_symmetry=us, k_batch=rng.choice([None, 3, 50]))
                rows = []
                for K in kl:
                    o = _K()
                    o.K, o.dK, o.factor, o.refinement_level = np.array(K.K), np.array(K.dK), float(K.factor), K.refinement_level
                    rows.append(o)
                B.add(f"klist {sym_tok(pg)} {ints(g.div)} {int(us)}",
                      (lambda o, rows=rows, exact=exact: cmp_klist(o, rows, exact)), dict(case, call=i, use_symmetry=bool(us)),
                      f"get_K_list call {i} on a reused Grid")
                ctx.count("corr.reuse.calls")
                keep.append(kl)
                abuse_list(rng, kl, s, us)
    # --- the group hypotheses of the orbit theorem hold for the code's own groups (executable check in the model)
    for name, gens, kinds in GROUPS:
        for kind in kinds[:ctx.n(1, 3)]:
            lat = lattice(kind, rng)
            pg = get_pg(name, gens, lat)
            for div in ([2, 2, 2], [4, 4, 2], [3, 3, 2], [4, 4, 4], [3, 3, 3], [2, 3, 4], [6, 6, 2]):
                if pg.symmetric_grid(div) and np.prod(div) * pg.size <= ctx.n(400, 1600):
                    ctx.count("corr.orbit-hypotheses-checked")
                    B.add(f"grouphyp {sym_tok(pg)} {ints(div)}",
                          (lambda o: None if o == "1" else "the GROUP hypotheses of getKList_orbit_cover_of_group (identity, "
                           "inverses, products, symmetric grid) FAIL"),
                          dict(group=name, kind=kind, div=div), "group hypotheses on the code's own point group")
                    B.add(f"orbithyp {sym_tok(pg)} {ints(div)}",
                          (lambda o: None if o == "1" else "the group hypotheses of getKList_orbit_cover FAIL"),
                          dict(group=name, kind=kind, div=div), "orbit hypotheses on the code's own point group")
                    break


def replay_hist_against_model(ctx, case, model_out):
    """re-run the real history of `case` and compare with the model's states right after each step"""
    pg = get_pg(case["group"], case["gens"], np.array(case["lat"]))
    s, g = make_grid(pg, case["div"], case["periodic"])
    parts = model_out.split("|")
    exact = all(pow2(int(d)) for d in g.div) and all(pow2(n) for nd, _ in case["ops"] for n in nd)
    wbm = _wb()
    with quiet():
        kl = g.get_K_list(use_symmetry=case["useSym"])
    if len(parts) != len(case["ops"]) + 1:
        return f"number of states model={len(parts)} code={len(case['ops']) + 1}"
    msg = cmp_klist(parts[0], kl, exact)
    if msg:
        return "get_K_list: " + msg
    for istep, (nd, sel) in enumerate(case["ops"]):
        l1 = len(kl)
        with quiet():
            for iK in sel:
                kl += kl[iK].divide(ndiv=np.array(nd), periodic=s.periodic, use_symmetry=case["useSym"])
            if case["useSym"]:
                wbm["excl"](kl, new_points=len(kl) - l1)
        msg = cmp_klist(parts[istep + 1], kl, exact)
        if msg:
            return f"after step {istep + 1} (ndiv={nd}, sel={sel}): " + msg
    return None


def dy(rng, den=8, lo=-8, hi=16):
    return Fr(rng.randint(lo, hi), den)


def corr_star_equiv(ctx, B):
    rng = ctx.rng
    wbm = _wb()
    for it in range(ctx.n(30, 150)):
        desc, pg = pick_case(rng)
        st = sym_tok(pg)
        mats = full_mats(pg)
        k = [rng.choice([Fr(0), Fr(1, 2), Fr(1, 4), dy(rng), dy(rng, 16)]) for _ in range(3)]
        kf = np.array([float(x) for x in k])
        case = dict(kind="star", group=desc["group"], lat=desc["lat"], k=kf)
        with ctx.attempt("PointGroup.star", case):
            got = pg.star(kf).tolist()

            def chk(o, got=got):
                rows = parse_ratss(o)   # rows in order; float matmul noise (1e-13) allowed
                ok = len(rows) == len(got) and all(abs(float(x) - y) < 1e-13 for r, q in zip(rows, got) for x, y in zip(r, q))
                return None if ok else f"model={o[:200]} code={str(got)[:200]}"
            B.add(f"star {st} {rats(k)}", chk, case, "PointGroup.star")
        # equiv: b = image of a (+ lattice vector) or unrelated, same or different level
        a = kf
        r = rng.random()
        if r < 0.5:
            M = mats[rng.randrange(len(mats))]
            b = a @ M + np.array([rng.randint(-2, 2) for _ in range(3)])
        elif r < 0.7:
            b = a + np.array([float(dy(rng, 8, -2, 2)) for _ in range(3)])
        else:
            b = np.array([float(dy(rng)) for _ in range(3)])
        la, lb = rng.choice([(0, 0), (1, 1), (2, 2), (1, 2), (0, 1)])
        dK = np.array([0.25, 0.25, 0.5])
        Ka = wbm["KP"](K=a, dK=dK, NKFFT=np.ones(3), factor=0.125, pointgroup=pg, refinement_level=la)
        Kb = wbm["KP"](K=b, dK=dK, NKFFT=np.ones(3), factor=0.25, pointgroup=pg, refinement_level=lb)
        case = dict(kind="equiv", group=desc["group"], lat=desc["lat"], a=a, b=b, levels=(la, lb))
        with ctx.attempt("KpointBZparallel.equiv", case):
            got = "1" if Ka.equiv(Kb) else "0"
            B.add(f"equiv {st} {kl_tok([Ka])} {kl_tok([Kb])}",
                  (lambda o, got=got: None if o == got else f"model={o} code={got}"), case, "KpointBZparallel.equiv")
            ctx.count("corr.equiv.true" if got == "1" else "corr.equiv.false")


def corr_divide_excl(ctx, B):
    rng = ctx.rng
    wbm = _wb()
    for it in range(ctx.n(30, 150)):
        desc, pg = pick_case(rng)
        st = sym_tok(pg)
        mats = full_mats(pg)
        useSym = rng.random() < 0.8
        periodic = [rng.random() < 0.85 for _ in range(3)]
        K0 = np.array([float(rng.choice([Fr(0), Fr(1, 2), Fr(1, 4), dy(rng)])) for _ in range(3)])
        dK = np.array([float(Fr(1, rng.choice([1, 2, 4, 8]))) for _ in range(3)])
        if rng.random() < 0.5:
            dK[:] = dK[0]
        nd = [rng.choice([1, 2, 2, 2, 3, 4]) for _ in range(3)]
        if rng.random() < 0.6:
            nd = [nd[0]] * 3
        fac = float(Fr(rng.randint(0, 16), 64))
        lev = rng.randint(0, 3)
        Kp = wbm["KP"](K=K0, dK=dK, NKFFT=np.ones(3), factor=fac, pointgroup=pg, refinement_level=lev)
        case = dict(kind="divide", group=desc["group"], lat=desc["lat"], K=K0, dK=dK, factor=fac, ndiv=nd,
                    periodic=periodic, useSym=useSym)
        with ctx.attempt("KpointBZparallel.divide", case):
            line = f"divide {st} {int(useSym)} {ints([int(p) for p in periodic])} {kl_tok([Kp])} {ints(nd)}"
            with quiet():
                ch = Kp.divide(ndiv=np.array(nd), periodic=np.array(periodic), use_symmetry=useSym)
            if Kp.factor != 0:
                ctx.fail("divide() leaves a non-zero factor on the divided point", case)
            exact = all(pow2(n) for n in nd)
            B.add(line, (lambda o, ch=list(ch), exact=exact: cmp_klist(o, ch, exact)), case, "KpointBZparallel.divide")
            ctx.count("corr.divide.exact" if exact else "corr.divide.rounded")
        # exclude_equiv_points on an explicit list: old irreducible points + new points that are images / copies
        s, g = make_grid(pg, desc["div"], desc["periodic"])
        with quiet():
            old = g.get_K_list(use_symmetry=True)
        if len(old) > 40:
            continue
        new = []
        lvl = rng.choice([0, 0, 1])
        for _ in range(rng.randint(1, 6)):
            r = rng.random()
            if r < 0.5 and (new or lvl == 0):
                src = rng.choice(new + (old if lvl == 0 else []))
                M = mats[rng.randrange(len(mats))]
                Kn = src.K @ M + np.array([rng.randint(-1, 1) for _ in range(3)])
            else:
                Kn = np.array([float(dy(rng, 16)) for _ in range(3)])
            new.append(wbm["KP"](K=Kn, dK=old[0].dK, NKFFT=np.ones(3), factor=float(Fr(rng.randint(0, 8), 32)),
                                 pointgroup=pg, refinement_level=lvl))
        kl = old + new
        npnt = rng.choice([len(new), len(new), None])
        if npnt is None and any(Ki.equiv(Kj) for i, Ki in enumerate(old) for Kj in old[i + 1:]):
            continue
        case = dict(kind="excl", group=desc["group"], lat=desc["lat"], div=desc["div"], new=[kp_row(K) for K in new],
                    new_points=npnt)
        with ctx.attempt("exclude_equiv_points", case):
            line = f"excl {st} {kl_tok(kl)} {len(kl) if npnt is None else npnt}"
            with quiet():
                wbm["excl"](kl, new_points=npnt)
            exact = all(pow2(int(d)) for d in g.div)
            B.add(line, (lambda o, kl=list(kl), exact=exact: cmp_klist(o, kl, exact)), case, "exclude_equiv_points")
            ctx.count("corr.excl.all-new" if npnt is None else "corr.excl.old+new")


# ---- tetrahedra ---------------------------------------------------------------------------------

def tet_row(K):
    return ([float(x) for x in K.K] + [float(x) for v in K.vertices for x in v] +
            [float(K.factor), int(K.refinement_level), int(K.split_level)])


def tets_tok(kl):
    return ratss([tet_row(K) for K in kl])


def cmp_tets(model_tok, kl, tol=1e-13):
    rows = parse_ratss(model_tok)
    if len(rows) != len(kl):
        return f"length model={len(rows)} code={len(kl)}"
    for i, (r, c) in enumerate(zip(rows, kl)):
        for j in range(18):
            if abs(float(r[j]) - c[j]) > tol * (1 + abs(c[j])):
                return f"tetrahedron {i} field {j}: model={float(r[j])!r} code={c[j]!r}"
    return None


def rat_lattice(rng):
    """real lattice with small rational entries; returns (float array, exact Gram of inv(A)^T rows) """
    kind = rng.choice(["cubic", "tetra", "ortho", "tric"])
    a, b, c = [Fr(rng.choice([4, 5, 6, 8]), 4) for _ in range(3)]
    if kind == "cubic":
        A = [[a, 0, 0], [0, a, 0], [0, 0, a]]
    elif kind == "tetra":
        A = [[a, 0, 0], [0, a, 0], [0, 0, c + 1]]
    elif kind == "ortho":
        A = [[a, 0, 0], [0, b + Fr(1, 2), 0], [0, 0, c + 1]]
    else:
        A = [[a, Fr(1, 4), 0], [Fr(-1, 4), b, Fr(1, 2)], [Fr(1, 8), Fr(-1, 4), c]]
    return kind, A


def inv3(A):
    (a, b, c), (d, e, f), (g, h, i) = A
    det = a * (e * i - f * h) - b * (d * i - f * g) + c * (d * h - e * g)
    adj = [[e * i - f * h, c * h - b * i, b * f - c * e],
           [f * g - d * i, a * i - c * g, c * d - a * f],
           [d * h - e * g, b * g - a * h, a * e - b * d]]
    return [[x / det for x in row] for row in adj]


def gram_tok(A, fft):
    """Gram matrix of the rows of recip_lattice_reduced / (2 pi):  rows of inv(A)^T divided by FFT"""
    Ai = inv3(A)
    B = [[Ai[j][i] / fft[i] for j in range(3)] for i in range(3)]   # B[i] = column i of inv(A) = row i of inv(A)^T
    G = [[sum(B[i][k] * B[j][k] for k in range(3)) for j in range(3)] for i in range(3)]
    return rats([G[0][0], G[0][1], G[0][2], G[1][1], G[1][2], G[2][2]]), G


def corr_tetra(ctx, B):
    rng = ctx.rng
    wbm = _wb()

    def addt(line, rows, case):
        B.add(line, (lambda o, rows=rows: cmp_tets(o, rows)), case, "tetra " + str(case.get("op")))
    for it in range(ctx.n(6, 30)):
        kind, A = rat_lattice(rng)
        Af = np.array([[float(x) for x in r] for r in A])
        pg = get_pg("1", [], Af)
        fft = [rng.choice([1, 2, 3])] * 3 if rng.random() < 0.6 else [rng.choice([1, 2, 4]) for _ in range(3)]
        s = ToySystem(pg)
        gtok, G = gram_tok(A, fft)
        case = dict(kind="tetra-corr", lattice=Af, NKFFT=fft)
        with ctx.attempt("GridTetra start / split loops / divide", case), warnings.catch_warnings():
            warnings.simplefilter("ignore")
            with quiet():
                g = wbm["GridTetra"](s, length=1.0, NKFFT=np.array(fft), refine_by_volume=False, refine_by_size=False)
            addt("tfive", [tet_row(K) for K in g.K_list], dict(case, op="start"))
            start_tok = tets_tok(g.K_list)
            # volume split with a threshold that is not within 1e-3 (relative) of any reachable volume (1/6, 1/3 times 2^-k)
            vmax = Fr(rng.choice([3, 5, 7, 9, 11, 13]), rng.choice([32, 64, 128, 256, 512]))
            with quiet():
                g.split_tetra_volume(float(vmax))
            addt(f"tsplitvol {gtok} {start_tok} {rats([vmax])} 40", [tet_row(K) for K in g.K_list],
                 dict(case, op="split_tetra_volume", vmax=float(vmax)))
            ctx.count(f"corr.tetra.after-volume-split<={10 ** len(str(len(g.K_list)))}")
            # size split: threshold^2 = (2 pi)^2 * smax * p / 10007: the prime denominator cannot occur in a squared edge
            # length of these lattices, so no exact tie (float noise 1e-15 cannot flip a comparison; other values are
            # at least 1e-9 away)
            cur = tets_tok(g.K_list)
            smax = max(edge_sq(G, tet_row(K)) for K in g.K_list)
            d2 = smax * Fr(rng.randint(1500, 7000), 10007)
            dk = 2 * np.pi * float(d2) ** 0.5
            ok = run_guarded(lambda: g.split_tetra_size(dk), 30)
            if not ok:
                ctx.fail("split_tetra_size does not terminate", dict(case, dkmax=dk))
                continue
            addt(f"tsplitsize {gtok} {cur} {rats([Fr(dk) ** 2 / Fr(2 * np.pi) ** 2])} 40",
                 [tet_row(K) for K in g.K_list], dict(case, op="split_tetra_size", dkmax=dk))
            ctx.count(f"corr.tetra.after-size-split<={10 ** len(str(len(g.K_list)))}")
            # divide() of single tetrahedra as used by the refinement in run()
            for _ in range(3):
                K = rng.choice(g.K_list)
                n = rng.choice([2, 2, 3, 1, 4])
                row = tets_tok([K])
                with quiet():
                    ch = K.divide(ndiv=n)
                addt(f"tdivide {gtok} {row} {n} 1", [tet_row(c) for c in ch], dict(case, op="divide", ndiv=n))
        # explicit starting set with and without weights
        verts = [[[float(dy(rng, 4, -2, 2)) for _ in range(3)] for _ in range(4)] for _ in range(rng.randint(1, 4))]
        verts = [v for v in verts if abs(np.linalg.det(np.array(v[1:]) - np.array(v[0]))) > 1e-9]
        if not verts:
            continue
        ws = None if rng.random() < 0.5 else [float(Fr(rng.randint(1, 24), 2)) for _ in verts]
        case2 = dict(kind="tetra-corr", op="IBZ_tetra", verts=verts, weights=ws)
        with ctx.attempt("GridTetra(IBZ_tetra=, weights=)", case2), warnings.catch_warnings():
            warnings.simplefilter("ignore")
            with quiet():
                g = wbm["GridTetra"](s, length=1.0, NKFFT=np.array(fft), IBZ_tetra=verts, weights=ws,
                                     refine_by_volume=False, refine_by_size=False)
            addt(f"tinit {ratss([[x for v in t for x in v] for t in verts])} {rats(ws) if ws else '_'}",
                 [tet_row(K) for K in g.K_list], case2)


def edge_sq(G, row):
    """largest exact squared edge length (units of (2 pi)^2) of a tetrahedron row"""
    v = [[F(row[3 + 3 * i + j]) for j in range(3)] for i in range(4)]
    best = Fr(0)
    for i, j in itertools.combinations(range(4), 2):
        e = [v[j][k] - v[i][k] for k in range(3)]
        best = max(best, sum(G[a][b] * e[a] * e[b] for a in range(3) for b in range(3)))
    return best


class _Timeout(Exception):
    pass


def run_guarded(fn, seconds):
    """run fn(); False when it does not return within `seconds` (pure-python loops only)"""
    def handler(signum, frame):
        raise _Timeout()
    old = signal.signal(signal.SIGALRM, handler)
    signal.alarm(seconds)
    try:
        with quiet():
            fn()
        return True
    except _Timeout:
        return False
    finally:
        signal.alarm(0)
        signal.signal(signal.SIGALRM, old)


# ------------------------------------------------------------------------------------------------
# property oracle on the real code (independent of the Lean model)

def images_idx(mats, q, div):
    """grid indices of the symmetry images of grid point q (exact integer arithmetic where the grid is symmetric)"""
    out = set()
    for M in mats:
        k = [Fr(q[i], int(div[i])) for i in range(3)]
        kp = [sum(k[i] * int(M[i, j]) for i in range(3)) for j in range(3)]
        idx = []
        for j in range(3):
            v = kp[j] * int(div[j])
            if v.denominator != 1:
                return None
            idx.append(int(v) % int(div[j]))
        out.add(tuple(idx))
    return out


def oracle_klist(ctx, desc, pg, useSym):
    """weights >= 0, sum 1; every grid point is covered by exactly one retained point, whose weight is |orbit|/N"""
    case = dict(kind="klist", group=desc["group"], gens=desc["gens"], lat=desc["lat"], div=desc["div"],
                periodic=desc["periodic"], useSym=useSym)
    with ctx.attempt("Grid.get_K_list", case):
        s, g = make_grid(pg, desc["div"], desc["periodic"])
        with quiet():
            kl = g.get_K_list(use_symmetry=useSym)
        ctx.case(signature=("klist", desc["group"], desc["kind"], tuple(int(d) for d in g.div), useSym), nontrivial=pg.size > 1)
        ctx.count(f"oracle.klist.group={desc['group']}")
        check_klist(ctx, case, kl, [int(d) for d in g.div], pg, useSym)


def check_klist(ctx, case, kl, div, pg, useSym):
    """the cover property of one returned K-list with respect to the group that the call asked for
    (the point group for use_symmetry=True, the trivial group for use_symmetry=False)"""
    N = int(np.prod(div))
    fac = np.array([K.factor for K in kl])
    ok = True
    if (fac < 0).any():
        ctx.fail("get_K_list: negative weight", dict(case, factors=fac))
        ok = False
    if abs(fac.sum() - 1) > 1e-12:
        ctx.fail(f"get_K_list: weights sum to {fac.sum()!r}", case)
        ok = False
    mats = full_mats(pg) if useSym else [np.eye(3, dtype=int)]
    cover = {}
    for K in kl:
        q = tuple(int(round(float(K.K[i]) * div[i])) for i in range(3))
        if any(abs(float(K.K[i]) * div[i] - q[i]) > 1e-9 for i in range(3)):
            ctx.fail("get_K_list: retained point is not a grid point", dict(case, K=K.K))
            return False
        orb = images_idx(mats, q, div)
        if orb is None:
            ctx.fail("symmetry image of a grid point is off the grid although symmetric_grid() accepted it", case)
            return False
        if abs(K.factor - len(orb) / N) > 1e-13:
            ctx.fail(f"get_K_list(use_symmetry={useSym}): weight {K.factor!r} of point {q} differs from |orbit|/N = "
                     f"{len(orb)}/{N} (orbit under the group of this call)", dict(case, point=q))
            ok = False
        for o in orb:
            cover.setdefault(o, []).append(q)
        if not np.allclose(K.dK, 1 / np.array(div)) or K.refinement_level != 0:
            ctx.fail("get_K_list: wrong dK / level", case)
            ok = False
    for q in itertools.product(*[range(d) for d in div]):
        c = cover.get(q, [])
        if len(c) != 1:
            ctx.fail(f"get_K_list(use_symmetry={useSym}): grid point {q} is covered by {len(c)} retained points {c[:4]} "
                     f"(images under the group of this call)", dict(case, point=q))
            ok = False
            break
    return ok


class _FakeResult:
    """stands for the result of a calculator on a K-point (only what KpointBZ.set_result touches)"""
    max = np.array([1.0])

    def __mul__(self, other):
        return self


def abuse_list(rng, kl, sys_, useSym):
    """do to a returned K-list what run() and a careless caller may do: refine, merge, evaluate, change weights"""
    wbm = _wb()
    with quiet():
        l1 = len(kl)
        for iK in sorted({rng.randrange(len(kl)) for _ in range(rng.randint(1, 3))} | {0}):
            kl += kl[iK].divide(ndiv=np.array([2, 2, 2]), periodic=sys_.periodic, use_symmetry=useSym)
        if useSym:
            wbm["excl"](kl, new_points=len(kl) - l1)
    for K in rng.sample(kl, min(len(kl), 3)):
        K.set_result(_FakeResult())
    for K in rng.sample(kl, min(len(kl), 2)):
        K.set_factor(0.25)
    kl[0].refinement_level = 3
    if rng.random() < 0.5:
        del kl[len(kl) // 2:]


def oracle_reuse(ctx, rng):
    """call histories on ONE Grid object: every call must satisfy the property for the group IT asked for, and must
    return fresh K-points - whatever was asked before and whatever was done to the earlier lists"""
    for _ in range(20):
        desc, pg = pick_case(rng)
        if pg.size > 1 and np.prod(desc["div"]) > 1:
            break
    first = rng.random() < 0.5
    calls = [first, not first] + [rng.random() < 0.5 for _ in range(rng.randint(1, 4))]
    kbs = [rng.choice([None, 1, 7, 50]) for _ in calls]
    case = dict(kind="reuse", group=desc["group"], gens=desc["gens"], lat=desc["lat"], div=desc["div"],
                periodic=desc["periodic"], calls=[bool(c) for c in calls], k_batch=kbs)
    with ctx.attempt("repeated Grid.get_K_list on one Grid object", case):
        s, g = make_grid(pg, desc["div"], desc["periodic"])
        div = [int(d) for d in g.div]
        fft0 = [int(f) for f in g.FFT]
        alive = []
        ctx.case(signature=("reuse", desc["group"], desc["kind"], tuple(div), tuple(calls)), nontrivial=True)
        ctx.count("oracle.reuse.first-call-symmetric" if first else "oracle.reuse.first-call-full")
        for i, (us, kb) in enumerate(zip(calls, kbs)):
            with quiet():
                kl = g.get_K_list(use_symmetry=us, k_batch=kb)
            ci = dict(case, call=i, use_symmetry=bool(us), previous_calls=[bool(c) for c in calls[:i]])
            ctx.count("oracle.reuse.calls")
            check_klist(ctx, ci, kl, div, pg, us)
            seen = {id(K) for old in alive for K in old}
            if any(id(K) in seen for K in kl) or len({id(K) for K in kl}) != len(kl):
                ctx.fail("get_K_list returns K-point objects that an earlier call already returned (refining one list would "
                         "change the other)", ci)
            if any(K.was_evaluated_flag or K.result is not None or K.refinement_level != 0 for K in kl):
                ctx.fail("get_K_list returns K-points that carry a result / a refinement level from an earlier use", ci)
            if [int(d) for d in g.div] != div or [int(f) for f in g.FFT] != fft0:
                ctx.fail("the Grid object changed (div / FFT) after get_K_list", ci)
            alive.append(list(kl))
            abuse_list(rng, kl, s, us)
            alive.append(list(kl))


def my_equiv(mats, Ka, Kb, la, lb):
    if la != lb:
        return False
    for M in mats:
        d = Ka @ M - Kb
        if np.abs(d - np.round(d)).max() < 1e-9:
            return True
    return False


def density(mats, kl, pts):
    """weight density at the points `pts` (n,3): (1/|G|) sum_S sum_K factor_K / vol_K [S p in cell_K mod 1]"""
    Kc = np.array([K.K for K in kl])
    dK = np.array([K.dK for K in kl])
    w = np.array([K.factor for K in kl]) / dK.prod(axis=1)
    D = np.zeros(len(pts))
    for M in mats:
        sp = pts @ M
        rel = (sp[:, None, :] - Kc[None, :, :] + dK[None, :, :] / 2) % 1.0
        inside = (rel < dK[None, :, :]).all(axis=2)
        D += inside.astype(float) @ w
    return D / len(mats)


def monomial(mats):
    return all((np.abs(M).sum(axis=0) == 1).all() and (np.abs(M).sum(axis=1) == 1).all() for M in mats)


def oracle_history(ctx, case, rng_for_sel=None):
    """the refinement glue of run() on the real objects with the property checked after every operation"""
    wbm = _wb()
    pg = get_pg(case["group"], case["gens"], np.array(case["lat"]))
    useSym = case["useSym"]
    mats = full_mats(pg) if useSym else [np.eye(3, dtype=int)]
    with ctx.attempt("refinement history", case):
        s, g = make_grid(pg, case["div"], case["periodic"])
        with quiet():
            kl = g.get_K_list(use_symmetry=useSym)
        same_mesh = len({tuple(nd) for nd, _ in case["ops"]}) <= 1
        dens_ok = (monomial(mats) and same_mesh and
                   all(pg.symmetric_grid(nd) for nd, _ in case["ops"]) and len(kl) * len(mats) < 20000)
        pts = np.array([[0.137, 0.731, 0.419], [0.503, 0.251, 0.877], [0.0013, 0.4987, 0.2519], [0.6181, 0.3819, 0.0707],
                        [0.99, 0.01, 0.5003], [0.3331, 0.6669, 0.1251]])
        for istep, (nd, sel) in enumerate(case["ops"]):
            l1 = len(kl)
            tot0 = sum(K.factor for K in kl)
            for iK in sel:
                if iK >= len(kl):
                    continue
                P = kl[iK]
                pf, pK, pdK = float(P.factor), np.array(P.K), np.array(P.dK)
                with quiet():
                    ch = P.divide(ndiv=np.array(nd), periodic=s.periodic, use_symmetry=False)
                n_eff = np.array([n if p else 1 for n, p in zip(nd, s.periodic)])
                info = dict(case, step=istep, point=iK, K=pK, dK=pdK, factor=pf)
                if P.factor != 0:
                    ctx.fail("divide(): the divided point keeps a non-zero factor", info)
                if len(ch) != n_eff.prod():
                    ctx.fail(f"divide(): {len(ch)} children for ndiv={list(n_eff)}", info)
                if abs(sum(c.factor for c in ch) - pf) > 1e-15 * (1 + pf):
                    ctx.fail(f"divide(): children carry {sum(c.factor for c in ch)!r}, parent had {pf!r}", info)
                if any(c.factor < 0 for c in ch) or any(c.refinement_level != P.refinement_level + 1 for c in ch):
                    ctx.fail("divide(): negative child weight or wrong level", info)
                # tiling of the parent's half-open cell: test points (offsets avoid the faces) lie in exactly one child
                tpts = pK + (np.array([[0.013, 0.507, 0.249], [0.499, 0.0017, 0.751], [0.7503, 0.2497, 0.9983],
                                       [0.3339, 0.6661, 0.5001], [0.2, 0.4, 0.6], [0.97, 0.03, 0.51]]) - 0.5) * pdK
                cK = np.array([c.K for c in ch])
                cdK = np.array([c.dK for c in ch])
                if not np.allclose(cdK, pdK / n_eff, rtol=1e-14, atol=0):
                    ctx.fail("divide(): child cell size is not dK/ndiv", info)
                inside = ((tpts[:, None, :] >= cK[None] - cdK[None] / 2 - 1e-15) &
                          (tpts[:, None, :] < cK[None] + cdK[None] / 2 - 1e-15)).all(axis=2)
                if not (inside.sum(axis=1) == 1).all():
                    ctx.fail(f"divide(): children do not tile the parent cell (test points covered {inside.sum(axis=1)} times)",
                             info)
                lo, hi = (cK - cdK / 2).min(axis=0), (cK + cdK / 2).max(axis=0)
                if not (np.allclose(lo, pK - pdK / 2, atol=1e-14) and np.allclose(hi, pK + pdK / 2, atol=1e-14)):
                    ctx.fail("divide(): the children's cells do not span the parent cell", info)
                # the same division as run() does it (with merging of equivalent children): weight conserved
                if useSym:
                    tot_ch = sum(c.factor for c in ch)
                    lvl = [(np.array(c.K), c.refinement_level, float(c.factor)) for c in ch]
                    with quiet():
                        wbm["excl"](ch)
                    check_merge(ctx, mats, lvl, ch, 0, dict(info, what="merging inside divide()"))
                    if abs(sum(c.factor for c in ch) - tot_ch) > 1e-15:
                        ctx.fail("divide(use_symmetry=True): merging equivalent children changes the weight", info)
                kl += ch
            if useSym:
                before = [(np.array(K.K), K.refinement_level, float(K.factor)) for K in kl]
                olds = list(kl[:l1])
                with quiet():
                    wbm["excl"](kl, new_points=len(kl) - l1)
                if kl[:l1] != olds or any(a is not b for a, b in zip(kl[:l1], olds)):
                    ctx.fail("exclude_equiv_points deleted or reordered an old point", dict(case, step=istep))
                check_merge(ctx, mats, before, kl, l1, dict(case, step=istep, what="merging after the refinement step"))
            fac = np.array([K.factor for K in kl])
            ctx.count("oracle.history.steps")
            if (fac < 0).any():
                ctx.fail("negative weight after a refinement step", dict(case, step=istep))
            if abs(fac.sum() - 1) > 1e-12 or abs(fac.sum() - tot0) > 1e-13:
                ctx.fail(f"total weight after step {istep + 1} is {fac.sum()!r} (before: {tot0!r})", dict(case, step=istep))
            if dens_ok:
                D = density(mats, kl, pts)
                if np.abs(D - 1).max() > 1e-9:
                    ctx.fail(f"the symmetry images of the cells do not tile the BZ with the right weight: density at test "
                             f"points = {D}", dict(case, step=istep))
                ctx.count("oracle.history.density-checked")


def check_merge(ctx, mats, before, after, n_old, info):
    """before: [(K, level, factor)] in list order; after: the list after exclude_equiv_points (objects, same order, some
    deleted).  Every class of equivalent points (edges only where one is new) keeps its weight and is merged completely"""
    n = len(before)
    parent = list(range(n))

    def find(i):
        while parent[i] != i:
            parent[i] = parent[parent[i]]
            i = parent[i]
        return i
    for i in range(n):
        for j in range(max(i + 1, n_old), n):
            if my_equiv(mats, before[i][0], before[j][0], before[i][1], before[j][1]):
                parent[find(j)] = find(i)
    # map survivors back by (K, level)
    surv = {}
    for K in after:
        surv.setdefault((tuple(np.round(np.array(K.K), 12)), K.refinement_level), []).append(K.factor)
    cls = {}
    for i in range(n):
        cls.setdefault(find(i), []).append(i)
    for root, members in cls.items():
        w_before = sum(before[i][2] for i in members)
        keys = {(tuple(np.round(before[i][0], 12)), before[i][1]) for i in members}
        w_after = sum(sum(surv.get(k, [])) for k in keys)
        n_after = sum(len(surv.get(k, [])) for k in keys)
        n_old_members = sum(1 for i in members if i < n_old)
        if len(members) > 1:
            ctx.count("oracle.merge.class-with-old-point" if n_old_members else "oracle.merge.class-all-new")
        if abs(w_after - w_before) > 1e-14 * (1 + abs(w_before)):
            ctx.fail(f"exclude_equiv_points: a class of equivalent points had weight {w_before!r} and has {w_after!r} afterwards",
                     dict(info, members=[before[i][0] for i in members[:4]]))
            return
        if n_after != max(1, n_old_members) and len(keys) == len(members):
            ctx.fail(f"exclude_equiv_points: {n_after} survivors in a class of {len(members)} equivalent points "
                     f"({n_old_members} old)", dict(info, members=[before[i][0] for i in members[:4]]))
            return


RUN_GROUPS = [("mmm", ["Mx", "My", "Mz"], "ortho"), ("4/mmm", ["C4z", "Mx", "Mz"], "tetra"),
              ("m-3m", ["C4z", "C4x", "Inversion"], "cubic"), ("-1", ["Inversion"], "tric"),
              ("6/mmm", ["C6z", "Mx", "Mz"], "hex"), ("2'/m'", ["C2z*" + TR, "Mz*" + TR], "mono"),
              ("4/mm'm'", ["C4z", "Mz", "Mx*" + TR], "tetra")]


def real_run(rng):
    """real run() with adaptive refinement on a toy system; the K-list of every iteration is read back from the
    restart files.  returns (case, pointgroup, periodic, div, all K-points, [factors of iteration 0, 1, ...])"""
    import pickle
    import glob
    from ..wbsys import rand_system, wb
    name, gens, kind = rng.choice(RUN_GROUPS)
    lat = lattice(kind, rng)
    rs = np.random.RandomState(rng.getrandbits(31))
    nk = rng.choice([2, 3, 4]) if name != "-1" else rng.choice([2, 3])
    adpt_mesh = rng.choice([2, 2, 3])
    niter = rng.choice([1, 2, 3])
    adpt_fac = rng.choice([1, 2])
    use_irred = rng.random() < 0.8
    case = dict(kind="run", group=name, gens=gens, lat=lat, NK=nk, adpt_mesh=adpt_mesh, adpt_num_iter=niter,
                adpt_fac=adpt_fac, use_irred_kpt=use_irred)
    with tempfile.TemporaryDirectory(prefix="c06run") as tmp:
        with quiet(), warnings.catch_warnings():
            warnings.simplefilter("ignore")
            system = rand_system(rs, num_wann=2, nR=5, max_R=1, lattice=lat, matrices=("Ham",))
            system.set_pointgroup(symmetry_gen=gens)
            grid = wb.Grid(system, NKdiv=nk, NKFFT=1)
            ef = np.linspace(-1, 1, 3)
            calc = {"dos": wb.calculators.static.DOS(Efermi=ef, tetra=False),
                    "cdos": wb.calculators.static.CumDOS(Efermi=ef, tetra=False)}
            cwd = os.getcwd()
            os.chdir(tmp)
            try:
                wb.run(system, grid, calc, adpt_num_iter=niter, adpt_mesh=adpt_mesh, adpt_fac=adpt_fac, parallel=False,
                       use_irred_kpt=use_irred, symmetrize=use_irred, allow_restart=True,
                       file_Klist_path=os.path.join(tmp, "kl"), fout_name=os.path.join(tmp, "res"))
            finally:
                os.chdir(cwd)
        kl = []
        with open(os.path.join(tmp, "kl", "K_list.pickle"), "rb") as f:
            while True:
                try:
                    kl += pickle.load(f)
                except EOFError:
                    break
        files = sorted(glob.glob(os.path.join(tmp, "kl", "factors_iter-*.npy")))
        facs = [np.load(fn) for fn in files]
    return case, system.pointgroup, [bool(p) for p in system.periodic], [int(d) for d in grid.div], kl, facs


class _K:
    pass


def oracle_run(ctx, rng):
    """the K-list of real run() after every refinement iteration: weights, and tiling of the BZ by the cells"""
    case = dict(kind="run")
    with ctx.attempt("run() with adaptive refinement", case):
        case, pg, periodic, div, kl, facs = real_run(rng)
        use_irred = case["use_irred_kpt"]
        mats = full_mats(pg) if use_irred else [np.eye(3, dtype=int)]
        pts = np.random.RandomState(len(kl)).uniform(0, 1, (6, 3))
        ctx.case(signature=("run", str(case)), nontrivial=True)
        ctx.count("oracle.run.cases")
        if len(facs) != case["adpt_num_iter"] + 1:
            ctx.fail(f"run(): {len(facs)} factor files for {case['adpt_num_iter']} refinement iterations", case)
        for it, fac in enumerate(facs):
            sub = kl[:len(fac)]
            if (fac < 0).any() or abs(fac.sum() - 1) > 1e-12:
                ctx.fail(f"run(): weights of iteration {it} sum to {fac.sum()!r} (min {fac.min()!r})", case)
            # no two live points of the same level are symmetry-equivalent
            live = [(np.array(K.K), K.refinement_level) for K, w in zip(sub, fac)]
            if use_irred and len(sub) <= 150:
                for i in range(len(sub)):
                    for j in range(i + 1, len(sub)):
                        if my_equiv(mats, live[i][0], live[j][0], live[i][1], live[j][1]):
                            ctx.fail(f"run(): after iteration {it} the K-points {i} and {j} are symmetry-equivalent "
                                     f"(not merged)", dict(case, Ki=live[i][0], Kj=live[j][0]))
                            break
                    else:
                        continue
                    break
            if monomial(mats) and len(sub) * len(mats) < 30000:
                tmpk = []
                for K, w in zip(sub, fac):
                    o = _K()
                    o.K, o.dK, o.factor = K.K, K.dK, w
                    tmpk.append(o)
                D = density(mats, tmpk, pts)
                if np.abs(D - 1).max() > 1e-9:
                    ctx.fail(f"run(): after iteration {it} the cells of the K-points and their symmetry images do not tile "
                             f"the BZ with the right weight: density {D}", case)
                ctx.count("oracle.run.density-checked")


def corr_run(ctx, B):
    """end-to-end: the K-lists that real run() produced (restart files) against the model's history, where the refined
    points of every iteration are inferred from the factors that dropped to zero (order: position of their children)"""
    rng = ctx.rng
    for it in range(ctx.n(1, 4)):
        case = dict(kind="run-corr")
        with ctx.attempt("run() with adaptive refinement", case):
            case, pg, periodic, div, kl, facs = real_run(rng)
            case["kind"] = "run-corr"
            nd = [case["adpt_mesh"] if p else 1 for p in periodic]
            ops, states = [], []
            ok = True
            for k, fac in enumerate(facs):
                rows = []
                for K, w in zip(kl[:len(fac)], fac):
                    rows.append([float(x) for x in K.K] + [float(x) for x in K.dK] + [float(w), int(K.refinement_level)])
                states.append(rows)
                if k == 0:
                    continue
                n0 = len(facs[k - 1])
                parents = [i for i in range(n0) if facs[k - 1][i] != 0 and fac[i] == 0]
                first = {}
                for i in parents:
                    P = kl[i]
                    for j in range(n0, len(fac)):
                        C = kl[j]
                        if (C.refinement_level == P.refinement_level + 1 and
                                (np.abs(np.array(C.K) - np.array(P.K)) < np.array(P.dK) / 2).all()):
                            first[i] = j
                            break
                if len(first) != len(parents):
                    ok = False
                    break
                ops.append([list(nd), sorted(parents, key=lambda i: first[i])])
            if not ok:
                ctx.note("run-corr: could not infer the refined points of an iteration (case skipped)")
                continue
            ctx.count("corr.run.cases")
            ctx.count(f"corr.run.iterations={len(ops)}")
            line = (f"hist {sym_tok(pg)} {ints(div)} {int(case['use_irred_kpt'])} {ints([int(p) for p in periodic])} "
                    f"{intss([n + sel for n, sel in ops])}")
            exact = all(pow2(d) for d in div) and pow2(case["adpt_mesh"])

            def chk(o, states=states, exact=exact):
                parts = o.split("|")
                if len(parts) != len(states):
                    return f"number of states model={len(parts)} code={len(states)}"
                for k, (pt, rows) in enumerate(zip(parts, states)):
                    objs = []
                    for r in rows:
                        q = _K()
                        q.K, q.dK, q.factor, q.refinement_level = r[0:3], r[3:6], r[6], r[7]
                        objs.append(q)
                    msg = cmp_klist(pt, objs, exact)
                    if msg:
                        return f"iteration {k}: {msg}"
                return None
            B.add(line, chk, dict(case, ops=ops), "K-list of run()")


def oracle_run_reuse(ctx, rng):
    """two real run() calls on the SAME Grid object with different use_irred_kpt (both orders); the K-list of the second
    run (iteration 0, from its restart files) and a direct get_K_list afterwards must satisfy the property for the group
    that was asked for"""
    import pickle
    from ..wbsys import rand_system, wb
    name, gens, kind = rng.choice([g for g in RUN_GROUPS if g[0] != "-1"])
    lat = lattice(kind, rng)
    rs = np.random.RandomState(rng.getrandbits(31))
    nk = rng.choice([2, 3, 4])
    a = rng.random() < 0.5
    case = dict(kind="run-reuse", group=name, gens=gens, lat=lat, NK=nk, use_irred_kpt=[bool(a), bool(not a)])
    with ctx.attempt("two run() calls on one Grid object", case), tempfile.TemporaryDirectory(prefix="c06run") as tmp:
        with quiet(), warnings.catch_warnings():
            warnings.simplefilter("ignore")
            system = rand_system(rs, num_wann=2, nR=5, max_R=1, lattice=lat, matrices=("Ham",))
            system.set_pointgroup(symmetry_gen=gens)
            grid = wb.Grid(system, NKdiv=nk, NKFFT=1)
            calc = {"cdos": wb.calculators.static.CumDOS(Efermi=np.linspace(-1, 1, 3), tetra=False)}
            cwd = os.getcwd()
            os.chdir(tmp)
            try:
                for irun, use_irred in enumerate([a, not a]):
                    wb.run(system, grid, calc, adpt_num_iter=1, adpt_mesh=2, adpt_fac=1, parallel=False,
                           use_irred_kpt=use_irred, symmetrize=use_irred, allow_restart=True,
                           file_Klist_path=os.path.join(tmp, f"kl{irun}"), fout_name=os.path.join(tmp, "res"))
            finally:
                os.chdir(cwd)
        pg = system.pointgroup
        div = [int(d) for d in grid.div]
        ctx.case(signature=("run-reuse", name, nk, a), nontrivial=True)
        ctx.count("oracle.run-reuse.cases")
        for irun, use_irred in enumerate([a, not a]):
            kl = []
            with open(os.path.join(tmp, f"kl{irun}", "K_list.pickle"), "rb") as f:
                while True:
                    try:
                        kl += pickle.load(f)
                    except EOFError:
                        break
            fac0 = np.load(os.path.join(tmp, f"kl{irun}", "factors_iter-00000000.npy"))
            objs = []
            for K, w in zip(kl[:len(fac0)], fac0):
                o = _K()
                o.K, o.dK, o.factor, o.refinement_level = K.K, K.dK, float(w), K.refinement_level
                objs.append(o)
            check_klist(ctx, dict(case, run=irun, use_symmetry=bool(use_irred), what="K-list of run(), iteration 0"),
                        objs, div, pg, use_irred)
        for us in (a, not a):
            with quiet():
                kl = grid.get_K_list(use_symmetry=us)
            check_klist(ctx, dict(case, what="get_K_list after the two runs", use_symmetry=bool(us)), kl, div, pg, us)


def oracle_restart(ctx, rng):
    """restart histories of run(): a stored run, then restart=True from an earlier / negative / the latest iteration,
    possibly chained and refined further.  After EVERY call: the returned result carries total weight 1 (cumulative DOS
    above all bands), every stored factor vector has sum 1 and no negative entry, and the live points of the iteration
    the call worked on tile the BZ with their symmetry images"""
    import pickle
    import glob
    from ..wbsys import rand_system, wb
    name, gens, kind = rng.choice(RUN_GROUPS)
    lat = lattice(kind, rng)
    rs = np.random.RandomState(rng.getrandbits(31))
    nk = rng.choice([2, 3]) if name in ("-1", "m-3m") else rng.choice([2, 3, 4])
    use_irred = rng.random() < 0.75
    dump = rng.random() < 0.4
    adpt_mesh = rng.choice([2, 2, 3])
    adpt_fac = rng.choice([1, 2])
    n1 = rng.choice([2, 3])
    nw = 2
    case = dict(kind="restart", group=name, gens=gens, lat=lat, NK=nk, use_irred_kpt=use_irred, dump_results=dump,
                adpt_mesh=adpt_mesh, adpt_fac=adpt_fac, calls=[dict(adpt_num_iter=n1)])
    with ctx.attempt("run() restart history", case), tempfile.TemporaryDirectory(prefix="c06rst") as tmp:
        with quiet(), warnings.catch_warnings():
            warnings.simplefilter("ignore")
            system = rand_system(rs, num_wann=nw, nR=5, max_R=1, lattice=lat, matrices=("Ham",))
            system.set_pointgroup(symmetry_gen=gens)
            grid = wb.Grid(system, NKdiv=nk, NKFFT=1)
        pg = system.pointgroup
        mats = full_mats(pg) if use_irred else [np.eye(3, dtype=int)]
        ef = np.linspace(-1.5, 58.5, 41)     # uniform (the calculator bins by Efermi[1]-Efermi[0]); the top lies above all bands
        klp = os.path.join(tmp, "kl")

        def call(**kw):
            with quiet(), warnings.catch_warnings():
                warnings.simplefilter("ignore")
                calc = {"cdos": wb.calculators.static.CumDOS(Efermi=ef, tetra=False)}
                cwd = os.getcwd()
                os.chdir(tmp)
                try:
                    res = wb.run(system, grid, calc, adpt_mesh=adpt_mesh, adpt_fac=adpt_fac, parallel=False,
                                 use_irred_kpt=use_irred, symmetrize=use_irred, allow_restart=True, dump_results=dump,
                                 file_Klist_path=klp, fout_name=os.path.join(tmp, "res"), **kw)
                finally:
                    os.chdir(cwd)
            return float(np.array(res.results["cdos"].data).reshape(-1)[-1]) / nw

        def stored():
            kl = []
            with open(os.path.join(klp, "K_list.pickle"), "rb") as f:
                while True:
                    try:
                        kl += pickle.load(f)
                    except EOFError:
                        break
            facs = {}
            for fn in glob.glob(os.path.join(klp, "factors_iter-*.npy")):
                facs[int(fn.split("-")[-1].split(".")[0])] = np.load(fn)
            return kl, facs

        def check(what, w, touched):
            ci = dict(case, after=what)
            kl, facs = stored()
            if abs(w - 1) > 1e-9:
                ctx.fail(f"run() restart history: the result returned by the call '{what}' carries total K-point weight "
                         f"{w!r} (cumulative DOS above all bands / number of bands) instead of 1", ci)
            for it, fac in sorted(facs.items()):
                if len(fac) > len(kl) or (fac < 0).any() or abs(fac.sum() - 1) > 1e-12:
                    ctx.fail(f"run() restart history: after '{what}' the stored weights of iteration {it} sum to "
                             f"{fac.sum()!r} (min {fac.min()!r}, {len(fac)} of {len(kl)} K-points)", ci)
            pts = np.random.RandomState(len(kl) + 5).uniform(0, 1, (5, 3))
            for it in touched:
                if it not in facs:
                    ctx.fail(f"run() restart history: no stored weights for iteration {it} after '{what}'", ci)
                    continue
                fac = facs[it]
                sub = kl[:len(fac)]
                if monomial(mats) and len(sub) * len(mats) < 30000:
                    tmpk = []
                    for K, wgt in zip(sub, fac):
                        o = _K()
                        o.K, o.dK, o.factor = K.K, K.dK, wgt
                        tmpk.append(o)
                    D = density(mats, tmpk, pts)
                    if np.abs(D - 1).max() > 1e-9:
                        ctx.fail(f"run() restart history: after '{what}' the live cells of iteration {it} and their symmetry "
                                 f"images do not tile the BZ with the right weight: density {D}", ci)
                    ctx.count("oracle.restart.density-checked")
            return max(facs)

        w = call(adpt_num_iter=n1)
        last = check(f"first run, adpt_num_iter={n1}", w, range(n1 + 1))
        ctx.case(signature=("restart", str(case)), nontrivial=True)
        for ichain in range(rng.randint(1, 3)):
            r = rng.random()
            if r < 0.5 and last >= 1:
                rit = rng.randrange(0, last)          # explicit earlier iteration
                start = rit
                kindr = "earlier"
            elif r < 0.75:
                rit = -rng.randint(1, 2)               # negative: counted from the last stored iteration
                start = max(0, last + rit + 1)
                kindr = "negative"
            else:
                rit = last
                start = last
                kindr = "latest"
            more = rng.choice([0, 1, 1, 2])
            case["calls"].append(dict(restart_iteration=rit, adpt_num_iter=more))
            ctx.count(f"oracle.restart.from-{kindr}")
            w = call(adpt_num_iter=more, restart=True, restart_iteration=rit)
            last_all = check(f"restart from iteration {rit} (+{more} refinements)", w, range(start, start + more + 1))
            last = last_all     # files of later iterations of an abandoned branch stay on disk: they are restart points too
        ctx.count("oracle.restart.cases")


def bary(verts, p):
    T = np.array([verts[1] - verts[0], verts[2] - verts[0], verts[3] - verts[0]]).T
    l = np.linalg.solve(T, p - verts[0])
    return np.array([1 - l.sum(), *l])


def tetra_checks(ctx, kl, case, total_factor=1.0, cell_volume=1.0, factor_per_volume=None, region=None):
    wbm = _wb()
    vol = np.array([wbm["tetra_volume"](K.vertices) for K in kl])
    fac = np.array([K.factor for K in kl])
    if (fac < 0).any():
        ctx.fail("tetrahedral grid: negative weight", case)
    if abs(fac.sum() - total_factor) > 1e-12 * max(1, len(kl) / 50):
        ctx.fail(f"tetrahedral grid: weights sum to {fac.sum()!r}, expected {total_factor!r}", case)
    if abs(vol.sum() - cell_volume) > 1e-12 * max(1, len(kl) / 50):
        ctx.fail(f"tetrahedral grid: volumes sum to {vol.sum()!r}, expected {cell_volume!r}", case)
    fpv = total_factor / cell_volume if factor_per_volume is None else factor_per_volume
    if np.abs(fac - fpv * vol).max() > 1e-14:
        ctx.fail("tetrahedral grid: weight is not proportional to the volume", dict(case, worst=float(np.abs(fac - fpv * vol).max())))
    if region == "cube":
        pts = np.random.RandomState(len(kl) + 17).uniform(-0.5, 0.5, (10, 3))   # generic points: never on a face
        V = np.array([K.vertices + K.K[None, :] for K in kl])
        if np.abs(V).max() > 0.5 + 1e-12:
            ctx.fail("tetrahedral grid: a vertex lies outside the reciprocal cell", case)
        for p in pts:
            cnt = sum(1 for v in V if bary(v, p).min() > 1e-12)
            if cnt != 1:
                ctx.fail(f"tetrahedral grid: test point {p} lies inside {cnt} tetrahedra (expected exactly 1)", case)
                break


def oracle_tetra(ctx, rng, tie_probe=False):
    wbm = _wb()
    kind = rng.choice(["cubic", "tetra", "ortho", "tric", "hex", "bcc"])
    lat = lattice(kind, rng) * rng.choice([1.0, 1.37, 0.83])
    pg = get_pg("1", [], lat)
    fft = rng.choice([1, 2, 3, (1, 2, 2), (2, 2, 1)])
    length = rng.uniform(2.5, 9.5) * (2 if ctx.tier == "thorough" and rng.random() < 0.2 else 1)
    opts = dict(refine_by_volume=rng.random() < 0.85, refine_by_size=rng.random() < 0.85)
    if rng.random() < 0.4:
        opts["length_size"] = length * rng.uniform(0.3, 1.2)
    case = dict(kind="tetra", lattice=lat, NKFFT=fft, length=length, **opts)
    s = ToySystem(pg)
    with ctx.attempt("GridTetra", case), warnings.catch_warnings():
        warnings.simplefilter("ignore")
        box = {}
        ok = run_guarded(lambda: box.setdefault("g", wbm["GridTetra"](s, length=length, NKFFT=fft, **opts)), 60)
        if not ok:
            ctx.fail("GridTetra() does not terminate", case)
            return
        g = box["g"]
        ctx.case(signature=("tetra", kind, str(fft), round(length, 6), tuple(sorted(opts.items()))), nontrivial=len(g.K_list) > 5)
        ctx.count(f"oracle.tetra.ntet<={10 ** len(str(len(g.K_list)))}")
        tetra_checks(ctx, g.K_list, case, region="cube")
        # thresholds really reached
        if opts["refine_by_volume"]:
            vmax = (2 * np.pi / length) ** 3 / np.linalg.det(g.recip_lattice_reduced)
            if max(wbm["tetra_volume"](K.vertices) for K in g.K_list) >= vmax:
                ctx.fail("GridTetra: a tetrahedron above the volume threshold is left", case)
        kl = g.get_K_list()
        if any(a is b for a, b in zip(kl, g.K_list)):
            ctx.fail("GridTetra.get_K_list returns the grid's own objects (refinement would corrupt the grid)", case)
        # call history on the one GridTetra object: refine / spoil the first list, ask again with other arguments
        spoiled = g.get_K_list(use_symmetry=rng.random() < 0.5, k_batch=rng.choice([None, 3]))
        with quiet():
            extra = spoiled[0].divide(ndiv=2) + spoiled[-1].divide(ndiv=3)
        for K in spoiled[:3]:
            K.set_factor(0.5)
            K.set_result(_FakeResult())
        again = g.get_K_list(use_symmetry=rng.random() < 0.5, k_batch=rng.choice([None, 5]))
        tetra_checks(ctx, again, dict(case, after="second get_K_list on the same GridTetra"), region="cube")
        ids = {id(K) for K in spoiled + extra + list(g.K_list)}
        if any(id(K) in ids for K in again) or any(K.was_evaluated_flag or K.result is not None for K in again):
            ctx.fail("GridTetra.get_K_list: the second call returns objects / results of the first call", case)
        tetra_checks(ctx, g.K_list, dict(case, after="the grid's own list after refining a returned list"), region="cube")
        ctx.count("oracle.tetra.reuse")
        # refinement as run() does it: divide some tetrahedra
        for _ in range(rng.randint(1, 4)):
            i = rng.randrange(len(kl))
            n = rng.choice([2, 2, 3, 4])
            P = kl[i]
            pf, pv = P.factor, wbm["tetra_volume"](P.vertices)
            pV = P.vertices + P.K[None]
            with quiet():
                ch = P.divide(ndiv=np.array([n, n, n]), periodic=(True, True, True))
            info = dict(case, divided=i, ndiv=n)
            if P.factor != 0 or len(ch) != n:
                ctx.fail("KpointBZtetra.divide: parent keeps weight or wrong number of pieces", info)
            for c in ch:
                if abs(c.factor - pf / n) > 1e-16 or abs(wbm["tetra_volume"](c.vertices) - pv / n) > 1e-15:
                    ctx.fail(f"KpointBZtetra.divide: piece has weight {c.factor!r} / volume {wbm['tetra_volume'](c.vertices)!r}, "
                             f"expected {pf / n!r} / {pv / n!r}", info)
                cV = c.vertices + c.K[None]
                for v in cV:
                    if bary(pV, v).min() < -1e-12:
                        ctx.fail("KpointBZtetra.divide: a piece sticks out of the parent", info)
                if abs(np.mean(c.vertices, axis=0)).max() > 1e-15:
                    ctx.fail("KpointBZtetra: K is not the centre of the tetrahedron", info)
            kl = [K for K in kl if K is not P] + ch     # the divided tetrahedron is dead (weight 0)
        tetra_checks(ctx, kl, dict(case, after="divide"), region="cube")
    if tie_probe:
        # a tetrahedron size EQUAL to the threshold (bit for bit): the loops must stop and conserve weight and volume
        pgc = get_pg("1", [], np.eye(3) * 1.25)
        case = dict(kind="tetra-tie", lattice=np.eye(3) * 1.25, NKFFT=2, length=10.0)
        with ctx.attempt("GridTetra at an exact size tie", case), warnings.catch_warnings():
            warnings.simplefilter("ignore")
            box = {}
            ok = run_guarded(lambda: box.setdefault("g", wbm["GridTetra"](ToySystem(pgc), length=10.0, NKFFT=2)), 20)
            ctx.count("oracle.tetra.tie-probe")
            ctx.case(signature=("tetra-tie",), nontrivial=True)
            if not ok:
                ctx.fail("GridTetra(length=10, NKFFT=2) on a cubic lattice a=1.25 never returns: a tetrahedron size equals "
                         "the threshold exactly and the split loop neither splits nor stops", case)
            else:
                tetra_checks(ctx, box["g"].K_list, case, region="cube")
        # volume tie: vmax equal to the volume of the four corner tetrahedra
        case = dict(kind="tetra-tie", what="split_tetra_volume(vmax = 1/6 exactly)")
        with ctx.attempt("split_tetra_volume at an exact tie", case), warnings.catch_warnings():
            warnings.simplefilter("ignore")
            with quiet():
                g = wbm["GridTetra"](ToySystem(pgc), length=1.0, NKFFT=1, refine_by_volume=False, refine_by_size=False)
            vmax = max(wbm["tetra_volume"](K.vertices) for K in g.K_list) / 2
            ok = run_guarded(lambda: g.split_tetra_volume(vmax), 20)
            if not ok:
                ctx.fail("split_tetra_volume never returns when a volume equals vmax exactly", case)
            else:
                tetra_checks(ctx, g.K_list, case, region="cube")
                if max(wbm["tetra_volume"](K.vertices) for K in g.K_list) > vmax:
                    ctx.fail("split_tetra_volume left a tetrahedron above vmax", case)


def oracle_trigonal(ctx, rng):
    wbm = _wb()
    a, c = rng.choice([1.0, 1.25]), rng.choice([1.5, 1.75])
    lat = np.array([[a, 0, 0], [-a / 2, a * SQ3 / 2, 0], [0, 0, c]])
    if rng.random() < 0.5:   # 60 degrees between b1 and b2
        lat = np.array([[a, 0, 0], [a / 2, a * SQ3 / 2, 0], [0, 0, c]])
    pg = get_pg("1", [], lat)
    length = rng.uniform(3, 8)
    case = dict(kind="trigonal", lattice=lat, length=length)
    with ctx.attempt("GridTrigonal", case), warnings.catch_warnings():
        warnings.simplefilter("ignore")
        box = {}
        try:
            ok = run_guarded(lambda: box.setdefault("g", wbm["GridTrigonal"](ToySystem(pg), length=length, NKFFT=1)), 60)
        except AssertionError as e:
            ctx.note(f"GridTrigonal rejected the lattice: {str(e)[:80]}")
            return
        if not ok:
            ctx.fail("GridTrigonal() does not terminate", case)
            return
        ctx.count("oracle.trigonal")
        ctx.case(signature=("trig", a, c, round(length, 5)), nontrivial=True)
        # the wedge is 1/12 of the cell: weights are normalised to 1 and proportional to the volume
        tetra_checks(ctx, box["g"].K_list, case, total_factor=1.0, cell_volume=1.0 / 12)


def oracle(ctx, scale):
    rng = ctx.rng
    # O1: orbit cover of the initial grid
    for it in range(ctx.n(40, 160) * scale):
        desc, pg = pick_case(rng, big=True)
        oracle_klist(ctx, desc, pg, useSym=rng.random() < 0.9)
    # O2: histories
    for it in range(ctx.n(20, 120) * scale):
        desc, pg = pick_case(rng)
        useSym = rng.random() < 0.85
        same = rng.random() < 0.6
        mesh = rng.choice([(2, 2, 2), (2, 2, 2), (3, 3, 3), (4, 4, 4)]) if same else None
        if mesh and not all(desc["periodic"]):
            mesh = tuple(m if p else 1 for m, p in zip(mesh, desc["periodic"]))
        spec = rand_history(rng, rng.choice([1, 2, 3, 4] if ctx.tier == "quick" else [1, 2, 3, 4, 6, 8]), same_mesh=mesh)
        s, g = make_grid(pg, desc["div"], desc["periodic"])
        # choose the selections on a dry run, then check that history operation by operation
        with ctx.attempt("refinement history (dry run)", dict(desc, useSym=useSym)):
            _, ops = run_history(g, s, useSym, spec, rng, maxlen=250)
            case = dict(kind="hist", group=desc["group"], gens=desc["gens"], lat=desc["lat"], div=desc["div"],
                        periodic=desc["periodic"], useSym=useSym, ops=ops)
            ctx.case(signature=("hist", desc["group"], desc["kind"], tuple(desc["div"]), useSym, str(ops)),
                     nontrivial=len(ops) > 0)
            ctx.count(f"oracle.history.group={desc['group']}")
            oracle_history(ctx, case)
    # O2b: call histories on one Grid object (hidden state on the grid must not leak from call to call)
    for it in range(ctx.n(12, 60) * scale):
        oracle_reuse(ctx, rng)
    # O3: real run()
    for it in range(ctx.n(1, 5) * scale):
        oracle_run(ctx, rng)
    for it in range(ctx.n(1, 3) * scale):
        oracle_run_reuse(ctx, rng)
    for it in range(ctx.n(2, 8) * scale):
        oracle_restart(ctx, rng)
    # O4: tetrahedra
    for it in range(ctx.n(5, 20) * scale):
        oracle_tetra(ctx, rng, tie_probe=(it == 0))
    for it in range(ctx.n(1, 6) * scale):
        oracle_trigonal(ctx, rng)


def replay(ctx, case):
    """re-run the recorded failing cases"""
    for fl in case.get("failures", []):
        c = fl["case"]
        kind = c.get("kind")
        print("replaying:", fl["what"][:200])
        if kind == "hist" and "ops" in c:
            oracle_history(ctx, dict(c, lat=np.array(c["lat"])))
        elif kind == "klist":
            pg = get_pg(c["group"], c["gens"], np.array(c["lat"]))
            oracle_klist(ctx, dict(c, lat=np.array(c["lat"]), kind="replay"), pg, c["useSym"])
        else:
            oracle(ctx, 1)
            return
