"""C30 - grid tabulation covers every grid point once, in C order, with its own values; component extraction."""
import itertools
import os
import warnings
import numpy as np
from fractions import Fraction as Fr

from ..common import F, rats, ints, ratss, intss, quiet

PID = "C30"
CLAIM = dict(
    design="3/C30",
    technique="Lean 4 proof over an index-level model of Grid.get_K_list/points_FFT/kpoints_all, TABresult.to_grid / "
              "find_grid, K__Result.to_grid, get_component and the band-group choice of Tabulator.__call__ + exact "
              "differential correspondence on synthetic TABresults, the real Grid/Data_K k-point lists and integer "
              "tensors + property oracle on real runs (several factorisations, band selections, scrambled collection "
              "order) against evaluate_k at every grid point and against numpy tensor algebra",
    text="Theorems (all grid sizes, factorisations, orders): kz+g2(ky+g1kx) is a bijection between the grid box and "
         "[0,g0g1g2) with explicit inverse = the k-point written to k_new[s]; for every factorisation NKdiv x NKFFT each "
         "point of the dense grid is produced by exactly one (K-point, FFT point) pair (count = 1, nothing else occurs; "
         "slots form a permutation of range); to_grid stores in the slot of a grid point exactly the value carried by the "
         "occurrences of that point (no other k-point contributes; repeated points with equal values average to the value) "
         "for ANY collection order, hence every slot s of the C-ordered output holds the value of the unique tabulated "
         "k-point equal to k_new[s]; find_grid returns g for every complete grid in any order with any multiplicities "
         "(sorting, gaps, largest gap proved), in particular for every factorisation; every point of a band is written by "
         "exactly one writer process for any number of points and processes; a selected band gets the value of "
         "THE degenerate group containing it and the columns follow the selection as given (any order, repetitions kept; "
         "'np.unique first' is proved to permute / drop columns); word and tuple components pick the same tensor element, components are "
         "linear, trace = xx..x+yy..y+zz..z, norm^2 = sum_i d_i conj(d_i) over the last axis only, get_component_list has "
         "3^dim (+trace) entries all of which can be extracted.",
    note="Trusted: Lean kernel + Mathlib; the harness; numpy rint/sort/meshgrid/reshape/transpose/linalg.norm (sqrt is a "
         "parameter of the model); the formulas evaluated by the tabulators (the oracle compares tabulation with "
         "evaluate_k of the same tabulator, not with an independent band-structure code).",
)
TRUSTED = [
    "modelled: Grid.get_K_list order (no symmetry) and points_FFT, Kp_fullBZ, Data_K.kpoints_all, TABresult.to_grid "
    "(k_new, kpoints_int, on_grid with its 1e-5 tolerance, ind_grid, k_map), K__Result.to_grid, TABresult.find_grid, "
    "get_component / get_component_list, the band-group choice of Tabulator.__call__",
    "np.rint is modelled as round-half-even on exact rationals, np.sort as insertion sort, np.linalg.norm through its "
    "square (the square root is a parameter); floats are handed to the model exactly",
    "modelled: the chunking of the parallel text writer _savetxt (npar > 0) behind fermiSurfer / write_frmsf",
    "not modelled (oracle only): the frmsf text layout and write_npz, TabulatorAll / TABresult.__add__ glue, __get_data_grid reshape and band selection "
    "(iband), run() collection, Formula evaluation; symmetric (irreducible) runs belong to C07",
    "tabulated values are compared with evaluate_k of the SAME tabulator at the same k-point (the property's reference)",
]
RULE = ("outputs observed through get_data, the FermiSurfer text with 0-4 writer processes (grid sizes divisible by the "
        "number of writers or not) and the npz writer; grids with sizes 1-6 per direction (odd, even, 1), all factorisations of the dense grid, scrambled and "
        "duplicated k-point lists, off-grid and tolerance-shifted points, tensors of rank 0-3 real and complex, every "
        "component word / tuple / trace / norm / sq incl. invalid ones; non-trivial = grid with more than one point or "
        "tensor rank >= 1; distinct = distinct protocol line (corr) or (operation, grid, order, data) (oracle)")


def imports():
    with quiet():
        from wannierberri.result import KBandResult, TABresult
        from wannierberri.result.kbandresult import get_component, NoComponentError
        from wannierberri.symmetry.point_symmetry import Transform
    return dict(KBandResult=KBandResult, TABresult=TABresult, get_component=get_component,
                NoComponentError=NoComponentError, Transform=Transform)


def n3(t):
    return ints(t)


def rand_grid(rng, big=False):
    return tuple(rng.choice([1, 1, 2, 2, 3, 3, 4, 5, 6] if big else [1, 2, 2, 3, 3, 4]) for _ in range(3))


def all_points(g):
    return [(x, y, z) for x in range(g[0]) for y in range(g[1]) for z in range(g[2])]


def cidx(g, p):
    return p[2] + g[2] * (p[1] + g[1] * p[0])


def mk_tab(W, kpts, data_by_key, mode="grid"):
    """a TABresult from float k-points (nk,3) and {key: array(nk, nb, 3...)}"""
    T = W["Transform"]
    res = {k: W["KBandResult"](np.array(v), transformTR=T(), transformInv=T()) for k, v in data_by_key.items()}
    with quiet():
        return W["TABresult"](kpoints=np.array(kpts, dtype=float), recip_lattice=np.eye(3), results=res, mode=mode,
                              save_mode="none")


def factorisations(g):
    """all (div, fft) with div*fft = g component-wise"""
    per_axis = [[(d, n // d) for d in range(1, n + 1) if n % d == 0] for n in g]
    return [tuple(zip(*c)) for c in itertools.product(*per_axis)]


# --------------------------------------------------------------------------------------------
def corr(ctx):
    W = imports()
    rng = ctx.rng
    lines, expect, cases, approx = [], [], [], []

    def emit(line, exp, what, tol=None):
        lines.append(line)
        expect.append(exp)
        cases.append(what)
        approx.append(tol)
        ctx.count(f"corr.{what}")

    # ---- to_grid / k_new / find_grid on synthetic TABresults ------------------------------------------
    for it in range(ctx.n(60, 500)):
        with ctx.attempt("correspondence section: building / operating on real objects", dict(iteration=it)):
            g = rand_grid(rng)
            pts = all_points(g)
            kind = rng.choice(["perm", "perm", "dup", "dup", "offgrid", "shifted", "missing", "int-shift"])
            lst = list(pts)
            if kind in ("dup", "offgrid", "shifted"):
                lst += [rng.choice(pts) for _ in range(rng.randint(1, 4))]
            if kind == "missing" and len(lst) > 1:
                for _ in range(rng.randint(1, max(1, len(lst) // 3))):
                    if len(lst) > 1:
                        lst.pop(rng.randrange(len(lst)))
            rng.shuffle(lst)
            kf = np.array([[p[i] / g[i] for i in range(3)] for p in lst])
            if kind == "offgrid":      # a few points clearly off the grid (skipped with a warning)
                for _ in range(rng.randint(1, 3)):
                    kf[rng.randrange(len(kf)), rng.randrange(3)] += rng.choice([1e-3, 0.013, -2e-4])
            if kind == "shifted":      # within the 1e-5 tolerance: still on the grid
                for _ in range(rng.randint(1, 3)):
                    kf[rng.randrange(len(kf)), rng.randrange(3)] += rng.choice([1e-7, -1e-8, 3e-9])
            if kind == "int-shift":    # outside [0,1): TABresult stores kpoints % 1
                kf += np.array([[rng.choice([0, 1, -1, 2]) for _ in range(3)] for _ in lst])
            data = np.array([rng.randint(-2 ** 10, 2 ** 10) / 8 for _ in lst]).reshape(-1, 1)
            with warnings.catch_warnings():
                warnings.simplefilter("ignore")
                T = mk_tab(W, kf, {"Energy": data})
                kstored = T.kpoints           # what to_grid sees
                ktok = ratss(kstored)
                try:
                    with quiet():
                        R = T.to_grid(np.array(g))
                    got = rats(R.results["Energy"].data.reshape(-1))
                    knew = ";".join(ints(np.rint(k * np.array(g)).astype(int)) for k in R.kpoints)
                except ZeroDivisionError:
                    got, knew = "E", None
                except Exception as e:  # noqa  (reported as a model/code difference, with the exception name)
                    got, knew = f"raised:{type(e).__name__}", None
            emit(f"togrid {n3(g)} {ktok} {rats(data.reshape(-1))}", got, f"to_grid[{kind}]", tol=1e-12)
            if knew is not None:
                emit(f"knew {n3(g)}", knew, "k_new")
            # find_grid: only when 1/maxgap is far from a half-integer (float rounding must not decide np.round)
            ok = True
            fg = []
            for i in range(3):
                c = sorted([Fr(p[i], g[i]) for p in lst] + [Fr(1)])
                gap = max(b - a for a, b in zip(c, c[1:]))
                q = 1 / gap
                if abs(q - round(q)) > Fr(1, 10):
                    ok = False
            if ok and kind in ("perm", "dup", "missing", "int-shift"):
                with quiet():
                    fg = T.find_grid
                emit(f"findgrid {ktok}", ints(fg), f"find_grid[{'complete' if kind != 'missing' else 'incomplete'}]")

    for q in [Fr(5, 2), Fr(-5, 2), Fr(7, 2), Fr(1, 2), Fr(-1, 2), Fr(3, 2), Fr(9, 4), Fr(-9, 4), Fr(11, 4), Fr(0), Fr(7), Fr(-3)]:
        emit(f"rint {q.numerator}/{q.denominator}", str(int(np.rint(float(q)))), "np.rint")

    # ---- the k-points of a factorisation: real Grid + Data_K ------------------------------------------------
    from ..wbsys import rand_system, wb
    from wannierberri.data_K import get_data_k_class_from_system
    rs = np.random.RandomState(rng.getrandbits(31))
    with quiet():
        system = rand_system(rs, num_wann=2, nR=4, matrices=("Ham",))
        dk_class = get_data_k_class_from_system(system)
    for it in range(ctx.n(8, 40)):
        with ctx.attempt("correspondence section: building / operating on real objects", dict(iteration=it)):
            g = rand_grid(rng)
            div, fft = rng.choice(factorisations(g))
            kall = None
            with ctx.attempt("Grid / Data_K k-points", dict(div=div, fft=fft)), quiet():
                grid = wb.Grid(system, NKdiv=list(div), NKFFT=list(fft), use_symmetry=False)
                K_list = grid.get_K_list(use_symmetry=False)
                kall = []
                for Kp in K_list:
                    dK = dk_class(system, dK=Kp.Kp_fullBZ, grid=grid, Kpoint=Kp)
                    kall.append(np.array(dK.kpoints_all))
            if not kall:
                continue
            kall = np.vstack(kall)
            num = kall * np.array(g)[None, :]
            if np.abs(num - np.rint(num)).max() > 1e-9:
                ctx.fail("k-points of the Data_K objects are not on the dense grid", dict(div=div, fft=fft, k=kall))
                continue
            emit(f"tabpoints {n3(div)} {n3(fft)}", ";".join(ints(r) for r in np.rint(num).astype(int)),
                 "Grid+Data_K k-points")

    # ---- band groups of Tabulator.__call__ (stub data_K / Formula, REAL Tabulator) ---------------------------------
    from wannierberri.calculators.tabulate import Tabulator

    class StubFormula:
        ndim = 0
        transformTR = W["Transform"]()
        transformInv = W["Transform"]()

        def __init__(self, data_K, **kw):
            pass

        def trace(self, ik, inn, out):
            return float((inn[0] * 100 + inn[-1] + 1) * len(inn))

    class StubDataK:
        def __init__(self, groups_per_k, nb):
            self.nk = len(groups_per_k)
            self.num_wann = nb
            self._g = groups_per_k

        def get_bands_in_range_groups(self, *a, **kw):
            return [{n: 0.0 for n in gr} for gr in self._g]

    for it in range(ctx.n(40, 300)):
        with ctx.attempt("correspondence section: building / operating on real objects", dict(iteration=it)):
            nb = rng.randint(1, 7)
            cuts = sorted(rng.sample(range(1, nb), rng.randint(0, nb - 1))) if nb > 1 else []
            borders = [0] + cuts + [nb]
            groups = list(zip(borders, borders[1:]))
            if rng.random() < 0.4:
                rng.shuffle(groups)      # dictionary order must not matter for disjoint groups
            how = rng.choice(["all", "subset", "single", "reordered", "descending", "repeated"])
            ib = list(range(nb)) if how == "all" else sorted(rng.sample(range(nb), rng.randint(1, nb))) if how == "subset" \
                else [rng.randrange(nb)] if how == "single" else rng.sample(range(nb), rng.randint(1, nb)) \
                if how == "reordered" else sorted(rng.sample(range(nb), rng.randint(1, nb)), reverse=True) \
                if how == "descending" else [rng.randrange(nb) for _ in range(rng.randint(2, nb + 2))]
            try:
                with quiet():
                    tab = Tabulator(StubFormula, ibands=None if how == "all" and rng.random() < 0.5 else ib)
                    r = tab(StubDataK([groups], nb)).data[0]
                got = ";".join(f"{int(v) // 100},{int(v) % 100}" for v in r)
            except Exception as e:  # noqa
                got = f"raised:{type(e).__name__}"
            emit(f"groups {intss(groups)} {ints(ib)}", got, f"Tabulator groups[{how}]")

    # ---- components ------------------------------------------------------------------------------------------
    gc = W["get_component"]
    for it in range(ctx.n(160, 800)):
        with ctx.attempt("correspondence section: building / operating on real objects", dict(iteration=it)):
            ndim = rng.choice([0, 1, 1, 2, 2, 3])
            lead = [rng.choice([1, 2, 3]), rng.choice([1, 2])]
            data = np.array([float(rng.randint(-9, 9)) for _ in range(int(np.prod(lead)) * 3 ** ndim)]).reshape(lead + [3] * ndim)
            kind = rng.choice(["word", "word", "tuple", "tuple", "trace", "norm", "sq", "none", "badword", "upper"])
            if kind in ("word", "upper"):
                L = max(ndim, 1) if rng.random() < 0.85 else rng.choice([1, 2, 3, 4])
                w = "".join(rng.choice("xyz") for _ in range(L))
                if 1 < ndim and L != ndim:
                    continue     # partial word: sub-tensor with the tensor axes in front; too long a word: its extra
                    #              letters index the k / band axes (see longword_probe) - neither is modelled
                spec, tok = (w.upper() if kind == "upper" else w), "s:" + w
            elif kind == "tuple":
                L = rng.randint(0, ndim)
                t = tuple(rng.randrange(3) for _ in range(L))
                spec, tok = t, "t:" + ints(t)
            elif kind == "badword":
                spec, tok = rng.choice(["trace", "norm", "sq"]), None
                tok = spec
            elif kind == "none":
                spec, tok = None, "none"
            else:
                spec, tok = kind, kind
            try:
                with quiet():
                    out = gc(data, ndim, spec)
                out = np.asarray(out)
                if tok in ("norm", "sq"):
                    exp = "sq " + rats(np.rint(out ** 2 if tok == "norm" else out).reshape(-1))
                    if np.abs((out ** 2 if tok == "norm" else out) - np.rint(out ** 2 if tok == "norm" else out)).max() > 1e-9:
                        ctx.fail("norm/sq of an integer vector is not the root of / the integer sum of squares", dict(data=data))
                else:
                    exp = rats(out.reshape(-1))
            except W["NoComponentError"]:
                exp = "err:nocomponent"
            except KeyError:
                exp = "err:key"
            except TypeError:
                exp = "err:type"
            except Exception as e:  # noqa
                exp = f"raised:{type(e).__name__}"
            emit(f"component {ints(lead)} {ndim} {tok} {rats(data.reshape(-1))}", exp, f"get_component[{kind},ndim={ndim}]")
    for dim in range(0, 4):
        with quiet():
            k = W["KBandResult"](np.zeros([2, 2] + [3] * dim), transformTR=W["Transform"](), transformInv=W["Transform"]())
            cl = k.get_component_list()
        emit(f"complist {dim}", " ".join("none" if c is None else c if c == "trace" else "s:" + c for c in cl),
             "get_component_list")

    out = ctx.lean(lines)
    for l, o, e, what, tol in zip(lines, out, expect, cases, approx):
        ctx.case(signature=l, nontrivial=True)
        if o == e:
            continue
        if e == "E" and "E" in o.split(","):
            continue     # the code divides 0 by 0 as soon as one slot is empty; the model marks the empty slots
        if tol is not None and o != "bad-op" and "E" not in (o.split(",") + e.split(",")):
            try:
                mo = [Fr(x) for x in o.split(",")]
                me = [Fr(x) for x in e.split(",")]
                if len(mo) == len(me) and all(abs(float(a - b)) <= tol * max(1.0, abs(float(b))) for a, b in zip(mo, me)):
                    continue
            except Exception:  # noqa
                pass
        ctx.mismatch(f"{what}: model != code", dict(line=l[:1200], model=o[:600], code=e[:600]))
    ctx.sample(dict(protocol_line=lines[0][:300], model=out[0][:200], code=expect[0][:200]))


# --------------------------------------------------------------------------------------------
# property-level oracle

def tensor_value(p, ib, rank, cplx, salt):
    """the 'own values' of grid point p and band ib: a deterministic tensor"""
    base = (p[0] * 131 + p[1] * 17 + p[2] * 3 + ib * 7 + salt) % 64
    t = np.array([((base + 5 * i) % 23 - 11) / 4 for i in range(3 ** rank)]).reshape((3,) * rank)
    if cplx:
        t = t + 1j * np.array([((base + 3 * i) % 19 - 9) / 8 for i in range(3 ** rank)]).reshape((3,) * rank)
    return t


def ref_component(X, rank, spec):
    """numpy algebra on the tensor axes (last `rank` axes)"""
    xyz = {"x": 0, "y": 1, "z": 2}
    if spec is None:
        return X
    if isinstance(spec, tuple):
        return X[(Ellipsis,) + spec] if spec else X
    s = spec.lower()
    if s == "trace":
        return sum(X[(Ellipsis,) + (i,) * rank] for i in range(3))
    if s == "norm":
        return np.sqrt((np.abs(X) ** 2).sum(axis=-1))
    if s == "sq":
        return (np.abs(X) ** 2).sum(axis=-1)
    return X[(Ellipsis,) + tuple(xyz[c] for c in s)]


def all_specs(rng, rank):
    specs = [None] if rank == 0 else []
    if rank >= 1:
        specs += ["".join(w) for w in itertools.product("xyz", repeat=rank)]
    if rank == 1:
        specs += ["norm", "sq", "X", "Norm"]
    if rank >= 2:
        specs += ["trace", "TRACE"]
    for L in range(0, rank + 1):
        specs += [tuple(rng.randrange(3) for _ in range(L)) for _ in range(2 if L else 1)]
    return specs


def oracle(ctx, scale):
    W = imports()
    rng = ctx.rng

    # ---- A. synthetic TABresults: slots, C order, own values, band selection, components -----------------------
    for it in range(ctx.n(60, 600) * scale):
        g = rand_grid(rng, big=True)
        if np.prod(g) > 80:
            g = (g[0], g[1], 2)
        pts = all_points(g)
        nb = rng.randint(1, 4)
        dup = rng.random() < 0.4
        lst = list(pts) + ([rng.choice(pts) for _ in range(rng.randint(1, 5))] if dup else [])
        rng.shuffle(lst)
        # the run collects the k-points in pieces (K-points) that are added: split into chunks
        ranks = {"Energy": 0, "vec": 1, "ten": rng.choice([2, 2, 3])}
        cplx = {"Energy": False, "vec": rng.random() < 0.5, "ten": rng.random() < 0.3}
        salt = rng.randint(0, 50)

        def block(sub):
            kf = np.array([[p[i] / g[i] + rng.choice([0, 0, 1, -1]) for i in range(3)] for p in sub])
            d = {q: np.array([[tensor_value(p, ib, ranks[q], cplx[q], salt) for ib in range(nb)] for p in sub])
                 for q in ranks}
            return mk_tab(W, kf, d)
        cuts = sorted(rng.sample(range(1, len(lst)), min(len(lst) - 1, rng.randint(0, 3)))) if len(lst) > 1 else []
        chunks = [lst[a:b] for a, b in zip([0] + cuts, cuts + [len(lst)])]
        case = dict(grid=g, nband=nb, order=lst, chunks=[len(c) for c in chunks], ranks=ranks, duplicates=dup)
        ctx.case(signature=("syn", g, tuple(lst), nb, salt), nontrivial=np.prod(g) > 1)
        ctx.count(f"oracle.synthetic.npoints={'1' if np.prod(g) == 1 else '<=12' if np.prod(g) <= 12 else '>12'}")
        ctx.count("oracle.synthetic.duplicates" if dup else "oracle.synthetic.exact-cover")
        with ctx.attempt("TABresult collection / to_grid / get_data", case):
            with quiet(), warnings.catch_warnings():
                warnings.simplefilter("ignore")
                T = sum(block(c) for c in chunks)
                if rng.random() < 0.5:
                    T.self_to_grid()              # grid recognised by find_grid
                else:
                    T = T.to_grid(np.array(g))
            if tuple(int(x) for x in T.grid) != tuple(g):
                ctx.fail(f"find_grid found {tuple(T.grid)} for a complete {g} grid", case)
                continue
            want_k = np.array([[p[i] / g[i] for i in range(3)] for p in pts])
            if T.kpoints.shape != want_k.shape or np.abs(T.kpoints - want_k).max() > 1e-12:
                ctx.fail("the k-points of the gridded result are not every grid point once in C order", case)
                continue
            for q in ranks:
                full = np.array([[tensor_value(p, ib, ranks[q], cplx[q], salt) for ib in range(nb)] for p in pts])
                full = full.reshape(tuple(g) + (nb,) + (3,) * ranks[q])
                with quiet():
                    got = T.get_data(q)
                if got.shape != full.shape or np.abs(got - full).max() > 1e-12:
                    where = np.argwhere(np.abs(got - full) > 1e-12)[0][:3] if got.shape == full.shape else "shape"
                    ctx.fail(f"{q}: grid slot {where} does not hold the values of its own k-point", case)
                    break
                # band selection on the stored result
                sel = rng.choice([None, rng.randrange(nb), sorted(rng.sample(range(nb), rng.randint(1, nb))),
                                  rng.sample(range(nb), rng.randint(1, nb))])
                # get_data reshapes to the grid, so only full components (scalars per band) apply here
                specs = [sp for sp in all_specs(rng, ranks[q]) if not isinstance(sp, tuple) or len(sp) == ranks[q]]
                for spec in ([None] if q == "Energy" else [None] + specs):
                    with quiet():
                        got = T.get_data(q, iband=sel, component=spec)
                    fsel = full[:, :, :, (np.arange(nb) if sel is None else sel)]
                    want = fsel if (q == "Energy" or spec is None) else ref_component(fsel, ranks[q], spec)
                    tol = 1e-12 * (1 + np.abs(full).max() ** 2)
                    if np.shape(got) != np.shape(want) or np.abs(got - want).max() > tol:
                        ctx.fail(f"get_data({q!r}, iband={sel}, component={spec!r}) differs from the algebraic "
                                 f"operation on the stored tensor", dict(case, quantity=q, iband=sel, component=spec))
                        break

    writer_oracle(ctx, W, scale)

    # ---- B. components on k-band results -----------------------------------------------------------------------
    for it in range(ctx.n(60, 500) * scale):
        rank = rng.choice([0, 1, 2, 3])
        cplx = rng.random() < 0.4
        nk, nb = rng.choice([1, 2, 3, 5]), rng.choice([1, 2, 3])
        X = np.array([rng.randint(-40, 40) / 8 for _ in range(nk * nb * 3 ** rank)]).reshape([nk, nb] + [3] * rank)
        if cplx:
            X = X + 1j * np.array([rng.randint(-40, 40) / 8 for _ in range(X.size)]).reshape(X.shape)
        k = W["KBandResult"](X.copy(), transformTR=W["Transform"](), transformInv=W["Transform"]())
        case = dict(shape=list(X.shape), rank=rank, complex=cplx, X=X)
        ctx.case(signature=("comp", X.shape, X.tobytes()), nontrivial=rank >= 1)
        ctx.count(f"oracle.components.rank={rank}")
        with ctx.attempt("get_component", case):
            with quiet():
                cl = k.get_component_list()
            want_n = 1 if rank == 0 else 3 ** rank + (1 if rank >= 2 else 0)
            if len(cl) != want_n or len(set(cl)) != want_n:
                ctx.fail(f"get_component_list has {len(cl)} entries, expected {want_n} distinct ones", case)
            for spec in list(cl) + all_specs(rng, rank):
                with quiet():
                    got = k.get_component(spec)
                want = ref_component(X, rank, spec)
                if np.shape(got) != np.shape(want) or np.abs(got - want).max(initial=0) > 1e-12 * (1 + np.abs(X).max() ** 2):
                    ctx.fail(f"component {spec!r} of a rank-{rank} tensor differs from the algebraic operation",
                             dict(case, component=spec))
            if not np.array_equal(k.data, X):
                ctx.fail("get_component modified the stored data", case)

    longword_probe(ctx, W)
    band_selection_oracle(ctx, W, scale)
    real_runs(ctx, W, scale)


def longword_probe(ctx, W):
    """outside the property statement (invalid component specifications), recorded as notes only"""
    X = np.arange(2 * 2 * 9, dtype=float).reshape(2, 2, 3, 3)
    try:
        with quiet():
            out = W["get_component"](X, 2, "xxyy")
        ctx.note(f"observation: get_component(data, ndim=2, 'xxyy') returns {np.asarray(out).tolist()} "
                 f"(= data[k=1, band=1, x, x]) instead of raising NoComponentError")
    except Exception:  # noqa
        pass
    try:
        with quiet():
            W["get_component"](X, 2, "norm")
    except KeyError:
        ctx.note("observation: get_component(data, ndim=2, 'norm') raises KeyError rather than NoComponentError")
    except Exception:  # noqa
        pass


def parse_frmsf(txt):
    lines = txt.split("\n")
    grid = tuple(int(x) for x in lines[0].split())
    nband = int(lines[2])
    recip = np.array([[float(x) for x in lines[3 + i].split()] for i in range(3)])
    vals = np.array([float(x) for x in lines[6:] if x.strip()])
    return grid, nband, recip, vals


import contextlib


@contextlib.contextmanager
def thread_pool():
    """starting a pool of writer PROCESSES from this (large) process costs seconds on a loaded machine: except for a few
    cases per run the code's `multiprocessing.Pool(npar)` is given a pool of threads with the same map() contract
    (as DESIGN 1.6 does for ray); the chunking / joining logic under test is the code's own"""
    import multiprocessing
    import multiprocessing.pool
    orig = multiprocessing.Pool
    multiprocessing.Pool = multiprocessing.pool.ThreadPool
    try:
        yield
    finally:
        multiprocessing.Pool = orig


def writer_oracle(ctx, W, scale):
    """the outputs written from a gridded tabulation - FermiSurfer text (TABresult.fermiSurfer, serial and with
    npar = 1..4 writer processes) and the npz file (write_npz) - list every grid point of every selected band exactly
    once, in C order, with its own values, for every grid size (divisible by the number of writers or not)"""
    from wannierberri.result.tabresult import write_npz
    rng = ctx.rng
    tmp = os.path.join(ctx.work, "writers")
    os.makedirs(tmp, exist_ok=True)
    real_pools = ctx.n(1, 4)
    for it in range(ctx.n(20, 150) * min(scale, 3)):
        # the parallel cases use mostly grids whose number of points is NOT a multiple of the number of writers
        npar = rng.choice([0, 1, 2, 2, 3, 3, 4, 4, 5, 7])
        for _ in range(10):
            g = rand_grid(rng, big=True)
            if np.prod(g) > 60:
                g = (g[0], g[1], 1)
            if npar < 2 or np.prod(g) % npar != 0 or rng.random() < 0.2:
                break
        pts = all_points(g)
        use_processes = npar >= 2 and real_pools > 0 and np.prod(g) % npar != 0
        real_pools -= int(use_processes)
        nb = 1 if use_processes else rng.randint(1, 3)
        order = list(pts)
        rng.shuffle(order)
        salt = rng.randint(0, 50)
        ranks = {"Energy": 0, "vec": 1, "ten": 2}
        d = {q: np.array([[tensor_value(p, ib, ranks[q], False, salt) for ib in range(nb)] for p in order]) for q in ranks}
        full = {q: np.array([[tensor_value(p, ib, ranks[q], False, salt) for ib in range(nb)] for p in pts]) for q in ranks}
        q = None if use_processes else rng.choice([None, "vec", "vec", "ten"])
        spec = None if q is None else rng.choice(["x", "y", "z", "norm"]) if q == "vec" else \
            rng.choice(["xy", "zz", "trace", (2, 0)])
        sel = rng.choice([None, rng.randrange(nb), rng.sample(range(nb), rng.randint(1, nb))])
        ef = rng.choice([0.0, 0.25, -1.5])
        recip = np.array([[1., 0.25, 0], [0, 2., 0], [0.5, 0, 1.5]])
        case = dict(grid=g, nband=nb, npar=npar, quantity=q, component=spec, iband=sel, efermi=ef)
        ctx.case(signature=("frmsf", g, nb, npar, q, str(spec), str(sel), salt), nontrivial=np.prod(g) > 1)
        ctx.count(f"oracle.writers.npar={npar}")
        if npar >= 2:
            ctx.count("oracle.writers.points%writers" + ("=0" if np.prod(g) % npar == 0 else "!=0"))
        with ctx.attempt("FermiSurfer / npz writers", case):
            with quiet(), warnings.catch_warnings():
                warnings.simplefilter("ignore")
                T = mk_tab(W, np.array([[p[i] / g[i] for i in range(3)] for p in order]), d)
                T.recip_lattice = recip
                T.self_to_grid()
                with (contextlib.nullcontext() if use_processes else thread_pool()):
                    txt = T.fermiSurfer(quantity=q, component=spec, efermi=ef, npar=npar, iband=sel)
                ctx.count("oracle.writers.pool=" + ("processes" if use_processes else "threads" if npar else "serial"))
            bands = list(range(nb)) if sel is None else [sel] if isinstance(sel, int) else list(sel)
            want = [full["Energy"][:, b] - ef for b in bands]
            if q is not None:
                X = ref_component(full[q], ranks[q], spec)
                want += [X[:, b] for b in bands]
            want = np.concatenate(want)
            grid, nband, rl, vals = parse_frmsf(txt)
            if grid != tuple(g) or nband != len(bands) or np.abs(rl - recip).max() > 1e-7:
                ctx.fail(f"frmsf header: grid {grid}, {nband} bands, expected {g}, {len(bands)} bands", case)
            elif vals.shape != want.shape:
                ctx.fail(f"frmsf text has {len(vals)} values instead of {len(want)} "
                         f"({len(bands)} bands x {2 if q else 1} blocks x {len(pts)} grid points): grid points are "
                         f"missing or repeated", case)
            elif np.abs(vals - want).max() > 1e-7:
                ctx.fail("frmsf text does not list the grid points in C order with their own values "
                         f"(first difference at entry {int(np.argmax(np.abs(vals - want) > 1e-7))})", case)
            # the binary writer
            name = os.path.join(tmp, f"w{it}")
            with quiet():
                write_npz(name, quantities=list(ranks), res=T, suffix="s")
            z = np.load(name + "-s.npz")
            for qq in ranks:
                wantq = full[qq].reshape(tuple(g) + (nb,) + (3,) * ranks[qq])
                if z[qq].shape != wantq.shape or np.abs(z[qq] - wantq).max() > 1e-12:
                    ctx.fail(f"write_npz: {qq} in the npz file is not the grid in C order with its own values", case)
            os.remove(name + "-s.npz")


def rand_selection(rng, nw, kind=None):
    """band selections in every form the API accepts: ascending, descending, arbitrary order, repeated entries"""
    kind = kind or rng.choice(["ascending", "descending", "arbitrary", "arbitrary", "repeated", "repeated", "single", "none"])
    if kind == "none":
        return kind, None
    if kind == "single":
        return kind, [rng.randrange(nw)]
    if kind == "ascending":
        return kind, sorted(rng.sample(range(nw), rng.randint(1, nw)))
    if kind == "descending":
        return kind, sorted(rng.sample(range(nw), rng.randint(2, nw)), reverse=True)
    if kind == "arbitrary":
        for _ in range(20):
            sel = rng.sample(range(nw), rng.randint(2, nw))
            if sel != sorted(sel):
                return kind, sel
        return kind, list(range(nw))[::-1]
    sel = [rng.randrange(nw) for _ in range(rng.randint(2, nw + 1))]
    sel.append(sel[0])
    rng.shuffle(sel)
    return kind, sel


def band_selection_oracle(ctx, W, scale):
    """band selections at EVERY level that accepts them - TabulatorAll(ibands=), each Tabulator(ibands=),
    get_data(iband=) - in grid and path mode: column j must be band sel[j] of the same k-point evaluated alone,
    in the order the user gave (repetitions included)"""
    from ..wbsys import rand_system, wb
    tab = wb.calculators.tabulate
    rng = ctx.rng
    rs = np.random.RandomState(rng.getrandbits(31))
    ranks = {"Energy": 0, "V": 1, "O": 1}
    classes = {"Energy": tab.Energy, "V": tab.Velocity, "O": tab.BerryCurvature}
    for isys in range(ctx.n(1, 3)):
        nw = int(rs.choice([3, 4, 5]))
        with quiet():
            system = rand_system(rs, num_wann=nw, nR=5, matrices=("Ham", "AA"))
        for it in range(ctx.n(16, 60) * min(scale, 4)):
            k = np.array([rng.randint(0, 7) / 8 + rng.choice([0, 0.03]) for _ in range(3)])
            kind, sel = rand_selection(rng, nw)
            cols = list(range(nw)) if sel is None else list(sel)
            mode = rng.choice(["grid", "path"])
            level = rng.choice(["TabulatorAll", "TabulatorAll+members", "member only"])
            case = dict(num_wann=nw, k=k, ibands=sel, kind=kind, mode=mode, level=level)
            ctx.case(signature=("bands", nw, tuple(k), tuple(cols), kind, mode, level), nontrivial=sel is not None)
            ctx.count(f"oracle.bands.{kind}")
            ctx.count(f"oracle.bands.level={level}")
            ctx.count(f"oracle.bands.mode={mode}")
            with ctx.attempt("band selection", case), quiet():
                # reference: every band of that k-point, evaluated with ibands=None and band by band
                full = wb.evaluate_k(system, k=k, calculators={q: c() for q, c in classes.items()},
                                     return_single_as_dict=True)
                full = {q: full[q].data[0] for q in classes}
                b0 = cols[0]
                one = wb.evaluate_k(system, k=k, calculators={q: c(ibands=[b0]) for q, c in classes.items()},
                                    return_single_as_dict=True)
                for q in classes:
                    if np.abs(one[q].data[0][0] - full[q][b0]).max() > 1e-9 * (1 + np.abs(full[q]).max()):
                        ctx.fail(f"{q}: a single selected band {b0} differs from that band of the full tabulation", case)
                if level == "member only":
                    res = wb.evaluate_k(system, k=k, calculators={q: c(ibands=sel) for q, c in classes.items()},
                                        return_single_as_dict=True)
                    got = {q: res[q].data[0] for q in classes}
                    T = None
                else:
                    members = {q: (c(ibands=sel) if level == "TabulatorAll+members" else c()) for q, c in classes.items()}
                    calc = tab.TabulatorAll(members, ibands=sel, mode=mode, save_mode="none")
                    T = wb.evaluate_k(system, k=k, calculators={"t": calc}, return_single_as_dict=True)["t"]
                    got = {q: T.get_data(q)[0] for q in classes}
                for q in classes:
                    want = full[q][cols]
                    if got[q].shape != want.shape or np.abs(got[q] - want).max() > 1e-9 * (1 + np.abs(full[q]).max()):
                        wrong = [j for j in range(min(len(cols), len(got[q])))
                                 if np.abs(got[q][j] - want[j]).max() > 1e-9 * (1 + np.abs(full[q]).max())] \
                            if got[q].shape == want.shape else "shape"
                        ctx.fail(f"{q} with ibands={sel} ({level}, mode={mode}): columns {wrong} are not the bands "
                                 f"{cols} in the order given (shape {got[q].shape}, expected {want.shape})",
                                 dict(case, quantity=q))
                        break
                # a second selection on the stored result: get_data(iband=...) indexes the columns as stored
                if T is not None:
                    _, sel2 = rand_selection(rng, len(cols), kind=rng.choice(["descending", "arbitrary", "repeated", "single"])
                                             if len(cols) > 1 else "single")
                    for q in ("Energy", "V"):
                        g2 = T.get_data(q, iband=sel2, component=None if q == "Energy" else "z")
                        w2 = full[q][cols][sel2] if q == "Energy" else full[q][cols][sel2][..., 2]
                        if g2[0].shape != w2.shape or np.abs(g2[0] - w2).max() > 1e-9 * (1 + np.abs(full[q]).max()):
                            ctx.fail(f"get_data({q!r}, iband={sel2}) on a result tabulated with ibands={sel} does not "
                                     f"return the stored columns {sel2} in that order", dict(case, quantity=q, iband=sel2))
                            break


def real_runs(ctx, W, scale):
    """tabulate a random tight-binding model on the same dense grid with several factorisations NKdiv x NKFFT and
    band selections; every slot must hold what evaluate_k gives for that k-point alone"""
    from ..wbsys import rand_system, wb
    from wannierberri.data_K import get_data_k_class_from_system
    tab = wb.calculators.tabulate
    rng = ctx.rng
    rs = np.random.RandomState(rng.getrandbits(31))
    cwd = os.getcwd()
    os.chdir(ctx.work)
    try:
        for isys in range(ctx.n(1, 3) * min(scale, 2)):
            nw = int(rs.choice([2, 3, 4]))
            with quiet():
                system = rand_system(rs, num_wann=nw, nR=6, matrices=("Ham", "AA"))
            g = rng.choice([(2, 3, 2), (3, 2, 1), (2, 2, 3), (4, 1, 3), (1, 5, 2), (3, 3, 2)])
            facs = factorisations(g)
            rng.shuffle(facs)
            facs = facs[:ctx.n(3, 6)]
            ibands = list(range(nw))

            def tabs():
                return {"Energy": tab.Energy(), "V": tab.Velocity(), "O": tab.BerryCurvature(), "M": tab.InvMass()}
            ranks = {"Energy": 0, "V": 1, "O": 1, "M": 2}
            pts = all_points(g)
            # reference: every k-point evaluated alone
            ref = {q: [] for q in ranks}
            with ctx.attempt("evaluate_k with tabulators at a grid point", dict(num_wann=nw, grid=g)), quiet():
                for p in pts:
                    kk = [p[i] / g[i] for i in range(3)]
                    r = wb.evaluate_k(system, k=kk, calculators={q: type(t)(ibands=ibands) for q, t in tabs().items()},
                                      return_single_as_dict=True)
                    for q in ranks:
                        ref[q].append(r[q].data[0])
            if any(len(v) != len(pts) for v in ref.values()):
                continue
            ref = {q: np.array(v).reshape(tuple(g) + (len(ibands),) + (3,) * ranks[q]) for q, v in ref.items()}
            scale_q = {q: 1 + np.abs(v).max() for q, v in ref.items()}
            ref_all = ref
            for ifac, (div, fft) in enumerate(facs):
                # a different band selection for every factorisation (None = all bands)
                sel = rand_selection(rng, nw, kind=["arbitrary", "repeated", "none", "descending", "ascending",
                                                    "single"][(ifac + isys) % 6])[1]
                ibands = list(range(nw)) if sel is None else list(sel)
                ref = {q: v[:, :, :, ibands] for q, v in ref_all.items()}
                case = dict(num_wann=nw, grid=g, NKdiv=div, NKFFT=fft, ibands=sel,
                            what="wb.run with TabulatorAll vs evaluate_k per grid point")
                ctx.case(signature=("run", nw, g, div, fft, tuple(ibands), isys), nontrivial=True)
                ctx.count("oracle.real-run")
                ctx.count(f"oracle.real-run.ibands={'all' if sel is None else len(ibands)}")
                with ctx.attempt("tabulation run", case):
                    with quiet(), warnings.catch_warnings():
                        warnings.simplefilter("ignore")
                        grid = wb.Grid(system, NKdiv=list(div), NKFFT=list(fft), use_symmetry=False)
                        calc = tab.TabulatorAll(tabs(), ibands=sel, mode="grid", save_mode="none")
                        res = wb.run(system, grid, calculators={"tabulate": calc}, parallel=False, use_irred_kpt=False,
                                     symmetrize=False, adpt_num_iter=0, print_progress_step_time=1e6,
                                     fout_name=os.path.join(ctx.work, "result"), suffix="c30",
                                     file_Klist_path=os.path.join(ctx.work, "klist"))
                        T = res.results["tabulate"]
                        # the same K-points collected in a scrambled order (as a parallel run may do)
                        dk_class = get_data_k_class_from_system(system)
                        K_list = grid.get_K_list(use_symmetry=False)
                        order = list(range(len(K_list)))
                        rng.shuffle(order)
                        calc2 = tab.TabulatorAll(tabs(), ibands=sel, mode="grid", save_mode="none")
                        T2 = sum(calc2(dk_class(system, dK=K_list[i].Kp_fullBZ, grid=grid, Kpoint=K_list[i])) for i in order)
                        T2.self_to_grid()
                    for name, TT in (("serial run", T), ("scrambled collection", T2)):
                        if tuple(int(x) for x in TT.grid) != tuple(g):
                            ctx.fail(f"{name}: grid {tuple(TT.grid)} instead of {g}", case)
                            continue
                        want_k = np.array([[p[i] / g[i] for i in range(3)] for p in pts])
                        if TT.kpoints.shape != want_k.shape or np.abs(TT.kpoints - want_k).max() > 1e-9:
                            ctx.fail(f"{name}: k-points are not every grid point once in C order", case)
                            continue
                        for q in ranks:
                            with quiet():
                                got = TT.get_data(q)
                            if got.shape != ref[q].shape:
                                ctx.fail(f"{name}: {q} has shape {got.shape}, expected {ref[q].shape}", case)
                                continue
                            err = np.abs(got - ref[q])
                            if err.max() > 1e-9 * scale_q[q]:
                                w = np.unravel_index(np.argmax(err), err.shape)
                                ctx.fail(f"{name}: {q} at grid point {w[:3]} band {w[3]} differs from evaluating that "
                                         f"k-point alone by {err.max():.2e}", dict(case, quantity=q))
                        # components on a real result
                        with quiet():
                            vx = TT.get_data("V", iband=0, component="y")
                            tr = TT.get_data("M", component="trace")
                            nrm = TT.get_data("O", component="norm")
                        if np.abs(vx - ref["V"][..., 0, 1]).max() > 1e-9 * scale_q["V"] or \
                                np.abs(tr - np.einsum("...ii", ref["M"])).max() > 1e-9 * scale_q["M"] or \
                                np.abs(nrm - np.linalg.norm(ref["O"], axis=-1)).max() > 1e-9 * scale_q["O"]:
                            ctx.fail(f"{name}: component y / trace / norm of a tabulated quantity differs from the algebra",
                                     case)
            # the same model tabulated along a path, with an unsorted / repeated band selection
            with ctx.attempt("tabulation along a path", dict(num_wann=nw)):
                kpath = [[rng.randint(0, 11) / 12 for _ in range(3)] for _ in range(rng.randint(3, 6))]
                kindp, selp = rand_selection(rng, nw, kind=rng.choice(["arbitrary", "repeated", "descending"]))
                with quiet(), warnings.catch_warnings():
                    warnings.simplefilter("ignore")
                    path = wb.Path(system, k_list=kpath)
                    calc = tab.TabulatorAll(tabs(), ibands=selp, mode="path", save_mode="none")
                    res = wb.run(system, path, calculators={"tabulate": calc}, parallel=False, adpt_num_iter=0,
                                 print_progress_step_time=1e6, fout_name=os.path.join(ctx.work, "result"), suffix="c30p",
                                 file_Klist_path=os.path.join(ctx.work, "klist"))
                    TP = res.results["tabulate"]
                    refp = {q: [] for q in ranks}
                    for kk in kpath:
                        r = wb.evaluate_k(system, k=np.array(kk), calculators={q: type(t)() for q, t in tabs().items()},
                                          return_single_as_dict=True)
                        for q in ranks:
                            refp[q].append(r[q].data[0][selp])
                ctx.case(signature=("path", nw, tuple(map(tuple, kpath)), tuple(selp)), nontrivial=True)
                ctx.count("oracle.path-run")
                casep = dict(num_wann=nw, kpath=kpath, ibands=selp, kind=kindp)
                for q in ranks:
                    with quiet():
                        got = TP.get_data(q)
                    want = np.array(refp[q])
                    if got.shape != want.shape or np.abs(got - want).max() > 1e-9 * (1 + np.abs(want).max()):
                        ctx.fail(f"path tabulation: {q} with ibands={selp} is not, point by point and column by column, "
                                 f"the selected bands in the order given", dict(casep, quantity=q))
    finally:
        os.chdir(cwd)


def replay(ctx, case):
    oracle(ctx, 1)
