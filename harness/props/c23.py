"""C23 - Monkhorst-Pack mesh detection recovers the mesh (get_mp_grid, grid_from_kpoints)."""
import itertools
import warnings
import numpy as np
from fractions import Fraction as Fr

from ..common import ratss, ints, quiet

PID = "C23"
CLAIM = dict(
    design="3/C23",
    technique="Lean 4 proof over an exact-rational model of get_mp_grid / grid_from_kpoints (per-direction detection, "
              "lcm of denominators, selection loop with its seen-set, counting against the mesh box) + exact "
              "differential correspondence on float inputs that are fractions with denominator <= 100 + property "
              "oracle on the real code over every mesh size 1..100",
    text="Theorems (every mesh size N1,N2,N3 >= 1 - unbounded -, every order, every multiplicity of the points): "
         "on the points of a Gamma-centred mesh get_mp_grid returns N (also when coordinates are only given modulo 1) "
         "and a successful return implies every point lies on the returned grid; the lcm of the reduced denominators "
         "is N and grid_from_kpoints(kpoints) returns N; for a given grid the selected indices are strictly "
         "increasing, point at on-grid points, and every on-grid point occurring in the list is selected through "
         "exactly one index; on reduced coordinates the selection succeeds with exactly N1*N2*N3 entries iff every "
         "mesh point occurs, raises 'missing' as soon as one mesh point is absent, and never reaches the 'taken "
         "twice' branch; whenever grid_from_kpoints returns a grid the list contains that complete mesh.  The "
         "hypothesis 'reduced to [0,1)' is shown necessary (k=1 next to k=0 is taken twice).",
    note="Trusted: Lean kernel + Mathlib; the harness; CPython Fraction.limit_denominator(100) and the float roundings "
         "np.round(.,8), np.round(.,6), is_round(.,1e-5) are not modelled (they are the identity / exact integrality on "
         "floats within 5e-9 of a fraction with denominator <= 100) - they are exercised by the correspondence run and by "
         "the oracle for every N <= 100.  get_mp_grid does not check completeness (the assert is commented out in the "
         "code); rejection of incomplete meshes is a property of grid_from_kpoints only.",
)
TRUSTED = [
    "modelled: get_mp_grid (per-direction min of non-zero fractions, numerator assert, on-grid assert), "
    "grid_from_kpoints (lcm of denominators, selection loop, missing / twice errors)",
    "not modelled (trusted, exercised on floats by corr + oracle): Fraction.limit_denominator(100), np.round(.,8) % 1, "
    "np.round(.,6), is_round(.,1e-5), np.lcm.reduce on int64 (no overflow for denominators of one mesh)",
    "model inputs are the exact fractions p/q (q <= 100) whose nearest doubles are given to the real code",
]
RULE = ("k-point lists built from Gamma-centred meshes N1xN2xN3 (shuffled; with duplicated, removed, integer-shifted and "
        "foreign off-grid points, whole denominator layers removed) and from random small fractions; ops: get_mp_grid, grid_from_kpoints(grid=None), "
        "grid_from_kpoints(grid=N / a divisor grid / an unrelated grid); non-trivial = more than one k-point and "
        "not all coordinates zero; distinct = distinct (op, grid, exact point list)")


# ------------------------------------------------------------------------------------------------
# generators (exact fractions; the real code receives float(fraction))

def mesh_exact(N):
    return [(Fr(i, N[0]), Fr(j, N[1]), Fr(l, N[2])) for i in range(N[0]) for j in range(N[1]) for l in range(N[2])]


def to_float(ks):
    return np.array([[float(c) for c in k] for k in ks], dtype=float).reshape(-1, 3)


def rand_grid(rng, maxprod):
    while True:
        N = tuple(rng.choice([1, 1, 2, 2, 3, 3, 4, 5, 6, 7, 8]) for _ in range(3))
        if N[0] * N[1] * N[2] <= maxprod:
            return N


def remove_denominator_layers(rng, N, ks):
    """adversarial removal: drop every point whose coordinate along one axis has a reduced denominator in a random
    set D of divisors of N_axis (e.g. all i coprime to N) - the remaining denominators may still have lcm N while
    their maximum is smaller"""
    ax = rng.choice([a for a in range(3) if N[a] > 1] or [0])
    divs = [d for d in range(2, N[ax] + 1) if N[ax] % d == 0]
    if not divs:
        return ks, ax, []
    D = set(rng.sample(divs, rng.randint(1, max(1, len(divs) // 2))))
    if rng.random() < 0.6:
        D.add(N[ax])
    return [k for k in ks if k[ax].denominator not in D], ax, sorted(D)


def divisor_grid(rng, N):
    return tuple(rng.choice([d for d in range(1, n + 1) if n % d == 0]) for n in N)


def call_mp(ks):
    from wannierberri.w90files.utility import get_mp_grid
    try:
        with quiet():
            g = get_mp_grid(ks)
        return "ok " + ",".join(str(int(x)) for x in g)
    except AssertionError as e:
        s = str(e)
        if "numerator" in s:
            return "num"
        if "not on the Monkhorst" in s:
            return "offgrid"
        return "assert:" + s[:60]


def call_gfk(ks, grid=None):
    from wannierberri.w90files.utility import grid_from_kpoints
    try:
        with quiet(), warnings.catch_warnings():
            warnings.simplefilter("ignore")
            r = grid_from_kpoints(ks, grid=grid)
        return "ok " + ints(r)
    except ValueError as e:
        return "missing" if "missing" in str(e) else "ValueError:" + str(e)[:60]
    except RuntimeError as e:
        return "twice" if "twice" in str(e) else "RuntimeError:" + str(e)[:60]


def corr_case(rng, maxprod):
    """returns (class name, exact k list, list of grids to select with)"""
    cls = rng.choice(["mesh", "mesh", "dup", "removed", "shifted", "foreign", "random", "mixed", "layers", "layers"])
    N = rand_grid(rng, maxprod)
    if cls == "layers":
        N = list(N)
        N[rng.randrange(3)] = rng.choice([4, 6, 6, 8, 10, 12, 12])
        N = tuple(N)
    ks = mesh_exact(N)
    if cls == "layers":
        ks, _, _ = remove_denominator_layers(rng, N, ks)
    if cls in ("dup", "mixed"):
        ks = ks + [rng.choice(ks) for _ in range(rng.randint(1, 4))]
    if cls in ("removed", "mixed") and len(ks) > 1:
        for _ in range(rng.randint(1, min(3, len(ks) - 1))):
            ks.pop(rng.randrange(len(ks)))
    if cls == "shifted":
        ks = [tuple(c + rng.choice([0, 0, 0, 1, -1, 2]) for c in k) for k in ks]
    if cls in ("foreign", "mixed"):
        M = rand_grid(rng, 60)
        ks = ks + [rng.choice(mesh_exact(M)) for _ in range(rng.randint(1, 4))]
    if cls == "random":
        ks = [tuple(Fr(rng.randint(0, q - 1), q) for q in (rng.choice([1, 2, 3, 4, 5, 6, 8, 10, 12]) for _ in range(3)))
              for _ in range(rng.randint(1, 8))]
    rng.shuffle(ks)
    grids = [N, divisor_grid(rng, N)]
    if rng.random() < 0.3:
        grids.append(rand_grid(rng, 60))
    return cls, N, ks, grids


def corr(ctx):
    rng = ctx.rng
    lines, expect, cases = [], [], []
    ncase = ctx.n(150, 2000)
    for it in range(ncase):
        cls, N, ks, grids = corr_case(rng, ctx.n(60, 150))
        kf = to_float(ks)
        ctx.count(f"corr.class.{cls}")
        ctx.count(f"corr.nk<={10 * ((len(ks) + 9) // 10)}")
        tok = ratss(ks)
        case = dict(cls=cls, N=N, kpoints=kf.tolist())
        with ctx.attempt("get_mp_grid", case):
            expect.append(call_mp(kf)); lines.append(f"mp {tok}"); cases.append(dict(case, fn="get_mp_grid"))
        with ctx.attempt("grid_from_kpoints(grid=None)", case):
            expect.append(call_gfk(kf)); lines.append(f"gfk {tok}"); cases.append(dict(case, fn="grid_from_kpoints"))
        for g in grids:
            with ctx.attempt("grid_from_kpoints(grid=g)", dict(case, grid=g)):
                expect.append(call_gfk(kf, grid=g)); lines.append(f"sel {ints(g)} {tok}")
                cases.append(dict(case, fn="grid_from_kpoints", grid=g))
    out = ctx.lean(lines)
    for l, o, e, c in zip(lines, out, expect, cases):
        nontriv = len(c["kpoints"]) > 1 and bool(np.any(np.array(c["kpoints"]) != 0))
        ctx.case(signature=l, nontrivial=nontriv)
        ctx.count("corr.result." + e.split(" ")[0].split(":")[0])
        if o != e:
            ctx.mismatch(f"{c['fn']}: model={o[:200]} code={e[:200]}", dict(line=l[:2000], case=c))
    if lines:
        ctx.sample(dict(protocol_line=lines[0][:400], model=out[0], code=expect[0]))
        ctx.sample(dict(protocol_line=lines[-1][:400], model=out[-1], code=expect[-1]))


# ------------------------------------------------------------------------------------------------
# property-level oracle on the real code (written from the property statement; no use of the model)

def float_variants(rng, ks_exact, N):
    """the same mesh as a user could hold it: correctly rounded doubles, numpy linspace products, or decimal text
    with 10/12 digits (as read from a .win file)"""
    v = rng.choice(["double", "double", "double", "text12", "text10", "linspace"])
    if v == "double":
        return v, to_float(ks_exact)
    if v == "linspace":
        ax = [np.linspace(0, 1, n, endpoint=False) for n in N]
        return v, np.array([[ax[d][int(k[d] * N[d])] for d in range(3)] for k in ks_exact]).reshape(-1, 3)
    d = 12 if v == "text12" else 10
    return v, np.array([[float(f"{float(c):.{d}f}") for c in k] for k in ks_exact]).reshape(-1, 3)


def check_detect(ctx, kf, N, what, case):
    """property: mesh detection returns the mesh dimensions (both detectors)"""
    ok = True
    with ctx.attempt(f"get_mp_grid on {what}", dict(case, fn="get_mp_grid")):
        r = call_mp(kf)
        if r != "ok " + ints(N):
            ctx.fail(f"get_mp_grid on {what} of mesh {N}: returned {r}", dict(case, fn="get_mp_grid", got=r))
            ok = False
    with ctx.attempt(f"grid_from_kpoints on {what}", dict(case, fn="grid_from_kpoints")):
        r = call_gfk(kf)
        if r != "ok " + ints(N):
            ctx.fail(f"grid_from_kpoints(grid=None) on {what} of mesh {N}: returned {r}",
                     dict(case, fn="grid_from_kpoints", got=r))
            ok = False
    return ok


def check_select(ctx, kf, ks_exact, g, what, case):
    """property: selection for the mesh g returns each point of g exactly once, and rejects the list when a point
    of g is absent.  Reference: exact set arithmetic on the fractions the floats were made from."""
    want = set(mesh_exact(g))
    present = {k for k in ks_exact if k in want}
    case = dict(case, fn="grid_from_kpoints", grid=g)
    with ctx.attempt(f"grid_from_kpoints(grid={g}) on {what}", case):
        r = call_gfk(kf, grid=g)
        if present != want:
            if r != "missing":
                ctx.fail(f"grid_from_kpoints(grid={g}) on {what}: {len(want - present)} mesh point(s) absent but "
                         f"the result is {r[:80]} instead of ValueError(missing)", dict(case, got=r))
            return
        if not r.startswith("ok "):
            ctx.fail(f"grid_from_kpoints(grid={g}) on {what}: complete mesh rejected with {r}", dict(case, got=r))
            return
        sel = [int(t) for t in r[3:].split(",")]
        if any(not (0 <= i < len(ks_exact)) for i in sel):
            ctx.fail(f"grid_from_kpoints(grid={g}) on {what}: index out of range", dict(case, got=r))
            return
        pts = [ks_exact[i] for i in sel]
        if len(set(sel)) != len(sel) or len(pts) != len(want) or set(pts) != want:
            extra = [p for p in pts if p not in want]
            ctx.fail(f"grid_from_kpoints(grid={g}) on {what}: selection is not 'each mesh point exactly once' "
                     f"(selected {len(sel)}, distinct points {len(set(pts))}, mesh {len(want)}, off-mesh {len(extra)})",
                     dict(case, got=r))


def check_incomplete_detect(ctx, kf, ks_exact, what, case):
    """property: a mesh with points removed is rejected - a grid may only be returned when the point set IS that
    complete mesh; get_mp_grid (no completeness check in the code) must at least only return grids all points lie on"""
    pts = set(ks_exact)
    with ctx.attempt(f"grid_from_kpoints on {what}", dict(case, fn="grid_from_kpoints")):
        r = call_gfk(kf)
        if r.startswith("ok "):
            g = tuple(int(t) for t in r[3:].split(","))
            if pts != set(mesh_exact(g)):
                ctx.fail(f"grid_from_kpoints(grid=None) on {what}: returned grid {g} although the point set is not "
                         f"the complete mesh {g} ({len(pts)} distinct points)", dict(case, fn="grid_from_kpoints", got=r))
        elif r != "missing":
            ctx.fail(f"grid_from_kpoints(grid=None) on {what}: unexpected {r}", dict(case, fn="grid_from_kpoints", got=r))
    with ctx.attempt(f"get_mp_grid on {what}", dict(case, fn="get_mp_grid")):
        r = call_mp(kf)
        if r.startswith("ok "):
            g = tuple(int(t) for t in r[3:].split(","))
            if any((c * n).denominator != 1 for k in pts for c, n in zip(k, g)):
                ctx.fail(f"get_mp_grid on {what}: returned {g} but some k-point is not on that grid",
                         dict(case, fn="get_mp_grid", got=r))


def one_mesh(ctx, rng, N):
    full = mesh_exact(N)
    nk = len(full)
    ctx.count(f"oracle.maxN<={10 * ((max(N) + 9) // 10)}")
    ctx.count(f"oracle.nk<={10 ** len(str(nk - 1)) if nk > 1 else 1}")
    # 1. complete mesh, random order
    ks = list(full)
    order = rng.choice(["shuffled", "shuffled", "reversed", "F-order", "C-order"])
    if order == "shuffled":
        rng.shuffle(ks)
    elif order == "reversed":
        ks.reverse()
    elif order == "F-order":
        ks.sort(key=lambda k: (k[2], k[1], k[0]))
    variant, kf = float_variants(rng, ks, N)
    ctx.count(f"oracle.order.{order}")
    ctx.count(f"oracle.floats.{variant}")
    case = dict(N=N, order=order, floats=variant, kpoints=kf.tolist(), exact=[[str(c) for c in k] for k in ks])
    ctx.case(signature=("mesh", N, order, variant, tuple(ks[:6])), nontrivial=nk > 1)
    check_detect(ctx, kf, N, f"the complete mesh ({order}, {variant})", case)
    check_select(ctx, kf, ks, N, f"the complete mesh ({order}, {variant})", case)
    # 2. duplicates inserted anywhere
    ks2 = list(ks) + [rng.choice(ks) for _ in range(rng.randint(1, 5))]
    rng.shuffle(ks2)
    kf2 = to_float(ks2)
    case2 = dict(N=N, variant="duplicates", kpoints=kf2.tolist(), exact=[[str(c) for c in k] for k in ks2])
    ctx.case(signature=("dup", N, tuple(ks2[:6])), nontrivial=nk > 1)
    check_detect(ctx, kf2, N, "the mesh with duplicated points", case2)
    check_select(ctx, kf2, ks2, N, "the mesh with duplicated points", case2)
    # 3. points removed (1 .. a few), duplicates of other points may remain
    if nk > 1:
        ks3 = list(ks2 if rng.random() < 0.3 else ks)
        victims = set(rng.sample(full, rng.choice([1, 1, 1, 2, 3, max(1, nk // 2)]) if nk > 3 else 1))
        if rng.random() < 0.3:
            victims = {rng.choice([full[0], full[-1], full[min(1, nk - 1)]])}   # Gamma, the last point, the 1/N point
        ks3 = [k for k in ks3 if k not in victims]
        if ks3:
            kf3 = to_float(ks3)
            case3 = dict(N=N, variant="removed", removed=[[str(c) for c in k] for k in sorted(victims)],
                         kpoints=kf3.tolist(), exact=[[str(c) for c in k] for k in ks3])
            ctx.case(signature=("rem", N, tuple(sorted(victims))), nontrivial=True)
            ctx.count("oracle.removed")
            check_select(ctx, kf3, ks3, N, f"the mesh with {len(victims)} point(s) removed", case3)
            check_incomplete_detect(ctx, kf3, ks3, f"the mesh with {len(victims)} point(s) removed", case3)
    # 3b. whole denominator layers removed along one axis
    if max(N) > 3:
        ks5, ax, D = remove_denominator_layers(rng, N, list(ks))
        if D and ks5:
            kf5 = to_float(ks5)
            case5 = dict(N=N, variant="layers", axis=ax, removed_denominators=D, kpoints=kf5.tolist(),
                         exact=[[str(c) for c in k] for k in ks5])
            ctx.case(signature=("lay", N, ax, tuple(D)), nontrivial=True)
            ctx.count("oracle.removed_layers")
            check_select(ctx, kf5, ks5, N, f"the mesh without the points of denominator {D} along axis {ax}", case5)
            check_incomplete_detect(ctx, kf5, ks5, f"the mesh without the points of denominator {D} along axis {ax}", case5)
    # 4. selecting a coarser sub-mesh, and the mesh polluted with points of a finer / foreign mesh
    g = divisor_grid(rng, N)
    if g != N:
        ctx.count("oracle.submesh")
        ctx.case(signature=("sub", N, g), nontrivial=True)
        check_select(ctx, kf, ks, g, f"the mesh {N} selecting the sub-mesh", case)
    M = tuple(n * rng.choice([1, 2, 3]) for n in N)
    if M != N and max(M) <= 100 and M[0] * M[1] * M[2] <= 4000:
        finer = mesh_exact(M)
        ks4 = list(ks) + [rng.choice(finer) for _ in range(rng.randint(1, 6))]
        rng.shuffle(ks4)
        kf4 = to_float(ks4)
        case4 = dict(N=N, variant="polluted", M=M, kpoints=kf4.tolist(), exact=[[str(c) for c in k] for k in ks4])
        ctx.count("oracle.polluted")
        ctx.case(signature=("pol", N, M, tuple(ks4[:6])), nontrivial=True)
        check_select(ctx, kf4, ks4, N, f"the mesh polluted with points of {M}", case4)


def oracle(ctx, scale):
    rng = ctx.rng
    # every supported size 1..100 along one axis (random axis; all three axes in the thorough tier)
    sizes = list(range(1, 101))
    for n in sizes:
        axes = [0, 1, 2] if ctx.tier == "thorough" else [rng.randrange(3)]
        for ax in axes:
            N = [rng.choice([1, 1, 2, 3]), rng.choice([1, 1, 2, 3])]
            N.insert(ax, n)
            one_mesh(ctx, rng, tuple(N))
    # random three-dimensional meshes
    for it in range(ctx.n(40, 400) * scale):
        maxn = rng.choice([4, 8, 12, 16, 30, 100])
        while True:
            N = tuple(rng.randint(1, maxn) for _ in range(3))
            if N[0] * N[1] * N[2] <= ctx.n(1500, 6000):
                break
        one_mesh(ctx, rng, N)
    if ctx.tier == "thorough":
        for N in [(12, 10, 7), (100, 100, 1), (1, 100, 99), (97, 1, 89), (16, 16, 16)]:
            one_mesh(ctx, rng, N)


def replay(ctx, case):
    """re-run the recorded failing inputs on the real code"""
    for f in case.get("failures", []):
        c = f["case"]
        kf = np.array(c["kpoints"], dtype=float).reshape(-1, 3)
        if c.get("fn") == "get_mp_grid":
            r = call_mp(kf)
        else:
            g = c.get("grid")
            r = call_gfk(kf, grid=tuple(g) if g else None)
        print(f"replay: {c.get('fn')} N={c.get('N')} grid={c.get('grid')} nk={len(kf)} -> {r[:120]}   "
              f"(recorded: {str(c.get('got'))[:120]})")
        if r == c.get("got"):
            ctx.fail("replayed: " + f["what"], c)
