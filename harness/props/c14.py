"""C14 - tetrahedron weights equal the exact linear-tetrahedron volume fractions."""
import itertools
import math
import os
import numpy as np
from fractions import Fraction as Fr

from ..common import F, rat, rats, ints, parse_rats, quiet

PID = "C14"
CLAIM = dict(
    design="3/C14",
    technique="Lean 4 proof over an executable model of weights_tetra (sorting, 1e-12 separation, accurate and "
              "polynomial branches, der 0-3), of the 12-tetrahedra parallelepiped weight, of the band-group "
              "completion and band selection of weights_all_band_groups, of the lazy weight cache of TetraWeights (a "
              "state machine over Fermi-array objects with identity and mutable contents) and of the run-level sum "
              "over K-points; model tied to the numba code by a differential run on dyadic inputs and on query "
              "histories; property oracle on the real code against the exact volume fraction evaluated in rationals",
    text="Theorems (any linearly ordered field, ARBITRARY corners incl. coincident, any order): every branch of "
         "weights_tetra equals the truncated-power form of the exact volume fraction (and its term-wise derivatives "
         "for der=1,2,3) of the sorted corners after the 1e-12 separation, which moves no corner by more than 3e-12; "
         "hence the occupation is in [0,1], non-decreasing, 0 below / 1 above the corners, invariant under all 24 "
         "corner permutations; over the reals the der+1 weight IS the derivative of the der weight and der<=2 "
         "weights are continuous; the 12 tetrahedra of a parallelepiped have volume 1/12 each and cover the cell, so "
         "the parallelepiped weight inherits range/monotonicity; groups + lumped sea group count each band once, so "
         "tetra CumDOS is 0 below all bands and NB above; selecting all bands = no selection and a selection weights a "
         "group by the number of its selected bands; the weight cache is transparent for every history of queries in "
         "which no registered Fermi array is modified in place (and provably stale otherwise); with corner energies "
         "= band energies at the cell corners (C33) the weights are those of the band structure; with sum of K-point "
         "factors = 1 (C06) the run-level result of constant per-point values is that constant and is monotone.",
    note="Trusted: Lean kernel + Mathlib; the closed form 'volume fraction = sum of truncated cubes' is the "
         "classical Hermite-Genocchi identity and is taken as the definition of the exact fraction; numba "
         "floating point is checked, not proved.  Known numerical findings: F13 the polynomial branch (der>=1, or "
         "accurate=False) loses all digits for nearly coincident corners; F15 ZeroDivisionError for coincident corners "
         "of magnitude >= 16384.",
)
TRUSTED = [
    "spec: exact fraction := sum_{e_i<=eps} (eps-e_i)^3 / prod_{j!=i}(e_j-e_i) (Hermite-Genocchi form of the volume of "
    "{x in simplex : sum x_i e_i <= eps}); taken as definition",
    "modelled: weights_tetra (sorted(), diff_min loop, both branches, der 0-3), TetraWeightsParal.weight_1k1b_priv, "
    "get_bands_in_range with Ebandmin/Ebandmax and select_bands, get_bands_below/above_range, the group dictionary and "
    "weight_select_bands factor of weights_all_band_groups (der 0, -1, >=1), TetraWeights.index_eFermi / __weight_1b "
    "(identity-keyed cache), Data_K.tetraWeights (which energies feed the weight object), the run-level sum "
    "sum_K factor_K x mean over the FFT points",
    "named hypotheses taken from other properties: C33 (corner energies are the band energies at the shifted k-points), "
    "C06 (K-point factors sum to 1 for every grid and refinement history)",
    "not modelled (oracle only): numba floating point and the catastrophic cancellation of the polynomial branch; "
    "the einsum of weights with the formula values in StaticCalculator.__call__ (tetra branch); EnergyResult packaging",
    "floating point e[i]+1e-12 rounds: model and code are compared through the proven monotonicity in the corners "
    "(sandwich between diff_min(1-eta) and diff_min(1+eta))",
    "in-place modification of a Fermi array that a TetraWeights object has already seen returns stale weights "
    "(theorem cache_stale_after_inplace_change, reproduced on the real object by the correspondence); calculators copy "
    "their Efermi (np.array) and never modify it, so this state is unreachable through the calculator API",
]
RULE = ("corner sets: random order, scales 1e-3..1e3, offsets up to 1e2 (and 1e5), gaps from O(1) down to 1e-13, "
        "pairs/triples/quadruples of exactly coincident corners; Fermi levels inside every interval, exactly at "
        "corners, below and above; Fermi arrays starting exactly at a band maximum / ending at a band minimum; query "
        "histories with repeated, equal-content and in-place modified Fermi arrays; non-trivial = at least one Fermi "
        "level strictly inside the corner range; distinct = distinct (kind, corners, Fermi levels, der, branch)")

DMIN = 1e-12
EPS = 2.0 ** -52
FF = [1, 3, 6, 6]
TINY = Fr(1, 10 ** 60)
KF_CANCEL = "F13-tetra-poly-cancellation"
KF_ABSORB = "F15-tetra-diffmin-absorbed"


# ---------------------------------------------------------------------------------------------------
# exact reference (written from the property statement: volume fraction of the linear tetrahedron)

def spec_exact(n, e, x):
    """n-th derivative of the volume fraction; e: 4 pairwise distinct Fractions (any order), x Fraction"""
    s = Fr(0)
    for i in range(4):
        if e[i] <= x:
            P = Fr(1)
            for j in range(4):
                if j != i:
                    P *= (e[j] - e[i])
            s += (x - e[i]) ** (3 - n) / P
    return FF[n] * s


def distinct_sorted(e):
    """sorted exact corners; exactly coincident corners are split by 1e-60 (error of the fraction < 1e-40)"""
    e = sorted(Fr(t) for t in e)
    for i in range(1, 4):
        if e[i] <= e[i - 1]:
            e[i] = e[i - 1] + TINY
    return e


def exact_weight(n, e, x):
    return spec_exact(n, distinct_sorted(e), Fr(x))


def poly_bound(n, e, M=None):
    """rounding bound of the polynomial branch for derivative n on float corners e (after the code's separation):
    the cubic is expanded around E=0, coefficients are O(M^(3-k) / gaps^3) and cancel; 64 = 5 x the largest ratio
    observed over 1e5 random evaluations (see DESIGN C14); M = max(|e|, |ef|)"""
    e = sorted(float(t) for t in e)
    for i in range(3):
        if e[i + 1] - e[i] < DMIN:
            e[i + 1] = e[i] + DMIN
    d12, d23, d34 = e[1] - e[0], e[2] - e[1], e[3] - e[2]
    d13, d14, d24 = e[2] - e[0], e[3] - e[0], e[3] - e[1]
    if min(d12, d23, d34) <= 0:
        return math.inf
    M = max(abs(e[0]), abs(e[3])) if M is None else M
    D = max(1 / (d12 * d13 * d14), 1 / (d14 * d24 * d34), max(M, d14) / (d13 * d14 * d23 * d24))
    return 64 * EPS * (M ** (3 - n) * D + (1.0 if n == 0 else 0.0))


def ulp(x):
    return math.ulp(abs(float(x))) if x != 0 else 5e-324


def check_weights(ctx, e, efs, what="weights_tetra", nperm=3):
    """all checks of the property on one corner set (real numba code vs exact rationals)"""
    from wannierberri.grid.tetrahedron import weights_tetra
    e = [float(t) for t in e]
    efs = np.array(sorted(float(t) for t in efs))
    es = sorted(e)
    M = max(abs(es[0]), abs(es[3]))
    gmin = min(es[i + 1] - es[i] for i in range(3))
    case0 = dict(e=e, efall=efs.tolist())
    inside = bool(np.any((efs > es[0]) & (efs < es[3])))
    # class: the separation constant is absorbed by rounding -> division by zero (finding F15)
    absorbed = any(es[i + 1] - es[i] < DMIN and es[i] + DMIN == es[i] for i in range(3))
    res = {}
    for der in range(4):
        for acc in (True, False):
            case = dict(case0, der=der, accurate=acc)
            with ctx.attempt(f"{what}(der={der}, accurate={acc})", case, kf=KF_ABSORB if absorbed else None):
                res[der, acc] = weights_tetra(efs, e[0], e[1], e[2], e[3], der=der, accurate=acc)
    ctx.case(signature=(what, tuple(e), tuple(efs)), nontrivial=inside)
    if absorbed or len(res) < 8:
        ctx.count("oracle.class.diffmin_absorbed")
        return
    ex = {n: [exact_weight(n, es, x) for x in efs] for n in range(4)}
    # ---- occupation, accurate branch: exact fraction up to the 3e-12 upward shift of the corners
    w = res[0, True]
    shift = Fr(3 * DMIN) + 4 * Fr(ulp(M))
    tol = 64 * EPS
    for j, x in enumerate(efs):
        hi = ex[0][j]
        lo = hi if gmin >= 2 * DMIN else exact_weight(0, es, Fr(x) - shift)
        if not (float(lo) - tol <= w[j] <= float(hi) + tol):
            ctx.fail(f"{what}: accurate occupation {w[j]!r} is not the exact volume fraction "
                     f"[{float(lo)!r}, {float(hi)!r}] at ef={x!r}", dict(case0, der=0, accurate=True))
            break
    if np.any(w < 0) or np.any(w > 1 + 4 * EPS):
        ctx.fail(f"{what}: accurate occupation outside [0,1]: {w.min()!r} .. {w.max()!r}", dict(case0, der=0, accurate=True))
    if np.any(np.diff(w) < -32 * EPS):
        ctx.fail(f"{what}: accurate occupation decreases with the Fermi level by {np.diff(w).min()!r}",
                 dict(case0, der=0, accurate=True))
    ctx.count("oracle.class.separated" if gmin < 2 * DMIN else "oracle.class.distinct")
    # ---- polynomial branch: occupation (accurate=False) and the derivative weights
    for der in range(4):
        if (res[der, True] != res[der, False]).any() and der > 0:
            ctx.fail(f"{what}: der={der} depends on `accurate`", dict(case0, der=der))
        w = res[der, False]
        bound = poly_bound(der, es, M=max(M, abs(efs[0]), abs(efs[-1])))
        for j, x in enumerate(efs):
            exact = float(ex[der][j])
            err = abs(float(Fr(float(w[j])) - ex[der][j])) if math.isfinite(w[j]) else math.inf
            well = bound <= 1e-9 * (1 + abs(exact)) and gmin >= 2 * DMIN
            if well:
                ctx.count(f"oracle.poly.der{der}.well_conditioned")
                if err > bound + 8 * EPS * abs(exact):
                    ctx.fail(f"{what}: der={der} polynomial branch = {w[j]!r}, exact "
                             f"{'fraction' if der == 0 else 'derivative'} = {exact!r} (error {err:.3g} > rounding bound "
                             f"{bound:.3g}) at ef={x!r}", dict(case0, der=der, accurate=False))
                    break
            else:
                ctx.count(f"oracle.poly.der{der}.ill_conditioned")
                if err > 1e-9 * (1 + abs(exact)):
                    ctx.fail(f"{what}: der={der} polynomial branch loses accuracy by cancellation: {w[j]!r} vs exact "
                             f"{exact!r} at ef={x!r} (corner gaps down to {gmin:.3g}, |E| up to {M:.3g})",
                             dict(case0, der=der, accurate=False), kf=KF_CANCEL)
                    break
    # ---- order of the corners
    perms = list(itertools.permutations(range(4)))
    chosen = perms if nperm >= 24 else [perms[ctx.rng.randrange(24)] for _ in range(nperm)]
    for p in chosen:
        ep = [e[i] for i in p]
        for (der, acc), w in res.items():
            with ctx.attempt(f"{what} permuted", dict(case0, e=ep, der=der, accurate=acc)):
                wp = weights_tetra(efs, ep[0], ep[1], ep[2], ep[3], der=der, accurate=acc)
                if not np.array_equal(w, wp, equal_nan=True):
                    ctx.fail(f"{what}: result depends on the order of the corners (der={der}, accurate={acc}): "
                             f"{e} vs {ep}", dict(case0, e_perm=ep, der=der, accurate=acc))
                    return


def gen_corners(rng):
    """float corner sets over the whole quantifier; returns (corners, kind)"""
    kind = rng.choice(["generic", "generic", "generic", "near", "near", "coincident", "mixed", "huge", "tiny", "absorbed"])
    scale = 10.0 ** rng.uniform(-3, 3) if rng.random() < 0.5 else 10.0 ** rng.uniform(-1, 1)
    off = rng.choice([0.0, 0.0, 1.0, -3.0, 10.0, -100.0]) * rng.uniform(0.5, 1.0)
    e = [off + scale * rng.uniform(-1, 1) for _ in range(4)]
    if kind == "near":
        g = 10.0 ** rng.uniform(-13, -2) * scale
        k = rng.randrange(1, 4)
        for i in range(k):
            e[i + 1] = e[0] + g * rng.uniform(0.2, 1) * (i + 1)
    elif kind == "coincident":
        k = rng.choice([1, 1, 2, 3])
        for i in range(k):
            e[i + 1] = e[0]
        if k == 1 and rng.random() < 0.3:
            e[3] = e[2]
    elif kind == "mixed":
        e[1] = e[0]
        e[3] = e[2] + 10.0 ** rng.uniform(-12.5, -9)
    elif kind == "huge":
        e = [t * 1e4 for t in e]
    elif kind == "tiny":
        e = [t * 1e-6 for t in e]
    elif kind == "absorbed":
        base = rng.choice([1, -1]) * rng.uniform(2e4, 1e6)
        e = [base, base, base + rng.uniform(0, 2), base + rng.uniform(0, 2)]
    rng.shuffle(e)
    return e, kind


def gen_fermi(rng, e):
    es = sorted(e)
    span = max(es[3] - es[0], 1e-9 * max(1.0, abs(es[0])))
    efs = [es[0] - span * rng.uniform(0.01, 2), es[3] + span * rng.uniform(0.01, 2)]
    for a, b in zip(es, es[1:]):
        if b > a:
            efs.append(a + (b - a) * rng.uniform(0, 1))
    efs += [es[0] + span * rng.uniform(0, 1) for _ in range(2)]
    efs += [rng.choice(es), rng.choice(es) + DMIN * rng.choice([0.5, 1, 2, 3, 4])]   # exactly at / just above a corner
    return efs


# ---------------------------------------------------------------------------------------------------
# correspondence: Lean model vs the real code on dyadic inputs

def dy(rng, lo, hi, den):
    return Fr(rng.randint(int(lo * den), int(hi * den)), den)


def corr(ctx):
    from wannierberri.grid.tetrahedron import weights_tetra, TetraWeights, TetraWeightsParal
    rng = ctx.rng
    dmin = F(DMIN)
    lines, checks = [], []

    def sandwich(e, efs, der, acc):
        """model output bracket for float rounding of e[i] + 1e-12 (exact when no corner is separated)"""
        eta = Fr(4 * ulp(max(abs(float(t)) for t in e) + 1e-300)) / dmin + Fr(1, 2 ** 40)
        out = []
        es_ = sorted(e)
        sep = min(b - a for a, b in zip(es_, es_[1:])) < 2 * dmin
        for dm in ((dmin * (1 + eta), dmin * (1 - eta)) if sep else (dmin,)):
            lines.append(f"wt {rat(dm)} {der} {int(acc)} {rats(e)} {rats(efs)}")
            out.append(len(lines) - 1)
        return out

    # (a) weights_tetra -----------------------------------------------------------------------------
    N = ctx.n(120, 900)
    for it in range(N):
        kind = rng.choice(["sep", "sep", "sep", "coin", "near"])
        den = rng.choice([4, 16, 64])
        e = [dy(rng, -4, 4, den) for _ in range(4)]
        if kind == "coin":
            k = rng.choice([1, 2, 3])
            for i in range(k):
                e[i + 1] = e[0]
            if rng.random() < 0.3:
                e = [Fr(0)] * (k + 1) + e[k + 1:]
        if kind == "near":
            e[1] = e[0] + Fr(1, 2 ** rng.choice([20, 30, 38, 41]))
        rng.shuffle(e)
        efs = [dy(rng, -5, 5, den) for _ in range(4)] + [rng.choice(e), rng.choice(e)]
        es = sorted(e)
        efs += [(a + b) / 2 for a, b in zip(es, es[1:])]
        ef_f = np.array([float(x) for x in efs])
        e_f = [float(x) for x in e]
        gmin = min(b - a for a, b in zip(es, es[1:]))
        for der in range(4):
            for acc in (True, False):
                poly = not (acc and der == 0)
                if poly and gmin < dmin * 2:
                    ctx.count("corr.wt.skipped_poly_separated(F13 class)")
                    continue
                bound = poly_bound(der, e_f, M=max(abs(t) for t in e_f + list(ef_f))) if poly else 64 * EPS
                if poly and bound > 1e-10:
                    ctx.count("corr.wt.skipped_poly_illconditioned(F13 class)")
                    continue
                case = dict(e=e_f, efall=ef_f.tolist(), der=der, accurate=acc)
                with ctx.attempt("weights_tetra", case):
                    got = weights_tetra(ef_f, e_f[0], e_f[1], e_f[2], e_f[3], der=der, accurate=acc)
                    idx = sandwich(e, efs, der, acc)
                    checks.append(("wt", idx, got, bound, case))
                    ctx.count(f"corr.wt.{kind}.der{der}.{'acc' if acc else 'poly'}")

    # (b) parallelepiped weight --------------------------------------------------------------------
    for it in range(ctx.n(25, 200)):
        den = rng.choice([4, 16])
        cen = dy(rng, -2, 2, den)
        cs = [dy(rng, -2, 2, den) for _ in range(8)]
        if rng.random() < 0.3:
            for i in rng.sample(range(8), 3):
                cs[i] = cen
        efs = [dy(rng, -3, 3, den) for _ in range(5)] + [cen, rng.choice(cs)]
        ef_f = np.array([float(x) for x in efs])
        eC = np.array([float(c) for c in cs]).reshape(1, 2, 2, 2, 1)
        tw = TetraWeightsParal(eCenter=np.array([[float(cen)]]), eCorners=eC)
        allv = [cen] + cs
        gaps = sorted(set(allv))
        gmin = min([b - a for a, b in zip(gaps, gaps[1:])] + [Fr(1)])
        coincide = len(gaps) < 9
        for der in range(4):
            if der > 0 and (coincide or gmin < Fr(1, 64)):
                continue
            bound = 64 * EPS if der == 0 else 64 * EPS * (4.0 ** (3 - der)) * 4 / float(gmin) ** 4
            case = dict(center=float(cen), corners=eC.ravel().tolist(), efall=ef_f.tolist(), der=der)
            with ctx.attempt("TetraWeightsParal.weight_1k1b_priv", case):
                got = tw.weight_1k1b_priv(ef_f, 0, 0, der)
                eta = Fr(1, 2 ** 36)
                idx = []
                for dm in (dmin * (1 + eta), dmin * (1 - eta)):
                    lines.append(f"paral {rat(dm)} {der} 1 {rat(cen)} {rats(cs)} {rats(efs)}")
                    idx.append(len(lines) - 1)
                checks.append(("paral", idx, got, bound, case))
                ctx.count(f"corr.paral.der{der}")

    # (c) band groups of weights_all_band_groups -----------------------------------------------------
    for it in range(ctx.n(80, 600)):
        nb = rng.randint(1, 6)
        th = Fr(rng.choice([1, 3]), rng.choice([8, 64]))
        kr = rng.random() < 0.3
        if kr and nb % 2:
            nb += 1
        # band energies at centre + 4 corners, sorted in the band index at every corner; multiplets at the centre
        base = sorted(dy(rng, -3, 3, 8) for _ in range(nb))
        cen = list(base)
        for i in range(1, nb):
            if rng.random() < 0.35:
                cen[i] = cen[i - 1] + rng.choice([Fr(0), th / 2, th])
        cen = sorted(cen)
        corn = [sorted(c + dy(rng, -1, 1, 8) * rng.choice([0, 1, 1]) for c in cen) for _ in range(4)]
        ef0 = dy(rng, -4, 3, 8)
        nef = rng.choice([1, 2, 5])
        step = Fr(rng.randint(1, 8), 8)
        efs = [ef0 + j * step for j in range(nef)]
        der = rng.choice([0, 0, 1, 1, 2, -1])
        sel = None
        if der >= 1 and rng.random() < 0.6:
            sel = rng.sample(range(nb), rng.randint(1, nb)) if rng.random() < 0.8 else list(range(nb))
            if rng.random() < 0.35:
                sel.sort()                     # otherwise random order (the selection is a set of bands, not a sequence)
            elif rng.random() < 0.3:
                sel.sort(reverse=True)
        EminP = rng.choice([None, None, dy(rng, -4, 0, 8)])
        EmaxP = rng.choice([None, None, dy(rng, 0, 4, 8)])
        eCenter = np.array([[float(c) for c in cen]])
        eCorners = np.array([[[float(c) for c in cc] for cc in corn]])
        Emin = [min([cen[b]] + [corn[v][b] for v in range(4)]) for b in range(nb)]
        Emax = [max([cen[b]] + [corn[v][b] for v in range(4)]) for b in range(nb)]
        ef_f = np.array([float(x) for x in efs])
        case = dict(eCenter=eCenter, eCorners=eCorners, eFermi=ef_f, der=der, degen_thresh=float(th), degen_Kramers=kr,
                    Emin=EminP, Emax=EmaxP, select_bands=sel)
        with ctx.attempt("TetraWeights.weights_all_band_groups", case):
            tw = TetraWeights(eCenter=eCenter, eCorners=eCorners)
            kwg = dict(der=der, degen_thresh=float(th), degen_Kramers=kr,
                       Emin=-np.inf if EminP is None else float(EminP), Emax=np.inf if EmaxP is None else float(EmaxP))
            got = tw.weights_all_band_groups(ef_f, select_bands=None if sel is None else np.array(sel), **kwg)[0]
            got0 = tw.weights_all_band_groups(ef_f, **kwg)[0] if sel is not None else None
            lines.append(f"groups {rats(cen)} {rats(Emin)} {rats(Emax)} {rat(th)} {int(kr)} {rat(efs[0])} {rat(efs[-1])} "
                         f"{der} {'-inf' if EminP is None else rat(EminP)} {'inf' if EmaxP is None else rat(EmaxP)} "
                         f"{'none' if sel is None else ints(sel)}")
            checks.append(("groups", [len(lines) - 1], (got, got0), 0.0, case))
            ctx.count(f"corr.groups.der{der}{'.sel' if sel is not None else ''}")
            # the weight of every window group is the mean of the band weights (exact reference, accurate branch)
            if der == 0 and all(len(set([cen[b]] + [corn[v][b] for v in range(4)])) >= 1 for b in range(nb)):
                for (a, b), wv in got.items():
                    ref = np.zeros(len(efs))
                    ok = True
                    for ib in range(a, b):
                        cs4 = [corn[v][ib] for v in range(4)]
                        if len(set(cs4)) < 4:
                            ok = False
                            break
                        ref += np.array([float(exact_weight(0, cs4, x)) for x in efs])
                    if ok and Emax[b - 1] >= efs[0]:
                        if np.abs(wv - ref / (b - a)).max() > 256 * EPS:
                            ctx.mismatch(f"weights_all_band_groups: weight of group {(a, b)} is not the mean of the band "
                                         f"weights", dict(case, got=wv, expected=ref / (b - a)))

    # (d) the lazy weight cache: histories of queries with several Fermi arrays (same object again, equal contents in a
    #     different object, IN-PLACE modified objects) on ONE TetraWeights object ---------------------------------------
    for it in range(ctx.n(25, 200)):
        nk = rng.randint(1, 2)
        nb = rng.randint(1, 3)
        corn = {}
        for ik in range(nk):
            cols = [sorted(dy(rng, -3, 3, 4) for _ in range(nb)) for _ in range(4)]   # sorted in the band index
            for ib in range(nb):
                c4 = [cols[v][ib] for v in range(4)]
                # well separated corners (>= 1/4) so that every derivative order is well conditioned
                while len(set(c4)) < 4:
                    c4 = [c + Fr(rng.randint(0, 3), 4) * (v_ + 1) for v_, c in enumerate(c4)]
                corn[ik, ib] = c4
        # re-sort in the band index per corner after the de-duplication
        for ik in range(nk):
            for v in range(4):
                col = sorted(corn[ik, ib][v] for ib in range(nb))
                for ib in range(nb):
                    corn[ik, ib][v] = col[ib]
        if any(len(set(corn[k])) < 4 for k in corn):
            continue
        eCorners = np.array([[[float(corn[ik, ib][v]) for ib in range(nb)] for v in range(4)] for ik in range(nk)])
        eCenter = eCorners.mean(axis=1)
        Emn = np.minimum(eCenter, eCorners.min(axis=1))
        Emx = np.maximum(eCenter, eCorners.max(axis=1))
        arrays, contents = {}, {}
        ops, expect = [], []
        nfl = rng.randint(1, 4)
        case = dict(eCorners=eCorners, history=[])
        with ctx.attempt("TetraWeights cache history", case):
            tw = TetraWeights(eCenter=eCenter, eCorners=eCorners)
            for step_ in range(rng.randint(3, 8)):
                r = rng.random()
                if not arrays or r < 0.25:                      # a new array object (maybe equal contents)
                    i = len(arrays)
                    r2 = rng.random()
                    if not contents or r2 < 0.4:
                        vals = sorted(dy(rng, -4, 4, 4) for _ in range(nfl))
                    elif r2 < 0.7 or nfl < 3:
                        vals = list(contents[rng.choice(sorted(contents))])          # equal contents, another object
                    else:                                                          # same length and end points only
                        base_ = contents[rng.choice(sorted(contents))]
                        vals = [base_[0]] + sorted(base_[0] + (base_[-1] - base_[0]) * Fr(rng.randint(0, 16), 16)
                                                   for _ in range(nfl - 2)) + [base_[-1]]
                        ctx.count("corr.cache.same_ends_other_interior")
                    arrays[i] = np.array([float(x) for x in vals])
                    contents[i] = vals
                    ops.append(f"m:{i}:{rats(vals)}")
                    case["history"].append(("new array", i, [float(x) for x in vals]))
                elif r < 0.4:                                   # in-place modification of an existing object
                    i = rng.choice(sorted(arrays))
                    vals = sorted(dy(rng, -4, 4, 4) for _ in range(nfl))
                    arrays[i][:] = [float(x) for x in vals]
                    contents[i] = vals
                    ops.append(f"m:{i}:{rats(vals)}")
                    case["history"].append(("in-place change", i, [float(x) for x in vals]))
                    ctx.count("corr.cache.inplace_change")
                else:
                    i = rng.choice(sorted(arrays))
                    der = rng.choice([0, 0, 1, 2, 3, -1])
                    ef = arrays[i]
                    got = tw.weights_all_band_groups(ef, der=der, degen_thresh=-1)
                    case["history"].append(("query", i, der))
                    for ik in range(nk):
                        for ib in range(nb):
                            if Emx[ik, ib] >= ef[0] and Emn[ik, ib] <= ef[-1]:    # the bands the call evaluates
                                if (ib, ib + 1) not in got[ik]:
                                    ctx.fail(f"weights_all_band_groups(degen_thresh=-1): band {ib} with Emin={Emn[ik, ib]} "
                                             f"<= eFermi[-1]={ef[-1]} and Emax={Emx[ik, ib]} >= eFermi[0]={ef[0]} is missing "
                                             f"from the groups {sorted(got[ik])}", dict(case, eFermi=ef.tolist(), der=der))
                                    continue
                                ops.append(f"q:{i}:{der}:{ik}:{ib}")
                                expect.append((np.array(got[ik][(ib, ib + 1)], dtype=float), der, ik, ib))
                    ctx.count("corr.cache.query")
            if expect:
                flat = ";".join(",".join(rats(corn[ik, ib]).split(",")) for ik in range(nk) for ib in range(nb))
                lines.append(f"twseq {rat(dmin)} {flat} {nb} {'|'.join(ops)}")
                checks.append(("twseq", [len(lines) - 1], (expect, ops), 0.0, dict(case)))

    out = ctx.lean(lines)
    for kind, idx, got, bound, case in checks:
        if kind == "twseq":
            expect, ops = got
            answers = [a for a in out[idx[0]].split(";") if a != "-"]
            ctx.case(signature=("twseq", lines[idx[0]]), nontrivial=True)
            if len(answers) != len(expect):
                ctx.mismatch(f"cache history: {len(expect)} queries, model answered {len(answers)}",
                             dict(case, line=lines[idx[0]]))
                continue
            for (g, der, ik, ib), a in zip(expect, answers):
                m = np.array([float(x) for x in parse_rats(a)])
                tol = 1e-9 if der not in (0, -1) else 64 * EPS
                if g.shape != m.shape or np.abs(g - m).max() > tol * (1 + np.abs(m).max()):
                    ctx.mismatch(f"cache history: weights of (ik={ik}, ib={ib}, der={der}) code={g.tolist()} "
                                 f"model={m.tolist()}", dict(case, line=lines[idx[0]]))
                    break
            continue
        if kind in ("wt", "paral"):
            lo = [float(x) for x in parse_rats(out[idx[0]])]
            hi = [float(x) for x in parse_rats(out[idx[-1]])]
            ctx.case(signature=(kind, lines[idx[0]]), nontrivial=True)
            for j, g in enumerate(got):
                a, b = min(lo[j], hi[j]), max(lo[j], hi[j])
                tol = bound + 16 * EPS * max(abs(a), abs(b))
                if not (a - tol <= g <= b + tol):
                    ctx.mismatch(f"{kind}: code={g!r} model in [{a!r}, {b!r}] (tol {tol:.3g}) at ef index {j}",
                                 dict(case, line=lines[idx[0]]))
                    break
        else:
            got, got0 = got
            inr, lum, wsl = out[idx[0]].split(" | ")
            order = [] if inr == "_" else [tuple(int(t) for t in p.split(",")) for p in inr.split(";")]
            want = set(order)
            if got0 is not None and set(tuple(int(t) for t in k) for k in got) == want:
                for g, wm in zip(order, parse_rats(wsl)):
                    if g in got0 and np.abs(np.asarray(got[g]) - np.asarray(got0[g]) * float(wm)).max() > \
                            8 * EPS * (1e-300 + np.abs(got0[g]).max()):
                        ctx.mismatch(f"weights_all_band_groups: weight of group {g} with select_bands is not "
                                     f"weight_select_bands={wm} times the unselected weight",
                                     dict(case, line=lines[idx[0]], selected=got[g], unselected=got0[g]))
            lumped = None if lum == "_" else tuple(int(t) for t in lum.split(","))
            ctx.case(signature=("groups", lines[idx[0]]), nontrivial=len(want) + (lumped is not None) > 0)
            keys = {tuple(int(t) for t in k) for k in got}
            exp_keys = set(want) | ({lumped} if lumped is not None else set())
            if keys != exp_keys:
                ctx.mismatch(f"weights_all_band_groups keys: code={sorted(keys)} model={sorted(exp_keys)}",
                             dict(case, line=lines[idx[0]]))
            elif lumped is not None and lumped not in want and not np.all(got[lumped] == 1):
                ctx.mismatch("lumped group does not have weight 1", dict(case, line=lines[idx[0]]))
    if lines:
        ctx.sample(dict(protocol_line=lines[0], model=out[0]))
        ctx.sample(dict(protocol_line=lines[-1], model=out[-1]))


# ---------------------------------------------------------------------------------------------------
# property oracle on the real code

def oracle(ctx, scale):
    rng = ctx.rng
    N = ctx.n(800, 12000) * scale
    for it in range(N):
        e, kind = gen_corners(rng)
        efs = gen_fermi(rng, e)
        ctx.count(f"oracle.corners.{kind}")
        check_weights(ctx, e, efs, nperm=24 if it < ctx.n(60, 400) else 2)
    groups_oracle(ctx, scale)
    cache_oracle(ctx, scale)
    system_oracle(ctx, scale)


def groups_oracle(ctx, scale):
    """sum over the groups returned by weights_all_band_groups (x group size) = sum over bands of the exact band
    weight; 0 below all bands, NB above (component level, both K-point kinds)"""
    from wannierberri.grid.tetrahedron import TetraWeights, TetraWeightsParal
    rng = ctx.rng
    for it in range(ctx.n(150, 2000) * scale):
        nb = rng.randint(1, 7)
        nk = rng.randint(1, 3)
        paral = rng.random() < 0.5
        th = rng.choice([-1, 1e-6, 0.01, 0.3])
        kr = rng.random() < 0.25
        if kr and nb % 2:
            nb += 1
        npr = ctx.nprng()
        ncorn = 8 if paral else 4
        base = np.sort(npr.uniform(-2, 2, (nk, 1, nb)) + 0 * npr.uniform(0, 1, (nk, 1 + ncorn, nb)), axis=2)
        disp = npr.uniform(-1, 1, (nk, 1 + ncorn, nb)) * rng.choice([0.0, 1e-3, 0.3, 1.0])
        allE = base + disp
        if rng.random() < 0.4:   # exact multiplets: pairs of identical bands
            for b in range(1, nb, 2):
                allE[:, :, b] = allE[:, :, b - 1]
        allE = np.sort(allE, axis=2)
        eCenter = allE[:, 0, :]
        eCorners = allE[:, 1:, :].reshape((nk, 2, 2, 2, nb) if paral else (nk, 4, nb))
        lo, hi = allE.min(), allE.max()
        mode = rng.choice(["span", "span", "below", "above", "single", "inside", "tie", "tie"])
        nef = 1 if mode == "single" else rng.randint(2, 7)
        if mode == "tie":
            # the Fermi array starts (bitwise) at the maximum / minimum of a band over the k-cell
            ikt, ibt = rng.randrange(nk), rng.randrange(nb)
            a = allE[ikt, :, ibt].max() if rng.random() < 0.7 else allE[ikt, :, ibt].min()
            b = a + rng.uniform(0.1, 3)
        elif mode == "below":
            a, b = lo - 3, lo - 1e-9
        elif mode == "above":
            a, b = hi + 4e-12, hi + 2
        elif mode == "inside":
            a, b = sorted([rng.uniform(lo, hi), rng.uniform(lo, hi)])
        else:
            a, b = lo - rng.uniform(0, 1), hi + rng.uniform(1e-11, 1)
        ef = np.linspace(a, b, nef) if nef > 1 else np.array([rng.uniform(lo - 1, hi + 1)])
        if mode == "tie":
            ef[0] = a                                            # exactly (linspace may round the end points)
            if rng.random() < 0.5:                               # ... and the last level exactly at a band minimum
                cands = [x for x in allE.min(axis=1).ravel() if x > ef[-2]] if nef > 1 else []
                if cands:
                    ef[-1] = rng.choice(cands)
        case = dict(eCenter=eCenter, eCorners=eCorners, eFermi=ef, degen_thresh=th, degen_Kramers=kr, paral=paral)
        ctx.count(f"oracle.groups.{'paral' if paral else 'tetra'}.{mode}")
        with ctx.attempt("weights_all_band_groups(der=0)", case):
            tw = (TetraWeightsParal if paral else TetraWeights)(eCenter=eCenter, eCorners=eCorners)
            got = tw.weights_all_band_groups(ef, der=0, degen_thresh=th, degen_Kramers=kr)
            ctx.case(signature=("grp", nb, nk, paral, mode, tuple(ef)), nontrivial=mode not in ("below", "above"))
            for ik in range(nk):
                cum = np.zeros(len(ef))
                covered = np.zeros(nb, dtype=int)
                for (a1, b1), w in got[ik].items():
                    cum += np.asarray(w) * (b1 - a1)
                    covered[a1:b1] += 1
                if covered.max() > 1:
                    ctx.fail("weights_all_band_groups: a band belongs to two groups", dict(case, ik=ik, keys=list(got[ik])))
                ref = np.zeros(len(ef))
                for ib in range(nb):
                    if paral:
                        ref += paral_exact(0, eCenter[ik, ib], eCorners[ik, ..., ib], ef)
                    else:
                        ref += np.array([float(exact_weight(0, eCorners[ik, :, ib], x)) for x in ef])
                if np.abs(cum - ref).max() > 1e-9:
                    ctx.fail(f"tetrahedron CumDOS of one k-point {cum.tolist()} differs from the sum of exact band "
                             f"fractions {ref.tolist()}", dict(case, ik=ik))
                below = ef < allE[ik].min()
                above = ef > allE[ik].max() + 4e-12
                if np.any(cum[below] != 0) or np.any(np.abs(cum[above] - nb) > 1e-12):
                    ctx.fail(f"tetrahedron CumDOS is not 0 below / NB above all bands: {cum.tolist()} (NB={nb})",
                             dict(case, ik=ik))
                if np.any(np.diff(cum) < -1e-12):
                    ctx.fail("tetrahedron CumDOS of one k-point decreases", dict(case, ik=ik, cum=cum))


def cache_oracle(ctx, scale):
    """hidden state of the weight cache on the REAL objects: histories of queries on ONE TetraWeights /
    TetraWeightsParal object (same array object again, equal contents in another object, same length and end points
    with other interior points, other lengths, overlapping ranges; derivative orders and thresholds in random order):
    every answer must equal the answer of a FRESH object (bitwise) and, for der=0, the exact rational reference;
    then several tetra calculators on one Data_K in random order vs each alone on a fresh Data_K"""
    from wannierberri.grid.tetrahedron import TetraWeights, TetraWeightsParal
    rng = ctx.rng
    for it in range(ctx.n(30, 400) * scale):
        paral = rng.random() < 0.5
        nk, nb = rng.randint(1, 2), rng.randint(1, 4)
        npr = ctx.nprng()
        ncorn = 8 if paral else 4
        allE = np.sort(npr.uniform(-2, 2, (nk, 1, nb)) + npr.uniform(-1, 1, (nk, 1 + ncorn, nb)) * rng.choice([0.3, 1.0]),
                       axis=2)
        eCenter = allE[:, 0, :]
        eCorners = allE[:, 1:, :].reshape((nk, 2, 2, 2, nb) if paral else (nk, 4, nb))
        cls = TetraWeightsParal if paral else TetraWeights
        lo, hi = allE.min(), allE.max()
        n0 = rng.randint(3, 6)
        a0, b0 = sorted([rng.uniform(lo - 0.5, hi), rng.uniform(lo, hi + 0.5)])
        if b0 - a0 < 0.1:
            b0 = a0 + 0.5
        arrays = [np.linspace(a0, b0, n0)]
        history = []
        case = dict(eCenter=eCenter, eCorners=eCorners, paral=paral, history=history)
        with ctx.attempt("query history on one weight object", case):
            tw = cls(eCenter=eCenter, eCorners=eCorners)
            for step_ in range(rng.randint(4, 8)):
                r = rng.random()
                base = arrays[rng.randrange(len(arrays))]
                if r < 0.3:
                    ef, kind = base, "same object"
                elif r < 0.45:
                    ef, kind = base.copy(), "equal contents, other object"
                elif r < 0.7:
                    t = np.sort(npr.uniform(0, 1, len(base)))
                    t[0], t[-1] = 0.0, 1.0
                    ef, kind = base[0] + (base[-1] - base[0]) * t, "same length and end points, other interior"
                    ef[0], ef[-1] = base[0], base[-1]
                elif r < 0.85:
                    ef, kind = np.linspace(base[0], base[-1], len(base) + rng.choice([-1, 1, 2])), "other length"
                else:
                    sh = rng.uniform(-0.5, 0.5) * (base[-1] - base[0])
                    ef, kind = base + sh, "overlapping range"
                if kind != "same object":
                    arrays.append(ef)
                der = rng.choice([0, 0, 1, 2, 3, -1])
                th = rng.choice([-1, 1e-6, 0.3])
                history.append((kind, ef.tolist(), der, th))
                ctx.count(f"oracle.cache.{kind}")
                got = tw.weights_all_band_groups(ef, der=der, degen_thresh=th)
                fresh = cls(eCenter=eCenter, eCorners=eCorners).weights_all_band_groups(ef.copy(), der=der, degen_thresh=th)
                ctx.case(signature=("cache", paral, nb, nk, tuple(ef), der, th, step_), nontrivial=step_ > 0)
                for ik in range(nk):
                    if set(got[ik]) != set(fresh[ik]) or any(not np.array_equal(np.asarray(got[ik][g]), np.asarray(fresh[ik][g]))
                                                             for g in got[ik]):
                        ctx.fail(f"step {step_} ({kind}, der={der}): the answer of a weight object that has seen other Fermi "
                                 f"arrays differs from the answer of a fresh object: {dict(got[ik])} vs {dict(fresh[ik])}",
                                 dict(case, ik=ik))
                        break
                else:
                    if der == 0:
                        for ik in range(nk):
                            cum = sum(np.asarray(w) * (g[1] - g[0]) for g, w in got[ik].items())
                            ref = np.zeros(len(ef))
                            for ib in range(nb):
                                if paral:
                                    ref += paral_exact(0, eCenter[ik, ib], eCorners[ik, ..., ib], ef)
                                else:
                                    ref += np.array([float(exact_weight(0, eCorners[ik, :, ib], x)) for x in ef])
                            if np.abs(cum - ref).max() > 1e-9:
                                ctx.fail(f"step {step_} ({kind}): tetrahedron state count {np.asarray(cum).tolist()} differs "
                                         f"from the exact fractions {ref.tolist()}", dict(case, ik=ik))
                    continue
                break
    # ---- several tetra calculators sharing one Data_K, random order, vs each alone
    from ..wbsys import rand_system, wb
    from wannierberri.calculators.static import StaticCalculator
    from wannierberri.calculators import static as st
    from wannierberri.formula import covariant as frml
    from wannierberri.data_K import get_data_k_class_from_system
    rs = np.random.RandomState(rng.getrandbits(31))
    for it in range(ctx.n(1, 5) * scale):
        nw = int(rs.randint(1, 4))
        with quiet():
            s = rand_system(rs, num_wann=nw, nR=int(rs.randint(3, 7)), max_R=1, matrices=("Ham",))
            NKFFT = [rng.choice([1, 2]) for _ in range(3)]
            grid = wb.Grid(s, NK=NKFFT, NKFFT=NKFFT)
            Kp = grid.get_K_list(use_symmetry=False)[0]
        dK = np.array([rng.uniform(0, 1) for _ in range(3)])

        def fresh_dk():
            with quiet():
                return get_data_k_class_from_system(s)(s, grid=grid, dK=dK, Kpoint=Kp)

        E = fresh_dk().E_K
        lo, hi = E.min() - 0.5, E.max() + 0.5
        n = rng.randint(3, 6)
        Ef = np.linspace(lo, hi, n)
        Ef3 = lo + (hi - lo) * np.linspace(0, 1, n) ** 2
        Ef3[-1] = Ef[-1]
        makers = [("CumDOS(Ef)", lambda: st.CumDOS(Efermi=Ef, tetra=True)),
                  ("CumDOS(same length and end points)", lambda: st.CumDOS(Efermi=Ef3, tetra=True)),
                  ("DOS(Ef)", lambda: st.DOS(Efermi=Ef, tetra=True)),
                  ("DOS(same length and end points)", lambda: st.DOS(Efermi=Ef3, tetra=True)),
                  ("hole-like count", lambda: StaticCalculator(Efermi=Ef, Formula=frml.Identity, fder=0, tetra=True,
                                                               hole_like=True)),
                  ("CumDOS(other length)", lambda: st.CumDOS(Efermi=np.linspace(lo, hi, n + 1), tetra=True))]
        rng.shuffle(makers)
        case = dict(num_wann=nw, NKFFT=NKFFT, dK=dK, Efermi=Ef, Efermi3=Ef3, order=[m[0] for m in makers])
        with ctx.attempt("tetra calculators sharing one Data_K", case):
            shared = fresh_dk()
            with quiet():
                together = [mk()(shared).data for _, mk in makers]
                alone = [mk()(fresh_dk()).data for _, mk in makers]
            ctx.case(signature=("shared_tetra", nw, tuple(NKFFT), tuple(Ef), tuple(m[0] for m in makers)), nontrivial=True)
            ctx.count("oracle.cache.shared_data_k")
            for (name, _), a, b in zip(makers, together, alone):
                if not np.array_equal(a, b):
                    ctx.fail(f"{name} evaluated after other tetra calculators on the same Data_K gives {np.ravel(a).tolist()}, "
                             f"alone {np.ravel(b).tolist()} (order: {[m[0] for m in makers]})", case)
                    break


PARAL_TETS = None


def paral_tets():
    """the 12 tetrahedra of a parallelepiped written from the geometry: centre + the two triangles into which the
    diagonal (0,0)-(1,1) splits each of the six faces"""
    global PARAL_TETS
    if PARAL_TETS is None:
        t = []
        for axis in range(3):
            for side in (0, 1):
                def v(p, q):
                    c = [p, q]
                    c.insert(axis, side)
                    return tuple(c)
                t.append((v(0, 0), v(0, 1), v(1, 1)))
                t.append((v(0, 0), v(1, 0), v(1, 1)))
        PARAL_TETS = t
    return PARAL_TETS


def paral_exact(n, center, corners, efs):
    """mean over the 12 tetrahedra of the exact fraction; corners[ix,iy,iz]"""
    out = np.zeros(len(efs))
    for t in paral_tets():
        cs = [center] + [corners[v] for v in t]
        out += np.array([float(exact_weight(n, cs, x)) for x in efs])
    return out / 12


def band_energies(system, k):
    """eigenvalues of H(k) = sum_R H(R) exp(2 pi i k.R), written directly from the definition"""
    H = system.get_R_mat('Ham')
    ph = np.exp(2j * np.pi * system.rvec.iRvec.dot(np.asarray(k, dtype=float)))
    Hk = np.tensordot(ph, H, axes=(0, 0))
    return np.linalg.eigvalsh(0.5 * (Hk + Hk.conj().T))


def system_oracle(ctx, scale):
    """CumDOS / DOS with tetra=True through run(): parallelepiped K-points (Grid) recomputed from the band energies
    at the centre and the 8 corners of every grid cell; tetrahedron K-points (GridTetra): limits and monotonicity"""
    from ..wbsys import rand_system, wb
    rng = ctx.rng
    rs = np.random.RandomState(rng.getrandbits(31))
    for it in range(ctx.n(2, 16) * scale):
        nw = int(rs.randint(1, 4))
        doubled = rng.random() < 0.35
        hop = rng.choice([1.0, 1.0, 0.3, 0.0])
        with quiet():
            s = rand_system(rs, num_wann=nw, nR=int(rs.randint(3, 7)), max_R=1, matrices=("Ham",))
            if hop != 1.0:
                H = s.get_R_mat('Ham').copy()
                sel = np.any(s.rvec.iRvec != 0, axis=1)
                H[sel] *= hop
                s.set_R_mat('Ham', H, reset=True)
            if doubled:
                s.double_spin()
        NB = s.num_wann
        NK = [rng.choice([1, 2, 3]) for _ in range(3)]
        NKFFT = [rng.choice([d for d in (1, 2, 3) if n % d == 0]) for n in NK]
        ks = [np.array([i / NK[0], j / NK[1], l / NK[2]]) for i in range(NK[0]) for j in range(NK[1]) for l in range(NK[2])]
        Ecen = np.array([band_energies(s, k) for k in ks])
        Ecor = np.zeros((len(ks), 2, 2, 2, NB))
        for ik, k in enumerate(ks):
            for v in itertools.product((0, 1), repeat=3):
                Ecor[(ik,) + v] = band_energies(s, k + (np.array(v) - 0.5) / np.array(NK))
        lo = min(Ecen.min(), Ecor.min())
        hi = max(Ecen.max(), Ecor.max())
        mode = rng.choice(["span", "span", "span", "below", "above", "single"])
        nef = 1 if mode == "single" else rng.randint(2, 6)
        if mode == "below":
            a, b = lo - 2, lo - 1e-6
        elif mode == "above":
            a, b = hi + 1e-6, hi + 2
        else:
            a, b = lo - rng.uniform(0.01, 0.5) * (hi - lo + 1), hi + rng.uniform(0.01, 0.5) * (hi - lo + 1)
        Ef = np.linspace(a, b, nef) if nef > 1 else np.array([rng.uniform(lo, hi)])
        th = rng.choice([1e-4, 1e-4, 1e-8, 0.05])
        case = dict(num_wann=nw, doubled=doubled, hop_scale=hop, NK=NK, NKFFT=NKFFT, Efermi=Ef, degen_thresh=th,
                    seed_note="system = wbsys.rand_system(RandomState drawn from ctx.rng)")
        ctx.count(f"oracle.system.paral.{mode}.{'doubled' if doubled else 'plain'}.hop{hop}")
        with ctx.attempt("run(CumDOS/DOS, tetra=True) on a parallelepiped grid", case):
            from wannierberri.calculators.static import StaticCalculator
            from wannierberri.formula import covariant as frml
            selb = sorted(rng.sample(range(NB), rng.randint(1, NB))) if NB > 1 else [0]
            if doubled:      # select whole Kramers pairs: the bands of a degenerate group have equal weights
                selb = sorted({2 * (b // 2) for b in selb} | {2 * (b // 2) + 1 for b in selb})
            if rng.random() < 0.7:
                rng.shuffle(selb)     # the order of the selection must not matter
            Ef2 = np.array([rng.uniform(lo, hi), hi + 1.0])          # a second Fermi array seen by the same weight object
            # a third one with the same length and the same end points as Ef, other interior points (non-uniform:
            # the tetrahedron path accepts any Fermi array)
            Ef3 = Ef[0] + (Ef[-1] - Ef[0]) * np.linspace(0, 1, nef) ** 2 if nef >= 3 else None
            calcs = {
                "cum": wb.calculators.static.CumDOS(Efermi=Ef, tetra=True, degen_thresh=th),
                "dos": wb.calculators.static.DOS(Efermi=Ef, tetra=True, degen_thresh=th),
                "cum2": wb.calculators.static.CumDOS(Efermi=Ef2, tetra=True, degen_thresh=th),
                "cumh": StaticCalculator(Efermi=Ef, Formula=frml.Identity, fder=0, tetra=True, hole_like=True,
                                         degen_thresh=th),
                "dsel": wb.calculators.static.DOS(Efermi=Ef, tetra=True, degen_thresh=th, select_bands=np.array(selb))}
            if Ef3 is not None:
                calcs["cum3"] = wb.calculators.static.CumDOS(Efermi=Ef3, tetra=True, degen_thresh=th)
            if rng.random() < 0.5:
                calcs = dict(reversed(list(calcs.items())))          # evaluation order on every Data_K
            with quiet():
                grid = wb.Grid(s, NK=NK, NKFFT=NKFFT)
                res = wb.run(s, grid, calculators=calcs,
                             parallel=False, use_irred_kpt=False, symmetrize=False, print_Kpoints=False, adpt_num_iter=0,
                    fout_name=os.path.join(ctx.work, "result"))
            cum = res.results["cum"].data
            dos = res.results["dos"].data
            ref0 = np.zeros(nef)
            ref1 = np.zeros(nef)
            ref1s = np.zeros(nef)
            ref2 = np.zeros(2)
            ref3 = np.zeros(nef)
            bound1 = 0.0
            for ik in range(len(ks)):
                for ib in range(NB):
                    ref2 += paral_exact(0, Ecen[ik, ib], Ecor[ik, ..., ib], Ef2)
                    if Ef3 is not None:
                        ref3 += paral_exact(0, Ecen[ik, ib], Ecor[ik, ..., ib], Ef3)
                    if Ef[-1] < min(Ecen[ik, ib], Ecor[ik, ..., ib].min()):
                        continue
                    ref0 += paral_exact(0, Ecen[ik, ib], Ecor[ik, ..., ib], Ef)
                    r1 = paral_exact(1, Ecen[ik, ib], Ecor[ik, ..., ib], Ef)
                    ref1 += r1
                    if ib in selb:
                        ref1s += r1
                    for t in paral_tets():
                        bound1 += poly_bound(1, [Ecen[ik, ib]] + [Ecor[(ik,) + v + (ib,)] for v in t],
                                             M=max(abs(lo), abs(hi), abs(Ef[0]), abs(Ef[-1]))) / 12
            ref0 /= len(ks)
            ref1 /= len(ks)
            ref1s /= len(ks)
            ref2 /= len(ks)
            bound1 /= len(ks)
            # a second Fermi array in the same run, the hole-like (der = -1) completion, a band selection
            if hop != 0.0 and np.abs(res.results["cum2"].data - ref2).max() > 1e-9:
                ctx.fail(f"CumDOS(tetra=True) for a second Fermi array in the same run {res.results['cum2'].data.tolist()} "
                         f"differs from the exact fractions {ref2.tolist()}", dict(case, Efermi2=Ef2))
            if Ef3 is not None and hop != 0.0 and np.abs(res.results["cum3"].data - ref3 / len(ks)).max() > 1e-9:
                ctx.fail(f"CumDOS(tetra=True) for a Fermi array with the same length and end points as another one in the "
                         f"same run {res.results['cum3'].data.tolist()} differs from the exact fractions "
                         f"{(ref3 / len(ks)).tolist()}", dict(case, Efermi3=Ef3))
            volc = abs(np.linalg.det(s.real_lattice))
            if np.abs(res.results["cumh"].data * volc - (cum - NB)).max() > 1e-9:
                ctx.fail(f"hole-like tetrahedron state count {(res.results['cumh'].data * volc).tolist()} is not "
                         f"CumDOS - NB = {(cum - NB).tolist()} (der=-1 weights and the anti-sea group)", case)
            if th <= 1e-4 and bound1 / max(len(ks), 1) + 1e-9 <= 1e-7 * (1 + np.abs(ref1).max()):
                if np.abs(res.results["dsel"].data - ref1s).max() > bound1 / len(ks) + 1e-8 * (1 + np.abs(ref1).max()):
                    ctx.fail(f"DOS(tetra=True, select_bands={selb}) {res.results['dsel'].data.tolist()} differs from the "
                             f"sum of the exact derivative weights of the selected bands {ref1s.tolist()}",
                             dict(case, select_bands=selb))
            ctx.case(signature=("sys", nw, doubled, tuple(NK), tuple(Ef)), nontrivial=mode in ("span", "single"))
            # corner energies are recomputed independently: eigvalsh rounding ~1e-13 enters through F' <= 3/spread
            tol0 = 1e-9
            if np.abs(cum - ref0).max() > tol0 and hop != 0.0:
                ctx.fail(f"CumDOS(tetra=True) {cum.tolist()} differs from the k-average of the exact parallelepiped "
                         f"fractions {ref0.tolist()}", case)
            if hop == 0.0:
                # flat bands: a step function; the 3e-12 smearing only matters within 1e-11 of the band energy
                far = np.all(np.abs(Ef[:, None] - np.unique(np.round(Ecen, 9))[None, :]) > 1e-8, axis=1)
                if np.abs(cum - ref0)[far].max(initial=0) > 1e-9:
                    ctx.fail(f"flat bands: CumDOS(tetra=True) {cum.tolist()} vs step function {ref0.tolist()}", case)
            if np.any(cum[Ef < lo] != 0) or np.any(np.abs(cum[Ef > hi + 1e-9] - NB) > 1e-12):
                ctx.fail(f"CumDOS(tetra=True) is not 0 below / NB={NB} above all bands: {cum.tolist()}", case)
            if np.any(np.diff(cum) < -1e-12) or cum.min() < -1e-14 or cum.max() > NB + 1e-12:
                ctx.fail(f"CumDOS(tetra=True) not monotone / outside [0, NB]: {cum.tolist()}", case)
            err1 = np.abs(dos - ref1).max()
            if bound1 + 1e-9 <= 1e-7 * (1 + np.abs(ref1).max()):
                if err1 > bound1 + 1e-8 * (1 + np.abs(ref1).max()):
                    ctx.fail(f"DOS(tetra=True) {dos.tolist()} differs from the k-average of the exact derivative of the "
                             f"fraction {ref1.tolist()}", case)
                if dos.min() < -bound1 - 1e-12:
                    ctx.fail(f"DOS(tetra=True) negative: {dos.min()!r}", case)
            elif err1 > 1e-7 * (1 + np.abs(ref1).max()):
                ctx.fail(f"DOS(tetra=True) loses accuracy by cancellation in the polynomial branch: {dos.tolist()} vs "
                         f"exact {ref1.tolist()}", case, kf=KF_CANCEL)
        # ---- tetrahedron K-points
        if it % 2 == 0:
            case2 = dict(case, grid="GridTetra(length=4, NKFFT=...)")
            with ctx.attempt("run(CumDOS, tetra=True) on a tetrahedron grid", case2):
                from wannierberri.grid.grid_tetra import GridTetra
                with quiet():
                    g2 = GridTetra(s, length=rng.choice([3.0, 5.0]), NKFFT=NKFFT)
                    r2 = wb.run(s, g2, calculators={"cum": wb.calculators.static.CumDOS(Efermi=Ef, tetra=True, degen_thresh=th)},
                                parallel=False, use_irred_kpt=False, symmetrize=False, print_Kpoints=False, adpt_num_iter=0,
                    fout_name=os.path.join(ctx.work, "result"))
                c2 = r2.results["cum"].data
                ref = np.zeros(nef)
                wsum = 0.0
                nfft = int(np.prod(NKFFT))
                lo2, hi2 = np.inf, -np.inf     # range of the energies at the vertices of THIS grid
                j0 = nef // 2
                perK = []
                for K in g2.K_list:
                    vals = []
                    for ijk in itertools.product(*[range(n) for n in NKFFT]):
                        kc = (np.array(K.K) + np.array(ijk)) / np.array(NKFFT)
                        Ev = np.array([band_energies(s, kc + v) for v in K.vertices_fullBZ])
                        lo2, hi2 = min(lo2, Ev.min()), max(hi2, Ev.max())
                        vk = np.zeros(nef)
                        for ib in range(NB):
                            if Ef[-1] < Ev[:, ib].min():
                                continue
                            vk += np.array([float(exact_weight(0, Ev[:, ib], x)) for x in Ef])
                        ref += K.factor / nfft * vk
                        vals.append(vk[j0])
                    perK.append((K.factor, vals))
                    wsum += K.factor
                # the model's run-level sum on the same per-point values
                mt = ctx.lean(["runtotal " + ";".join(f"{rat(f_)}:{rats(v_)}" for f_, v_ in perK)])[0]
                if abs(float(Fr(mt)) - c2[j0]) > 1e-9 and hop != 0.0:
                    ctx.mismatch(f"run-level sum: code {c2[j0]!r} model runTotal {float(Fr(mt))!r}",
                                 dict(case2, j=j0, n_Kpoints=len(perK)))
                ctx.case(signature=("systet", nw, doubled, tuple(NKFFT), tuple(Ef)), nontrivial=True)
                ctx.count("oracle.system.tetra_grid")
                if abs(wsum - 1) > 1e-12:
                    ctx.note(f"GridTetra weights sum to {wsum}")
                if hop != 0.0 and np.abs(c2 - ref).max() > 1e-9:
                    ctx.fail(f"CumDOS(tetra=True) on GridTetra {c2.tolist()} differs from the weighted sum of exact "
                             f"tetrahedron fractions {ref.tolist()}", case2)
                if np.any(c2[Ef < lo2 - 1e-9] != 0) or np.any(np.abs(c2[Ef > hi2 + 1e-9] - NB) > 1e-11):
                    ctx.fail(f"GridTetra CumDOS is not 0 below / NB={NB} above all bands: {c2.tolist()}", case2)
                if np.any(np.diff(c2) < -1e-12):
                    ctx.fail(f"GridTetra CumDOS decreases: {c2.tolist()}", case2)


def replay(ctx, case):
    """re-run the recorded failing inputs"""
    for fl in case.get("failures", []):
        c = fl.get("case", {})
        if "e" in c and "efall" in c:
            check_weights(ctx, c["e"], c["efall"], nperm=24)
            print("replayed weights_tetra case", c.get("e"), "->", "FAIL" if ctx.failures else "ok")
        else:
            print("recorded case:", str(c)[:1500])
    if not ctx.failures:
        oracle(ctx, 1)
