"""C21 - orbital rotation matrices form an orthogonal representation; Wannier representation matrices are unitary."""
import itertools
import math
import numpy as np
from fractions import Fraction as Fr

from ..common import F, rat, rats, ratss, ints, parse_ratss, quiet

PID = "C21"
CLAIM = dict(
    design="3/C21",
    technique="Lean 4 proof about the explicit p, d and f rotation matrices of Orbitals.rot_orb_basis (model over an "
              "abstract field containing sqrt 3 / sqrt 15, sqrt 10, sqrt 6; executed at Q(sqrt 3) for d and in the "
              "rescaled integer basis for f), about hybrids M A M^T and about the "
              "block-permutation matrix of Dwann.get_on_points + exact differential correspondence on rational "
              "orthogonal matrices + property oracle on the real OrbitalRotator / Dwann (all shells incl. f, all "
              "hybrids, random O(3) and all cubic + hexagonal crystallographic operations)",
    text="Theorems, over every field of characteristic 0 (containing sqrt 3 for d; sqrt 15, sqrt 10, sqrt 6 for f), for "
         "every 3x3 matrix S with S S^T = 1, proper or improper: the p, d and f matrices built by the code are the matrices of the "
         "substitution r -> S r in the orbital basis, are the identity for S = 1, satisfy A^T A = 1 and the "
         "composition law A(S2 S1) = A(S1) A(S2) (derived from the abstract theorem 'substitution is functorial => "
         "composition law' and the linear independence of the orbitals; f-orthogonality from the addition theorem for "
         "l = 3), p and f are odd and d even under inversion (shells_orthogonal: s, p, d, f); for "
         "hybrids M A M^T: orthogonal, multiplicative and identity-preserving whenever M M^T = 1 and the shell matrix "
         "commutes with the projector M^T M (the hybrid subspace is invariant - automatic when M is square, as for "
         "sp3); a block-permutation matrix with unitary blocks and unimodular phases is unitary and its block "
         "(atommap i, i) is phase_i * rot_i.",
    note="For sp, sp2, sp3d2, t2g, eg, p2, pz, pxy the statement 'for all of O(3)' is false for ANY implementation "
         "(the subspace is not invariant); the check restricts these hybrids to rotations that leave the hybrid "
         "subspace invariant (detected numerically from the full-shell matrix) and does not raise alarms otherwise.",
)
TRUSTED = [
    "modelled: Orbitals.rot_orb_basis for s, p, d, f (substitution, expansion, coefficient extraction, recombination; "
    "the f correspondence runs the model in the integer basis g_i = n_i f_i and uses the proved relation "
    "A_ji = n_j B_ji / n_i), "
    "Orbitals.rot_orb for hybrids (M @ blockdiag @ M.T), Dwann.get_on_points (block placement and phases)",
    "not modelled (oracle only): the sympy expansion itself, OrbitalRotator's cache (UniqueList with "
    "tolerance 1e-4: two rotations closer than 1e-4 share one cached matrix - generators keep rotations >= 1e-2 apart "
    "or use identical matrices), local bases (basis2 @ R @ basis1.T), ';'-joined symbols, Dwann.__init__ (atommap and "
    "T come from irrep.get_atom_map and are checked against the property on every run), spinor blocks",
    "np.linalg.inv(rot_glb) is replaced by the exact inverse (= transpose) of a rational orthogonal matrix",
    "hybrids other than sp3: the property is checked only for rotations that leave the hybrid subspace invariant "
    "(|A P - P A| < 1e-9 with P = M^T M and A the full-shell matrix); non-invariant cases are counted, not reported",
    "the loop over ip in get_on_points is modelled by its closed form (equal when atommap[:, isym] is a permutation, "
    "which is checked)",
]
RULE = ("rational orthogonal matrices (48 signed permutations, Pythagorean rotations, Cayley transforms of small "
        "integer skew matrices, proper and improper); random O(3) elements; the 48 cubic and 24 hexagonal point "
        "operations; every shell s,p,d,f and every hybrid name of orbitals.hybrid_shells_list; space groups Pm-3m, "
        "Fd-3m, P6/mmm, P6_3mc-type, P4/mmm, P-1 with several site sets, default and user-given local frames (generic "
        "directions and directions tilted by 1e-4 .. 3e-2 rad away from a Cartesian axis).  non-trivial = rotation not a signed "
        "permutation or shell d/f or a hybrid; distinct = distinct (operation, inputs)")


# --------------------------------------------------------------------------------------------
# rotations

def signed_perms():
    out = []
    for p in itertools.permutations(range(3)):
        for s in itertools.product([1, -1], repeat=3):
            M = [[Fr(0)] * 3 for _ in range(3)]
            for i in range(3):
                M[i][p[i]] = Fr(s[i])
            out.append(M)
    return out


def fmatmul(A, B):
    return [[sum(A[i][k] * B[k][j] for k in range(3)) for j in range(3)] for i in range(3)]


def ftranspose(A):
    return [[A[j][i] for j in range(3)] for i in range(3)]


def cayley(rng, big=3):
    """rational rotation (I - A)(I + A)^-1 for an integer skew matrix A"""
    import sympy
    a, b, c = (Fr(rng.randint(-big, big), rng.randint(1, 3)) for _ in range(3))
    A = sympy.Matrix([[0, -c, b], [c, 0, -a], [-b, a, 0]])
    R = (sympy.eye(3) - A) * (sympy.eye(3) + A).inv()
    return [[Fr(int(R[i, j].p), int(R[i, j].q)) for j in range(3)] for i in range(3)]


def rational_orthogonal(rng):
    kind = rng.choice(["perm", "pyth", "cayley", "product"])
    SP = signed_perms()
    if kind == "perm":
        return rng.choice(SP), kind
    if kind == "pyth":
        a, b, h = rng.choice([(3, 4, 5), (5, 12, 13), (8, 15, 17), (7, 24, 25)])
        c, s = Fr(a, h), Fr(b, h)
        R = [[c, -s, Fr(0)], [s, c, Fr(0)], [Fr(0), Fr(0), Fr(1)]]
        P = rng.choice(SP)
        return fmatmul(fmatmul(P, R), ftranspose(P)), kind
    if kind == "cayley":
        R = cayley(rng)
        if rng.random() < 0.5:
            R = [[-x for x in r] for r in R]
        return R, kind
    return fmatmul(rational_orthogonal(rng)[0], rational_orthogonal(rng)[0]), kind


def f2np(M):
    return np.array([[float(x) for x in r] for r in M])


def rand_O3(rs, improper=None):
    from scipy.spatial.transform import Rotation
    R = Rotation.random(random_state=rs).as_matrix()
    if improper is None:
        improper = rs.rand() < 0.5
    return -R if improper else R


def cubic_group():
    return [f2np(M) for M in signed_perms()]


def hexagonal_group():
    out = []
    for n in range(6):
        t = n * np.pi / 3
        Rz = np.array([[np.cos(t), -np.sin(t), 0], [np.sin(t), np.cos(t), 0], [0, 0, 1]])
        for C2 in (np.eye(3), np.diag([1.0, -1.0, -1.0])):
            for inv in (1, -1):
                out.append(inv * Rz @ C2)
    return out


# --------------------------------------------------------------------------------------------
# orbitals as functions (the definition of what the matrices must represent)

S3, S6, S10, S15 = math.sqrt(3), math.sqrt(6), math.sqrt(10), math.sqrt(15)
ORB = {
    "s": lambda x, y, z: 1 + 0 * x,
    "pz": lambda x, y, z: z, "px": lambda x, y, z: x, "py": lambda x, y, z: y,
    "dz2": lambda x, y, z: (2 * z * z - x * x - y * y) / (2 * S3), "dxz": lambda x, y, z: x * z,
    "dyz": lambda x, y, z: y * z, "dx2-y2": lambda x, y, z: (x * x - y * y) / 2, "dxy": lambda x, y, z: x * y,
    "fz3": lambda x, y, z: z * (2 * z * z - 3 * x * x - 3 * y * y) / (2 * S15),
    "fxz2": lambda x, y, z: x * (4 * z * z - x * x - y * y) / (2 * S10),
    "fyz2": lambda x, y, z: y * (4 * z * z - x * x - y * y) / (2 * S10),
    "fzx2-zy2": lambda x, y, z: z * (x * x - y * y) / 2, "fxyz": lambda x, y, z: x * y * z,
    "fx3-3xy2": lambda x, y, z: x * (x * x - 3 * y * y) / (2 * S6),
    "f3yx2-y3": lambda x, y, z: y * (3 * x * x - y * y) / (2 * S6),
}


def orb_values(names, pts):
    """values[i, n] of (hybrid) orbital i at point n"""
    from wannierberri.symmetry.orbitals import hybrids_coef
    out = []
    for nm in names:
        out.append(sum(c * ORB[o](pts[:, 0], pts[:, 1], pts[:, 2]) for o, c in hybrids_coef[nm].items()))
    return np.array(out)


def substitution_defect(names, R, A, pts):
    """max | phi_j(R^-1 r) - sum_i phi_i(r) A_ij |  over the sample points"""
    lhs = orb_values(names, pts @ np.linalg.inv(R).T)      # phi_j(R^-1 r)
    rhs = A.T @ orb_values(names, pts)
    return float(np.abs(lhs - rhs).max())


# --------------------------------------------------------------------------------------------
# correspondence

def corr(ctx):
    from wannierberri.symmetry.orbitals import get_orbitals, OrbitalRotator, hybrid_shells_list
    rng = ctx.rng
    orbs = get_orbitals()
    lines, checks = [], []

    def add(line, chk, sig, nt=True):
        lines.append(line)
        checks.append((chk, sig, nt))

    def mat_check(want, what, tol):
        def chk(out):
            got = np.array([[float(x) for x in r] for r in parse_ratss(out)])
            if got.shape != want.shape:
                return f"{what}: shape {got.shape} vs {want.shape}"
            d = float(np.abs(got - want).max())
            if d > tol:
                return f"{what}: model and code differ by {d:.3e}"
        return chk

    def matq3_check(want, what, tol):
        def chk(out):
            vals = [float(Fr(t.split(",")[0])) + float(Fr(t.split(",")[1])) * S3 for t in out.split(";")]
            got = np.array(vals).reshape(5, 5)
            d = float(np.abs(got - want).max())
            if d > tol:
                return f"{what}: model and code differ by {d:.3e}"
        return chk

    # ---- 1. p and d shells on rational orthogonal matrices (S = R^-1 = R^T exactly)
    for it in range(ctx.n(16, 120)):
        R, kind = rational_orthogonal(rng)
        Rn = f2np(R)
        S = ftranspose(R)
        case = dict(what="rot_orb_basis", R=Rn, kind=kind)
        ctx.count(f"corr.shell.{kind}.det={int(round(np.linalg.det(Rn)))}")
        with ctx.attempt("rot_orb_basis", case):
            Ap = orbs.rot_orb_basis("p", Rn)
            add(f"rotp {ratss(S)}", mat_check(Ap, f"p matrix ({kind})", 1e-13), ("p", str(R)), kind != "perm")
            Ad = orbs.rot_orb_basis("d", Rn)
            add(f"rotd {ratss(S)}", matq3_check(Ad, f"d matrix ({kind})", 1e-12), ("d", str(R)), True)
            if it % ctx.n(3, 2) == 0:      # f shell: ~1 s of sympy per rotation in the real code
                Af = orbs.rot_orb_basis("f", Rn)
                # the model works in the integer basis g_i = n_i f_i (rational entries B); proved: A_ji = n_j B_ji / n_i
                nf = np.array([2 * S15, 2 * S10, 2 * S10, 2.0, 1.0, 2 * S6, 2 * S6])
                add(f"rotg {ratss(S)}", mat_check(Af * nf[None, :] / nf[:, None], f"f matrix ({kind}), integer basis", 1e-12),
                    ("f", str(R)), True)
    # ---- 2. hybrids: M @ blockdiag(shell matrices) @ M.T with the code's own M and shell order
    rotator = OrbitalRotator()
    for it in range(ctx.n(10, 60)):
        R, kind = rational_orthogonal(rng)
        Rn = f2np(R)
        hname = rng.choice(hybrid_shells_list)
        case = dict(what="rot_orb hybrid", hybrid=hname, R=Rn)
        with ctx.attempt("rot_orb (hybrid)", case):
            M = orbs.hybrid_matrix_dic[hname]
            starts = orbs.hybrid_matrix_shells_start[hname]
            shells = orbs.hybrid_matrix_shells_dic[hname]
            nb = M.shape[1]
            A = np.zeros((nb, nb))
            for s0, e0, sh in zip(starts, starts[1:], shells):
                A[s0:e0, s0:e0] = orbs.rot_orb_basis(sh, Rn)
            got = rotator(hname, rot_cart=Rn)
            ctx.count(f"corr.hybrid.{hname}")
            add(f"hyb {M.shape[0]} {nb} {ratss(M)} {ratss(A)}", mat_check(got, f"hybrid {hname}", 1e-13),
                ("hyb", hname, str(R)), True)
    # ---- 3. Dwann.get_on_points on quarter-integer k-points
    for sgname, dw, sg in dwann_objects(ctx, ctx.n(2, 6), orbitals=("s", "p")):
        for it in range(ctx.n(4, 12)):
            isym = rng.randrange(sg.size)
            symop = sg.symmetries[isym]
            k = np.array([rng.randint(-3, 4) for _ in range(3)]) / 4.0
            k1 = symop.transform_k(k)
            g = np.array([rng.randint(-1, 1) for _ in range(3)])
            case = dict(what="Dwann.get_on_points", spacegroup=sgname, isym=isym, k=k)
            with ctx.attempt("Dwann.get_on_points", case):
                D = dw.get_on_points(k, k1 + g, isym)
                m = dw.num_orbitals
                am = dw.atommap[:, isym]
                if sorted(am) != list(range(dw.num_points)):
                    ctx.mismatch("atommap[:, isym] is not a permutation", case)
                    continue
                ph = [np.dot(k1, dw.T[ip, isym]) for ip in range(dw.num_points)]
                q = [int(round(4 * p)) for p in ph]
                if max(abs(4 * p - qq) for p, qq in zip(ph, q)) > 1e-9:
                    continue
                pre = [[1, 0, -1, 0][qq % 4] for qq in q]
                pim = [[0, 1, 0, -1][qq % 4] for qq in q]
                rot = [dw.rot_orb[ip, isym].reshape(-1) for ip in range(dw.num_points)]
                ctx.count(f"corr.dwann.{sgname}.m={m}")

                def chk(out, D=D):
                    a, b = out.split(" ")
                    return mat_check(D.real, "Dwann re", 1e-12)(a) or mat_check(D.imag, "Dwann im", 1e-12)(b)
                add(f"dwann {dw.num_points} {m} {ints(am)} {rats(pre)} {rats(pim)} {ratss(rot)}", chk,
                    ("dwann", sgname, isym, tuple(k), m), dw.num_points > 1)
    out = ctx.lean(lines)
    for l, o, (chk, sig, nt) in zip(lines, out, checks):
        ctx.case(signature=sig, nontrivial=nt)
        if o == "bad-op":
            ctx.mismatch("model rejected the line", dict(line=l[:400]))
            continue
        msg = chk(o)
        if msg:
            ctx.mismatch(msg, dict(line=l[:2000], model=o[:800]))
    if lines:
        ctx.sample(dict(protocol_line=lines[0][:300], model=out[0][:200]))
        ctx.sample(dict(protocol_line=lines[-1][:300], model=out[-1][:200]))


# --------------------------------------------------------------------------------------------
# space groups / Dwann objects from the real code

def structures():
    h = np.array([[1, 0, 0], [-0.5, np.sqrt(3) / 2, 0], [0, 0, 1.6]])
    fcc = np.array([[0, 1, 1], [1, 0, 1], [1, 1, 0]]) / 2.0
    return [
        ("Pm-3m", np.eye(3), [[0, 0, 0]], [1], [[[0, 0, 0]], [[0.5, 0, 0]], [[0.5, 0.5, 0.5]]], ["s", "p", "d", "sp3", "sp3d2", "t2g", "eg"]),
        ("Fd-3m", fcc, [[0, 0, 0], [.25, .25, .25]], [1, 1], [[[0, 0, 0]], [[.125, .125, .125]]], ["s", "p", "sp3", "d"]),
        ("F-43m", fcc, [[0, 0, 0], [.25, .25, .25]], [1, 2], [[[0, 0, 0]], [[.25, .25, .25]]], ["s", "p", "sp3"]),
        ("P6/mmm", h, [[1 / 3, 2 / 3, 0], [2 / 3, 1 / 3, 0]], [1, 1], [[[1 / 3, 2 / 3, 0]], [[0, 0, 0]], [[0.5, 0, 0]]], ["s", "p", "pz", "sp2", "d", "pxy"]),
        ("P6_3mc", h, [[1 / 3, 2 / 3, 0], [2 / 3, 1 / 3, 0.5], [1 / 3, 2 / 3, 0.375], [2 / 3, 1 / 3, 0.875]], [1, 1, 2, 2],
         [[[1 / 3, 2 / 3, 0]], [[1 / 3, 2 / 3, 0.375]]], ["s", "p", "sp3", "pz"]),
        ("P4/mmm", np.diag([1, 1, 1.3]), [[0, 0, 0], [0.5, 0.5, 0.5]], [1, 2], [[[0, 0, 0]], [[0.5, 0, 0]], [[0.5, 0.5, 0.5]]], ["s", "p", "d", "pz"]),
        ("P-1", np.array([[1, 0.1, 0.2], [0.15, 1.1, 0.05], [0.1, 0.2, 0.9]]), [[0.1, 0.2, 0.3], [-0.1, -0.2, -0.3], [0, 0, 0]], [1, 1, 2],
         [[[0.1, 0.2, 0.3]], [[0, 0, 0]]], ["s", "p", "d", "f"]),
    ]


def dwann_objects(ctx, nmax, orbitals=None, spinor_prob=0.0):
    """yields (name, Dwann, spacegroup) built with the repository's Projection / OrbitalRotator"""
    from irrep.spacegroup import SpaceGroup
    from wannierberri.symmetry.Dwann import Dwann
    from wannierberri.symmetry.orbitals import OrbitalRotator
    from wannierberri.symmetry.projections import Projection
    rng = ctx.rng
    st = structures()
    rotator = OrbitalRotator()
    for it in range(nmax):
        name, lat, pos, typ, sites, orbs = st[rng.randrange(len(st))]
        spinor = rng.random() < spinor_prob
        site = rng.choice(sites)
        orb = rng.choice([o for o in orbs if orbitals is None or o in orbitals] or ["s"])
        rotate_basis = rng.random() < 0.7
        xaxis = zaxis = None
        if rng.random() < 0.4:      # a user-given local frame (generic or slightly tilted away from a Cartesian axis)
            xaxis, zaxis = rand_axes(np.random.RandomState(rng.getrandbits(31)))
        case = dict(what="Dwann construction", spacegroup=name, site=site, orbital=orb, spinor=spinor, rotate_basis=rotate_basis,
                    xaxis=xaxis, zaxis=zaxis)
        with ctx.attempt("Dwann construction", case):
            with quiet():
                sg = SpaceGroup.from_cell(real_lattice=lat, positions=pos, typat=typ, spinor=spinor)
                proj = Projection(position_num=site, orbital=orb, spacegroup=sg, rotate_basis=rotate_basis,
                                  xaxis=xaxis, zaxis=zaxis)
                dw = Dwann(spacegroup=sg, positions=proj.positions, orbital=orb, orbitalrotator=rotator,
                           basis_list=proj.basis_list, spinor=spinor)
            dw._verif = dict(case, basis_list=np.array(proj.basis_list))
            yield (f"{name}:{orb}:{'rot' if rotate_basis else 'fix'}{':spinor' if spinor else ''}"
                   f"{':axes' if (xaxis is not None or zaxis is not None) else ''}"), dw, sg


# --------------------------------------------------------------------------------------------
# oracle

def invariant(orbs, hname, R):
    """does the rotation leave the hybrid subspace invariant?  (A P = P A with P = M^T M, A = full-shell matrix)"""
    M = orbs.hybrid_matrix_dic[hname]
    starts = orbs.hybrid_matrix_shells_start[hname]
    shells = orbs.hybrid_matrix_shells_dic[hname]
    nb = M.shape[1]
    A = np.zeros((nb, nb))
    for s0, e0, sh in zip(starts, starts[1:], shells):
        A[s0:e0, s0:e0] = orbs.rot_orb_basis(sh, R)
    P = M.T @ M
    return float(np.abs(A @ P - P @ A).max()) < 1e-9


def oracle(ctx, scale):
    rs = np.random.RandomState(ctx.rng.getrandbits(31))
    oracle_shells(ctx, scale, rs)
    oracle_hybrids(ctx, scale, rs)
    oracle_rotator_glue(ctx, scale, rs)
    oracle_long_history(ctx, scale, rs)
    oracle_local_frames(ctx, scale, rs)
    oracle_dwann(ctx, scale, rs)


def check_rep(ctx, names, A, R, case, pts, tol=1e-11, what=""):
    n = len(names)
    if A.shape != (n, n):
        ctx.fail(f"{what}: matrix has shape {A.shape}, expected {(n, n)}", case)
        return False
    d = float(np.abs(A.T @ A - np.eye(n)).max())
    if d > tol:
        ctx.fail(f"{what}: matrix is not orthogonal (|A^T A - 1| = {d:.3e})", dict(case, matrix=A))
        return False
    d = substitution_defect(names, R, A, pts)
    if d > tol * 10:
        ctx.fail(f"{what}: matrix is not the matrix of the substitution phi_j(R^-1 r) = sum_i phi_i(r) A_ij (defect {d:.3e})",
                 dict(case, matrix=A))
        return False
    return True


def oracle_shells(ctx, scale, rs):
    from wannierberri.symmetry.orbitals import OrbitalRotator, orbitals_sets_dic
    rotator = OrbitalRotator()
    pts = rs.normal(size=(12, 3))
    crystal = cubic_group() + hexagonal_group()
    ncr = len(crystal) if ctx.tier == "thorough" else 14
    sel = [crystal[i] for i in rs.choice(len(crystal), ncr, replace=False)]
    rots = [("crystallographic", R) for R in sel] + [("random", rand_O3(rs)) for _ in range(ctx.n(6, 40) * scale)]
    rots.append(("identity", np.eye(3)))
    rots.append(("inversion", -np.eye(3)))
    # the six axis-aligned two-fold rotations and mirrors (diagonal +-1 matrices) are ALWAYS included, for every
    # shell and in both tiers: they are the operations every orthorhombic/tetragonal/cubic site group contains and
    # the natural target of special-casing in the code (a sampled subset of the 72 operations can miss all of them)
    for sg in itertools.product((1, -1), repeat=3):
        if len(set(sg)) > 1:
            rots.append(("axis-aligned", np.diag(np.array(sg, dtype=float))))
    nf = 0
    for shell, l in (("s", 0), ("p", 1), ("d", 2), ("f", 3)):
        names = orbitals_sets_dic[shell]
        mats = []
        rots_shell = rots
        if shell == "f":   # sympy expansion of the f shell costs ~1 s per new rotation: interleave random and crystallographic
            rnd = [r for r in rots if r[0] == "random"]
            cry = [r for r in rots if r[0] == "crystallographic"]
            rots_shell = [r for r in rots if r[0] in ("identity", "inversion", "axis-aligned")] + \
                [x for pair in itertools.zip_longest(rnd, cry) for x in pair if x is not None]
        for kind, R in rots_shell:
            if shell == "f":
                if nf >= ctx.n(8, 60) * scale and kind not in ("identity", "inversion", "axis-aligned"):
                    continue
                nf += 1
            case = dict(what="OrbitalRotator shell", shell=shell, kind=kind, R=R)
            with ctx.attempt(f"OrbitalRotator('{shell}')", case):
                A = rotator(shell, rot_cart=R)
                ctx.case(signature=("shell", shell, R.tobytes()), nontrivial=shell in "df" or kind == "random")
                ctx.count(f"oracle.shell.{shell}.{kind}.det={int(round(np.linalg.det(R)))}")
                if not check_rep(ctx, names, A, R, case, pts, what=f"shell {shell}"):
                    continue
                if kind == "identity" and np.abs(A - np.eye(len(names))).max() > 1e-13:
                    ctx.fail(f"shell {shell}: identity rotation does not give the identity matrix", dict(case, matrix=A))
                mats.append((R, A))
        # parity (improper rotations) and composition
        for (R1, A1) in mats[:ctx.n(6, 30)]:
            case = dict(what="OrbitalRotator parity", shell=shell, R=R1)
            with ctx.attempt(f"OrbitalRotator('{shell}') parity", case):
                if shell == "f" and nf >= ctx.n(14, 90) * scale:
                    break
                nf += shell == "f"
                Am = rotator(shell, rot_cart=-R1)
                if np.abs(Am - (-1) ** l * A1).max() > 1e-11:
                    ctx.fail(f"shell {shell}: A(-R) != (-1)^l A(R) (improper rotation mishandled)", dict(case, A=A1, A_minus=Am))
        pairs = [(mats[i], mats[j]) for i in range(len(mats)) for j in range(len(mats))]
        idx = rs.permutation(len(pairs))[:ctx.n(6, 40) * scale if shell != "f" else ctx.n(3, 12) * scale]
        for ii in idx:
            (R1, A1), (R2, A2) = pairs[ii]
            case = dict(what="OrbitalRotator composition", shell=shell, R1=R1, R2=R2)
            with ctx.attempt(f"OrbitalRotator('{shell}') composition", case):
                A12 = rotator(shell, rot_cart=R1 @ R2)
                ctx.case(signature=("comp", shell, R1.tobytes(), R2.tobytes()), nontrivial=True)
                d = float(np.abs(A12 - A1 @ A2).max())
                if d > 1e-11:
                    ctx.fail(f"shell {shell}: composition law fails, |A(R1 R2) - A(R1) A(R2)| = {d:.3e}", case)


def oracle_hybrids(ctx, scale, rs):
    from wannierberri.symmetry.orbitals import OrbitalRotator, get_orbitals, hybrid_shells_list, orbitals_sets_dic
    orbs = get_orbitals()
    rotator = OrbitalRotator()
    pts = rs.normal(size=(12, 3))
    cands = cubic_group() + hexagonal_group()
    for t in rs.uniform(0, 2 * np.pi, 4):
        c, s = np.cos(t), np.sin(t)
        cands.append(np.array([[c, -s, 0], [s, c, 0], [0, 0, 1]]))               # about z
        cands.append(np.array([[c, -s, 0], [s, c, 0], [0, 0, -1]]))              # rotoreflection
        cands.append(np.array([[1, 0, 0], [0, c, -s], [0, s, c]]))               # about x
        cands.append(np.array([[1, 0, 0], [0, c, s], [0, s, -c]]))               # mirror containing x
    cands += [rand_O3(rs) for _ in range(4)]
    for hname in hybrid_shells_list:
        names = orbitals_sets_dic[hname]
        order = rs.permutation(len(cands))[:ctx.n(22, len(cands)) * (1 if scale == 1 else 2)]
        good = []
        for ic in order:
            R = cands[ic]
            case = dict(what="OrbitalRotator hybrid", hybrid=hname, R=R)
            with ctx.attempt(f"OrbitalRotator('{hname}')", case):
                inv_ok = invariant(orbs, hname, R)
                if hname == "sp3" and not inv_ok:
                    ctx.fail("sp3 spans s+p, its subspace must be invariant under every rotation", case)
                ctx.count(f"oracle.hybrid.{hname}.{'invariant' if inv_ok else 'not-invariant(skipped)'}")
                if not inv_ok:
                    continue
                A = rotator(hname, rot_cart=R)
                ctx.case(signature=("hyb", hname, R.tobytes()), nontrivial=True)
                if check_rep(ctx, names, A, R, case, pts, what=f"hybrid {hname}"):
                    good.append((R, A))
        with ctx.attempt(f"OrbitalRotator('{hname}') identity", dict(hybrid=hname)):
            A = rotator(hname, rot_cart=np.eye(3))
            if np.abs(A - np.eye(len(names))).max() > 1e-13:
                ctx.fail(f"hybrid {hname}: identity rotation does not give the identity matrix", dict(hybrid=hname, matrix=A))
        for _ in range(min(ctx.n(5, 25), len(good) ** 2)):
            (R1, A1), (R2, A2) = good[rs.randint(len(good))], good[rs.randint(len(good))]
            case = dict(what="OrbitalRotator hybrid composition", hybrid=hname, R1=R1, R2=R2)
            with ctx.attempt(f"OrbitalRotator('{hname}') composition", case):
                A12 = rotator(hname, rot_cart=R1 @ R2)
                d = float(np.abs(A12 - A1 @ A2).max())
                ctx.case(signature=("hybcomp", hname, R1.tobytes(), R2.tobytes()), nontrivial=True)
                if d > 1e-11:
                    ctx.fail(f"hybrid {hname}: composition law fails on invariant rotations ({d:.3e})", case)


def oracle_rotator_glue(ctx, scale, rs):
    """cache, local bases and ';'-joined symbols"""
    from wannierberri.symmetry.orbitals import OrbitalRotator
    from scipy.linalg import block_diag
    rotator = OrbitalRotator()
    for it in range(ctx.n(4, 20) * scale):
        R, b1, b2 = rand_O3(rs), rand_O3(rs, improper=False), rand_O3(rs, improper=False)
        sym = str(rs.choice(["p", "d", "s;p", "p;d", "s;p;d", "sp3;d"]))
        case = dict(what="OrbitalRotator local bases", symbol=sym, R=R, basis1=b1, basis2=b2)
        with ctx.attempt("OrbitalRotator (bases / joined symbols)", case):
            A = rotator(sym, rot_cart=R, basis1=b1, basis2=b2)
            Reff = b2 @ R @ b1.T
            parts = [OrbitalRotator()(s, rot_cart=Reff) for s in sym.split(";")]
            want = block_diag(*parts)
            ctx.case(signature=("glue", sym, R.tobytes()), nontrivial=True)
            if A.shape != want.shape or np.abs(A - want).max() > 1e-12:
                ctx.fail("OrbitalRotator with local bases / joined symbols differs from block_diag of the shells at "
                         "basis2 @ R @ basis1.T", case)
            if np.abs(A.T @ A - np.eye(len(A))).max() > 1e-11:
                ctx.fail("OrbitalRotator with local bases: not orthogonal", case)
            # the cache returns the same matrix for the same rotation, also by index
            A2 = rotator(sym, rot_cart=R, basis1=b1, basis2=b2)
            if np.abs(A2 - A).max() > 0:
                ctx.fail("OrbitalRotator cache returned a different matrix for the same rotation", case)


def oracle_long_history(ctx, scale, rs):
    """C21 is a property of the rotator OBJECT for all rotations it is ever asked for: ONE OrbitalRotator is asked for
    many hundred distinct rotations (random O(3) and crystallographic, several symbols interleaved, local bases now
    and then), earlier rotations are re-asked in between, and EVERY answer is compared with the answer of a FRESH
    rotator and with the pointwise substitution test.  Any cache keyed by position / capacity / history must return
    the matrix of the rotation that was asked for."""
    from wannierberri.symmetry.orbitals import OrbitalRotator, orbitals_sets_dic
    from scipy.linalg import block_diag
    rotator = OrbitalRotator()
    pts = rs.normal(size=(8, 3))
    crystal = cubic_group() + hexagonal_group()
    ntot = ctx.n(850, 2500) * (1 if scale == 1 else 2)
    asked = []          # (symbol, R_effective, answer)
    nfail = 0
    ndist = 0
    for it in range(ntot):
        u = rs.rand()
        sym = "p" if u < 0.90 else ("s" if u < 0.93 else ("d" if u < 0.96 else ("s;p" if u < 0.98 else "sp3")))
        reask = len(asked) > 10 and rs.rand() < 0.2
        b1 = b2 = None
        if reask:
            j = int(rs.randint(len(asked)))
            if rs.rand() < 0.5:
                j = int(rs.randint(min(len(asked), 40)))        # one of the very first rotations
            sym0, R, prev = asked[j]
            if sym0 != sym and rs.rand() < 0.5:
                prev = None                                      # an earlier rotation, now for another symbol
            else:
                sym = sym0
        else:
            R = crystal[int(rs.randint(len(crystal)))] if rs.rand() < 0.1 else rand_O3(rs)
            prev = None
            ndist += 1
            if rs.rand() < 0.05:
                b1, b2 = rand_O3(rs, improper=False), rand_O3(rs, improper=False)
        case = dict(what="OrbitalRotator long history", request_number=it, symbol=sym, R=R, reasked=bool(reask),
                    distinct_rotations_so_far=ndist)
        with ctx.attempt("OrbitalRotator (long history)", case):
            if b1 is not None:
                A = rotator(sym, rot_cart=R, basis1=b1, basis2=b2)
                R = b2 @ R @ b1.T
            else:
                A = rotator(sym, rot_cart=R)
            fresh = OrbitalRotator()(sym, rot_cart=R)
            names = [o for sh in sym.split(";") for o in orbitals_sets_dic[sh]]
            ctx.case(signature=("hist", it, sym, R.tobytes()), nontrivial=True)
            msg = None
            if A.shape != fresh.shape or np.abs(A - fresh).max() > 1e-12:
                msg = (f"a REUSED OrbitalRotator returns a matrix that differs from a fresh rotator's by "
                       f"{np.abs(A - fresh).max() if A.shape == fresh.shape else 'shape'} (request {it}, {ndist} distinct rotations so far)")
            elif prev is not None and np.abs(A - prev).max() > 0:
                msg = "re-asking an earlier rotation gives a different matrix than the first time"
            else:
                # substitution test blockwise (joined symbols are block diagonal)
                off = 0
                for sh in sym.split(";"):
                    nsh = len(orbitals_sets_dic[sh])
                    blk = A[off:off + nsh, off:off + nsh]
                    dfc = substitution_defect(orbitals_sets_dic[sh], R, blk, pts)
                    if dfc > 1e-10:
                        msg = f"matrix returned for '{sh}' is not the matrix of the rotation asked for (substitution defect {dfc:.3e})"
                    off += nsh
            if msg:
                nfail += 1
                if nfail <= 3:
                    ctx.fail("OrbitalRotator long history: " + msg, case)
            if not reask:
                asked.append((sym, R, A))
    ctx.count("oracle.history.requests", ntot)
    ctx.count("oracle.history.distinct_rotations", ndist)
    ctx.count("oracle.history.failures", nfail)


def rand_axis(rs, ref=None):
    """a direction: generic, or tilted by a small angle (1e-4 .. 3e-2 rad) away from a Cartesian axis (bond directions
    of slightly relaxed structures); never closer than 1e-4 rad to `ref` (the code raises for collinear input)"""
    while True:
        if rs.rand() < 0.5:
            v = rs.normal(size=3)
        else:
            e = np.zeros(3)
            e[rs.randint(3)] = rs.choice([1.0, -1.0])
            t = rs.normal(size=3)
            t -= t.dot(e) * e
            t /= np.linalg.norm(t)
            v = e + float(rs.choice([1e-4, 1e-3, 4e-3, 8e-3, 3e-2])) * t
        v = v * rs.uniform(0.5, 2.0)
        if ref is None or np.linalg.norm(np.cross(v / np.linalg.norm(v), ref / np.linalg.norm(ref))) > 1e-4:
            return v


def rand_axes(rs):
    """(xaxis, zaxis) as accepted by Projection / read_xzaxis: one of them, both (orthogonal), or none"""
    u = rs.rand()
    if u < 0.4:
        return None, rand_axis(rs, ref=np.array([1.0, 0, 0]))
    if u < 0.7:
        return rand_axis(rs, ref=np.array([0, 0, 1.0])), None
    if u < 0.9:
        z = rand_axis(rs)
        x = np.cross(z, rs.normal(size=3))
        return x, z
    return None, None


def oracle_local_frames(ctx, scale, rs):
    """user-given local frames (xaxis / zaxis of a projection): the frame must be orthonormal and right-handed with the
    requested axes, and the orbital matrices built with it must be orthogonal (identity for the identity operation)"""
    from wannierberri.symmetry.projections import read_xzaxis
    from wannierberri.symmetry.orbitals import OrbitalRotator
    rotator = OrbitalRotator()
    for it in range(ctx.n(60, 400) * scale):
        xaxis, zaxis = rand_axes(rs)
        case = dict(what="read_xzaxis", xaxis=xaxis, zaxis=zaxis)
        with ctx.attempt("read_xzaxis", case):
            B = read_xzaxis(None if xaxis is None else xaxis.copy(), None if zaxis is None else zaxis.copy())
            ctx.case(signature=("frame", it), nontrivial=xaxis is not None or zaxis is not None)
            ctx.count(f"oracle.frame.x={'given' if xaxis is not None else 'none'}.z={'given' if zaxis is not None else 'none'}")
            d = float(np.abs(B @ B.T - np.eye(3)).max())
            if d > 1e-12 or abs(np.linalg.det(B) - 1) > 1e-12:
                ctx.fail(f"read_xzaxis: the local frame is not orthonormal / right-handed (|B B^T - 1| = {d:.3e})", dict(case, basis=B))
                continue
            if zaxis is not None and np.linalg.norm(np.cross(B[2], zaxis)) > 1e-12 * np.linalg.norm(zaxis) or \
                    zaxis is not None and B[2].dot(zaxis) <= 0:
                ctx.fail("read_xzaxis: the third row of the frame is not the requested z axis", dict(case, basis=B))
            if xaxis is not None and (np.linalg.norm(np.cross(B[0], xaxis)) > 1e-12 * np.linalg.norm(xaxis) or B[0].dot(xaxis) <= 0):
                ctx.fail("read_xzaxis: the first row of the frame is not the requested x axis", dict(case, basis=B))
            if it % 4 == 0:
                # the matrices of the identity operation between two sites carrying this frame, and of a random operation
                for sym in ("p", "d"):
                    A = rotator(sym, rot_cart=np.eye(3), basis1=B, basis2=B)
                    if np.abs(A - np.eye(len(A))).max() > 1e-10:
                        ctx.fail(f"'{sym}' matrix of the identity operation in a user-given local frame is not the identity", dict(case, basis=B))
                    R = rand_O3(rs)
                    A = rotator(sym, rot_cart=R, basis1=B, basis2=B)
                    if np.abs(A.T @ A - np.eye(len(A))).max() > 1e-10:
                        ctx.fail(f"'{sym}' matrix in a user-given local frame is not orthogonal", dict(case, basis=B, R=R))


def oracle_dwann(ctx, scale, rs):
    from wannierberri.symmetry.orbitals import get_orbitals, hybrid_shells_list
    orbs = get_orbitals()
    for sgname, dw, sg in dwann_objects(ctx, ctx.n(5, 24) * scale, spinor_prob=0.25):
        info = dw._verif
        orb = info["orbital"]
        # atommap / T: every centre is mapped onto its symmetry image
        for isym in ([0] + list(rs.choice(sg.size, min(sg.size, ctx.n(6, 20)), replace=False))):
            symop = sg.symmetries[isym]
            case = dict(info, what="Dwann", isym=int(isym))
            with ctx.attempt("Dwann", case):
                am = dw.atommap[:, isym]
                if sorted(am) != list(range(dw.num_points)):
                    ctx.fail("Dwann.atommap[:, isym] is not a permutation of the centres", dict(case, atommap=am))
                    continue
                for ip, p in enumerate(dw.orbit):
                    img = symop.transform_r(np.array(p))
                    # documented convention of get_atom_map: T = r_ip2 - symop(r_ip) up to the sign convention
                    d1 = img - np.array(dw.orbit[am[ip]])
                    if np.abs(d1 - np.round(d1)).max() > 1e-6:
                        ctx.fail("Dwann.atommap: the image of a centre under the symmetry is not the centre it is mapped to",
                                 dict(case, ip=ip, image=img, mapped=dw.orbit[am[ip]]))
                    if np.abs(np.abs(np.round(d1)) - np.abs(dw.T[ip, isym])).max() > 0:
                        ctx.fail("Dwann.T is not the lattice vector between the image and the mapped centre",
                                 dict(case, ip=ip, T=dw.T[ip, isym], diff=d1))
                # skip hybrids whose subspace is not invariant under the local rotation (not a property of any implementation)
                if orb in hybrid_shells_list and orb != "sp3":
                    bl = info["basis_list"]
                    if not all(invariant(orbs, orb, bl[am[ip]] @ symop.rotation_cart @ bl[ip].T) for ip in range(dw.num_points)):
                        ctx.count(f"oracle.dwann.{sgname}.not-invariant(skipped)")
                        continue
                k = rs.randint(-3, 4, 3) / rs.choice([2, 3, 4, 5])
                k1 = symop.transform_k(k)
                g = rs.randint(-2, 3, 3)
                D = dw.get_on_points(k, k1 + g, isym)
                n = dw.num_wann
                ctx.case(signature=("dwann", sgname, int(isym), tuple(k)), nontrivial=dw.num_points > 1 or dw.num_orbitals > 1)
                ctx.count(f"oracle.dwann.{sgname}")
                if D.shape != (n, n):
                    ctx.fail(f"Dwann.get_on_points: shape {D.shape}", case)
                    continue
                d = float(np.abs(D.conj().T @ D - np.eye(n)).max())
                if d > 1e-11:
                    ctx.fail(f"Dwann.get_on_points is not unitary (|D^+ D - 1| = {d:.3e})", dict(case, k=k))
                m = dw.num_orbitals
                for ip in range(dw.num_points):
                    for jp in range(dw.num_points):
                        blk = D[jp * m:(jp + 1) * m, ip * m:(ip + 1) * m]
                        if jp != am[ip] and np.abs(blk).max() > 0:
                            ctx.fail("Dwann.get_on_points: a centre is connected to a centre that is not its symmetry image",
                                     dict(case, ip=ip, jp=jp))
                        if jp == am[ip]:
                            ph = np.exp(2j * np.pi * np.dot(k1, dw.T[ip, isym]))
                            if np.abs(blk - ph * dw.rot_orb[ip, isym]).max() > 1e-12:
                                ctx.fail("Dwann.get_on_points: block (atommap[ip], ip) is not phase * rot_orb", dict(case, ip=ip))


def replay(ctx, case):
    oracle(ctx, 1)
