"""C25 - spin doubling and spin-orbit assembly preserve the spectrum; rotated Pauli matrices."""
import math
import numpy as np
from fractions import Fraction as Fr

from ..common import rat, ratss, intss, parse_ratss, parse_intss, parse_ints, quiet

PID = "C25"
CLAIM = dict(
    design="3/C25",
    technique="Lean 4 proof over an index-level model (strided block assignment of double_spin / Data_K_soc.HH_K, "
              "merged-R scatter-add of get_system_R, C_ss and the rotated Pauli matrices over an abstract field with "
              "conjugation) + exact differential correspondence on integer matrices + property oracle on the real code",
    text="Theorems, for every size n, every matrix over every commutative ring/field: the interlaced matrix built by "
         "double_spin is permutation-similar to X(+)X, its characteristic polynomial is charpoly(X)^2 and every "
         "eigenvalue's multiplicity doubles; the Data_K_soc assembly without SOC is permutation-similar to "
         "Hup(+)Hdown, charpoly = product, roots = union with multiplicities; for every phase function chi, every "
         "merged list containing the three R lists (which may all differ) the k-sum of get_system_R's Ham equals "
         "Ham_SOC(k) + interlace(Hup(k), Hdown(k)) (same for the other matrices; non-magnetic case nspin=1: both blocks are "
         "the spin-up system WITHOUT conjugation, k-sum = Ham_SOC(k) + double_spin(Hup(k)), and the variant that "
         "conjugates the down block is proved wrong; the Fourier sum of a channel is invariant under a simultaneous "
         "permutation of its R list and matrix list, and summing the down matrices with the up list is correct for identical "
         "lists and wrong for equal-length different lists); for c^2+s^2=1, |e|=1 in any field "
         "with conjugation (instantiated for the complex numbers and every theta, phi): C_ss is unitary, the rotated "
         "matrices are Hermitian, obey sigma_a sigma_b = delta_ab + i eps_abc sigma_c, and n.sigma' = diag(1,-1) with "
         "n = (sin(theta)cos(phi), sin(theta)sin(phi), cos(theta)); the SOC Hamiltonian blocks assembled by "
         "set_soc_axis satisfy H(-R) = H(R)^dagger.  The model is tied to the code by running both on the same "
         "integer / Gaussian-rational inputs; the spectra themselves are checked on the real code at random k.",
    note="Trusted: Lean kernel + Mathlib; the harness; numpy eigvalsh / FFT / einsum / cos / sin / exp by contract. "
         "The passage from 'charpoly squared' to 'each band twice' uses that eigvalsh returns the roots of the "
         "characteristic polynomial.",
)
TRUSTED = [
    "modelled: the index maps of System_R.double_spin, Data_K_soc.HH_K (no-SOC part), SystemSOC.get_system_R "
    "(merge_Rvectors maps + scatter-add), SystemSOC.set_soc_axis (Ham_SOC blocks), SOC.get_C_ss / get_pauli_rotated",
    "not modelled (oracle only): Rvectors.double_spin, set_spin_pairs, the FFT R->k, eigvalsh, the SS matrix of "
    "set_soc_axis, Data_K_soc.Xbar, wannier-centre bookkeeping",
    "chanSum / downOwn / downShared (each spin channel of Data_K_soc is Fourier-summed with its own R list; T6a-c) are "
    "tied to the code by the oracle only (up/down lists identical, permuted, same size but different, different sizes)",
    "numpy `M[idx] += X` is modelled as accumulation; equal to numpy's buffered semantics because R lists have no "
    "repeated vectors (checked in the correspondence run)",
    "merge_Rvectors orders the merged list by Python set iteration; the theorems hold for every order, the "
    "correspondence feeds the code's order to the model",
    "cos/sin/exp of the angles are inputs of the model (c, s, e with c^2+s^2=1, |e|=1); Pythagorean triples make "
    "them rational, compared with the float code within 1e-13",
]
RULE = ("integer (complex-integer) matrices of size 1-5 with 1-9 R-vectors; up/down R-sets equal, nested, overlapping "
        "and disjoint; in the oracle: identical lists, the same set in another order, another set of the same size, "
        "different sizes; Pythagorean angles incl. 0 and pi; random float systems from the repository's generator at "
        "random k (oracle systems are generic: complex Hermitian hoppings with E(k) != E(-k), counted; nspin 1 and 2 "
        "alternate).  non-trivial = at least 2 Wannier functions per spin and at least 2 R-vectors (or a non-axis "
        "angle); distinct = distinct (operation, inputs)")

PYTH = [(3, 4, 5), (5, 12, 13), (8, 15, 17), (7, 24, 25), (20, 21, 29), (1, 0, 1), (0, 1, 1)]


def cint(rng, shape, lo=-3, hi=3):
    a = np.array([rng.randint(lo, hi) for _ in range(int(np.prod(shape)))], dtype=float).reshape(shape)
    b = np.array([rng.randint(lo, hi) for _ in range(int(np.prod(shape)))], dtype=float).reshape(shape)
    return a + 1j * b


def rows(M):
    """2-d real array -> ratss token"""
    return ratss([[Fr(int(round(x))) if float(x).is_integer() else Fr(float(x)) for x in r] for r in M])


def flat_rows(X):
    """(nR, n, n) real -> rows over R of the flattened matrix"""
    return rows(X.reshape(X.shape[0], -1)) if X.shape[0] else "_"


def rand_Rlist(rng, n, maxR=2, must=None):
    """n distinct integer vectors, containing (0,0,0)"""
    S = {(0, 0, 0)}
    if must:
        S.update(must)
    while len(S) < n:
        S.add((rng.randint(-maxR, maxR), rng.randint(-maxR, maxR), rng.randint(-maxR, maxR)))
    L = list(S)
    rng.shuffle(L)
    return L


def sym_Rlist(rng, n, maxR=2):
    """R list closed under R -> -R"""
    S = {(0, 0, 0)}
    while len(S) < n:
        v = (rng.randint(-maxR, maxR), rng.randint(-maxR, maxR), rng.randint(-maxR, maxR))
        S.add(v)
        S.add(tuple(-x for x in v))
    L = list(S)
    rng.shuffle(L)
    return L


def make_system(lattice, iRvec, centres_red, mats):
    """System_R with explicit R-vectors, centres (reduced) and matrices {key: array(nR, n, n, ...)}"""
    from wannierberri.system.system_R import System_R
    from wannierberri.fourier.rvectors import Rvectors
    s = System_R()
    n = len(centres_red)
    s.num_wann = n
    s.real_lattice = np.array(lattice, dtype=float)
    s.periodic = np.array([True, True, True])
    s.is_phonon = False
    s.wannier_centers_cart = np.array(centres_red, dtype=float).dot(s.real_lattice)
    s.rvec = Rvectors(lattice=s.real_lattice, iRvec=np.array(iRvec, dtype=int),
                      shifts_left_red=np.array(centres_red, dtype=float))
    for k, v in mats.items():
        s.set_R_mat(k, np.array(v, dtype=complex))
    s.set_pointgroup()
    return s


def herm_R(iR, X):
    """make X(-R) = X(R)^dagger for an R list closed under negation"""
    idx = {tuple(R): i for i, R in enumerate(iR)}
    Y = np.zeros_like(X)
    for R, i in idx.items():
        j = idx[tuple(-x for x in R)]
        Y[i] = 0.5 * (X[i] + np.conj(np.swapaxes(X[j], 0, 1)))
    return Y


def make_soc(up, dn, iR_soc=None, soc_mats=None, theta=0.0, phi=0.0, alpha=1.0):
    """SystemSOC from two System_R; soc_mats = dict(dV_soc_wann_0_0=..., ...) on iR_soc (None: no SOC)"""
    from wannierberri.system.system_soc import SystemSOC
    from wannierberri.fourier.rvectors import Rvectors
    s = SystemSOC(system_up=up, system_down=dn)
    s.set_pointgroup()
    if iR_soc is None:
        iR_soc = [(0, 0, 0)]
    s.rvec = Rvectors(lattice=s.real_lattice, shifts_left_red=s.wannier_centers_red, iRvec=np.array(iR_soc, dtype=int))
    if soc_mats is not None:
        for k, v in soc_mats.items():
            s.set_R_mat(k, np.array(v, dtype=complex))
        s.has_soc = True
        s.set_soc_axis(theta=theta, phi=phi, alpha_soc=alpha)
    return s


def data_k(system, k, NKFFT=1):
    from wannierberri.grid import Grid
    from wannierberri.data_K import get_data_k_class_from_system
    grid = Grid(system=system, NK=NKFFT, NKFFT=NKFFT)
    return get_data_k_class_from_system(system)(system, grid=grid, dK=np.array(k, dtype=float))


# --------------------------------------------------------------------------------------------
# correspondence: Lean model vs real code on exact inputs

def corr(ctx):
    from wannierberri.fourier.rvectors import Rvectors, merge_Rvectors
    from wannierberri.w90files.soc import SOC
    rng = ctx.rng
    lines, checks = [], []   # checks[i] = function(out_line) -> None or message

    def add(line, chk, sig, nontrivial=True):
        lines.append(line)
        checks.append((chk, sig, nontrivial))

    def expect_mat(A, what, tol=0.0):
        A = np.array(A)

        def chk(out):
            got = np.array([[float(x) for x in r] for r in parse_ratss(out)]) if out != "_" else np.zeros((0, 0))
            if got.shape != A.shape:
                return f"{what}: shape model {got.shape} code {A.shape}"
            d = np.abs(got - A).max() if A.size else 0.0
            if d > tol:
                return f"{what}: model and code differ by {d}"
        return chk

    eye = np.eye(3)
    # ---- 1. double_spin on integer matrices (Ham and a matrix with a trailing Cartesian index)
    for it in range(ctx.n(12, 80)):
        n = rng.randint(1, 5)
        iR = rand_Rlist(rng, rng.randint(1, 4))
        Ham = cint(rng, (len(iR), n, n))
        AA = cint(rng, (len(iR), n, n, 3))
        case = dict(n=n, iR=iR, Ham=Ham)
        with ctx.attempt("double_spin", case):
            with quiet():
                s = make_system(eye, iR, np.zeros((n, 3)), dict(Ham=Ham, AA=AA))
                s.double_spin()
            ctx.count(f"corr.double.n={n}")
            H2 = s.get_R_mat("Ham")
            A2 = s.get_R_mat("AA")
            for r in range(len(iR)):
                for part, nm in ((np.real, "re"), (np.imag, "im")):
                    add(f"double {n} {rows(part(Ham[r]))}", expect_mat(part(H2[r]), f"double_spin Ham {nm}"),
                        ("double", n, Ham[r].tobytes(), nm), n >= 2)
                c = rng.randint(0, 2)
                add(f"double {n} {rows(np.real(AA[r, :, :, c]))}", expect_mat(np.real(A2[r, :, :, c]), "double_spin AA"),
                    ("doubleAA", n, AA[r].tobytes(), c), n >= 2)
    # ---- 2. Data_K_soc.HH_K without SOC at k = 0 and k = (1/2,1/2,0)  (phases are exactly +-1)
    for it in range(ctx.n(8, 50)):
        n = rng.randint(1, 4)
        iRu = sym_Rlist(rng, rng.choice([1, 3, 5]))
        iRd = sym_Rlist(rng, rng.choice([1, 3, 5, 7]))
        Hu = herm_R(iRu, cint(rng, (len(iRu), n, n)) * 2)
        Hd = herm_R(iRd, cint(rng, (len(iRd), n, n)) * 2)
        nspin = rng.choice([1, 2, 2])
        case = dict(n=n, iRu=iRu, iRd=iRd, Hu=Hu, Hd=Hd, nspin=nspin)
        with ctx.attempt("Data_K_soc.HH_K (no SOC)", case):
            with quiet():
                up = make_system(eye, iRu, np.zeros((n, 3)), dict(Ham=Hu))
                dn = make_system(eye, iRd, np.zeros((n, 3)), dict(Ham=Hd)) if nspin == 2 else None
                soc = make_soc(up, dn)
            for k in ((0, 0, 0), (0.5, 0.5, 0)):
                with quiet():
                    H = data_k(soc, k).HH_K[0]
                sg = lambda R: (-1) ** int(round(2 * (k[0] * R[0] + k[1] * R[1] + k[2] * R[2])))  # noqa
                Uk = sum(sg(R) * Hu[i] for i, R in enumerate(iRu))
                Dk = sum(sg(R) * Hd[i] for i, R in enumerate(iRd)) if nspin == 2 else Uk
                ctx.count(f"corr.assemble.nspin={nspin}")
                for part, nm in ((np.real, "re"), (np.imag, "im")):
                    add(f"assemble {n} {rows(part(Uk))} {rows(part(Dk))}",
                        expect_mat(part(H), f"HH_K {nm} k={k}", tol=1e-10),
                        ("assemble", n, Uk.tobytes(), Dk.tobytes(), nm), n >= 2)
    # ---- 3. merge_Rvectors + get_system_R (integer matrices, three different R lists)
    for it in range(ctx.n(10, 60)):
        n = rng.randint(1, 3)
        kind = rng.choice(["equal", "nested", "overlap", "disjoint-ish", "random"])
        base = sym_Rlist(rng, rng.choice([3, 5, 7]))
        if kind == "equal":
            l0, l1, l2 = list(base), list(base), list(base)
            rng.shuffle(l1)
            rng.shuffle(l2)
        elif kind == "nested":
            l1 = list(base)
            l2 = sym_Rlist(rng, len(base) + 4)
            l2 = list({*l2, *base})
            l0 = [(0, 0, 0)]
        elif kind == "overlap":
            l0, l1, l2 = sym_Rlist(rng, 3), sym_Rlist(rng, 5), sym_Rlist(rng, 7)
        elif kind == "disjoint-ish":
            l0 = [(0, 0, 0)]
            l1 = [(0, 0, 0), (1, 0, 0), (-1, 0, 0)]
            l2 = [(0, 0, 0), (0, 2, 1), (0, -2, -1), (3, 3, 3), (-3, -3, -3)]
        else:
            l0, l1, l2 = (sym_Rlist(rng, rng.choice([1, 3, 5]), maxR=1) for _ in range(3))
        ctx.count(f"corr.sysR.{kind}")
        Hu = herm_R(l1, cint(rng, (len(l1), n, n)) * 2)
        Hd = herm_R(l2, cint(rng, (len(l2), n, n)) * 2)
        d00 = herm_R(l0, cint(rng, (len(l0), n, n, 3)) * 2)
        d11 = herm_R(l0, cint(rng, (len(l0), n, n, 3)) * 2)
        d01 = cint(rng, (len(l0), n, n, 3))
        ov = cint(rng, (len(l0), n, n))
        AAu = cint(rng, (len(l1), n, n, 3))
        AAd = cint(rng, (len(l2), n, n, 3))
        alpha = Fr(rng.randint(-8, 8), 4)
        nspin = rng.choice([1, 2])
        if nspin == 1:
            # non-magnetic case (system_down=None): the down channel IS the up channel (no conjugation), and the SOC
            # blocks are all built from dV_soc_wann_0_0
            l2, Hd, AAd = l1, Hu, AAu
            d11 = d00
            d01 = d00
        ctx.count(f"corr.sysR.nspin={nspin}")
        case = dict(n=n, nspin=nspin, l0=l0, l1=l1, l2=l2, Hu=Hu, Hd=Hd, d00=d00, d11=d11, d01=d01, alpha=float(alpha))
        with ctx.attempt("get_system_R", case):
            with quiet():
                up = make_system(eye, l1, np.zeros((n, 3)), dict(Ham=Hu, AA=AAu))
                dn = make_system(eye, l2, np.zeros((n, 3)), dict(Ham=Hd, AA=AAd)) if nspin == 2 else None
                soc = make_soc(up, dn, l0, dict(dV_soc_wann_0_0=d00, dV_soc_wann_1_1=d11, dV_soc_wann_0_1=d01,
                                                overlap_up_down=ov), theta=0.0, phi=0.0, alpha=float(alpha))
                sR = soc.get_system_R()
                merged_rv, maps = merge_Rvectors([soc.rvec, up.rvec, (dn if dn is not None else up).rvec])
            Hsoc = soc.get_R_mat("Ham_SOC")
            # (a) the SOC Hamiltonian blocks at theta = phi = 0 (Pauli matrices exact): model vs code, every R
            idx0 = {tuple(R): i for i, R in enumerate(l0)}
            for r, R in enumerate(l0):
                d01c = np.conj(np.swapaxes(d01[idx0[tuple(-x for x in R)]], 0, 1))
                toks = []
                for D in (d00[r], d11[r], d01[r], d01c):
                    toks += [rows(np.real(D).reshape(n, 3 * n)), rows(np.imag(D).reshape(n, 3 * n))]
                line = f"socham {n} {rat(alpha)} 1 0 1 0 " + " ".join(toks)

                def chk(out, want=Hsoc[r]):
                    a, b = out.split(" ")
                    return expect_mat(np.real(want), "Ham_SOC re")(a) or expect_mat(np.imag(want), "Ham_SOC im")(b)
                add(line, chk, ("socham", n, r, d00[r].tobytes(), d01[r].tobytes(), alpha), True)
            # (b) merge: same set, consistent maps (order is Python's set order: canonicalise)
            mg = [tuple(int(x) for x in R) for R in sR.rvec.iRvec]
            if len(set(mg)) != len(mg) or any(len(set(l)) != len(l) for l in (l0, l1, l2)):
                ctx.mismatch("R list with repeated vectors", case)

            def chk_merge(out, mg=mg, l0=l0, l1=l1, l2=l2, maps=maps, merged_rv=merged_rv):
                m, m0, m1, m2 = out.split(" ")
                mm = [tuple(v) for v in parse_intss(m)]
                if sorted(mm) != sorted(mg):
                    return f"merged R set: model {sorted(mm)} code {sorted(mg)}"
                code_m = [tuple(int(x) for x in R) for R in merged_rv.iRvec]
                for l, mo, mc in zip((l0, l1, l2), (m0, m1, m2), maps):
                    if [mm[i] for i in parse_ints(mo)] != [tuple(v) for v in l]:
                        return "model map does not point to the vector"
                    if [code_m[i] for i in mc] != [tuple(v) for v in l]:
                        return "code map does not point to the vector"
            add(f"merge {intss(l0)} {intss(l1)} {intss(l2)}", chk_merge, ("merge", tuple(l0), tuple(l1), tuple(l2)),
                kind != "equal")
            # (c) the Ham and AA matrices of get_system_R, in the code's merged order
            HR = sR.get_R_mat("Ham")
            for part, nm in ((np.real, "re"), (np.imag, "im")):
                add(f"sysr {n} {intss(mg)} {intss(l0)} {intss(l1)} {intss(l2)} {flat_rows(part(Hsoc))} "
                    f"{flat_rows(part(Hu))} {flat_rows(part(Hd))}",
                    expect_mat(part(HR).reshape(len(mg), -1), f"get_system_R Ham {nm} ({kind})"),
                    ("sysr", n, tuple(mg), Hu.tobytes(), Hd.tobytes(), Hsoc.tobytes(), nm), True)
            c = rng.randint(0, 2)
            AR = sR.get_R_mat("AA")[..., c]
            add(f"sysrx {n} {intss(mg)} {intss(l1)} {intss(l2)} {flat_rows(np.real(AAu[..., c]))} "
                f"{flat_rows(np.real(AAd[..., c]))}",
                expect_mat(np.real(AR).reshape(len(mg), -1), f"get_system_R AA ({kind})"),
                ("sysrx", n, tuple(mg), AAu.tobytes(), AAd.tobytes(), c), True)
    # ---- 4. rotated Pauli matrices on Pythagorean angles
    for it in range(ctx.n(40, 300)):
        a, b, h = rng.choice(PYTH)
        if rng.random() < 0.5:
            a, b = b, a
        c, s = Fr(a, h) * rng.choice([1, -1]), Fr(b, h) * rng.choice([1, -1])
        a, b, h = rng.choice(PYTH)
        er, ei = Fr(a, h) * rng.choice([1, -1]), Fr(b, h) * rng.choice([1, -1])
        theta = 2 * math.atan2(s, c)
        phi = -2 * math.atan2(ei, er)
        case = dict(c=float(c), s=float(s), e=complex(er, ei), theta=theta, phi=phi)
        with ctx.attempt("get_pauli_rotated", case):
            P = SOC.get_pauli_rotated(theta=theta, phi=phi)   # [i, j, comp]
            nax = np.array([math.sin(theta) * math.cos(phi), math.sin(theta) * math.sin(phi), math.cos(theta)])
            ctx.count("corr.pauli.axis" if 0 in (c, s) else "corr.pauli.tilted")

            def chk(out, P=P, nax=nax):
                pm, ax = out.split(" ")
                vals = [complex(float(Fr(t.split(",")[0])), float(Fr(t.split(",")[1]))) for t in pm.split(";")]
                M = np.array(vals).reshape(3, 2, 2)   # comp, i, j
                d = np.abs(M - P.transpose(2, 0, 1)).max()
                if d > 1e-13:
                    return f"rotated Pauli matrices: model and code differ by {d}"
                av = [complex(float(Fr(t.split(",")[0])), float(Fr(t.split(",")[1]))) for t in ax.split(";")]
                d = np.abs(np.array(av) - nax).max()
                if d > 1e-13:
                    return f"axis of the model differs from (sin t cos p, sin t sin p, cos t) by {d}"
            add(f"pauli {rat(c)} {rat(s)} {rat(er)} {rat(ei)}", chk, ("pauli", c, s, er, ei), 0 not in (c, s))
    out = ctx.lean(lines)
    for l, o, (chk, sig, nt) in zip(lines, out, checks):
        ctx.case(signature=sig, nontrivial=nt)
        if o == "bad-op":
            ctx.mismatch("model rejected the line", dict(line=l[:500]))
            continue
        msg = chk(o)
        if msg:
            ctx.mismatch(msg, dict(line=l[:2000], model=o[:2000]))
    if lines:
        ctx.sample(dict(protocol_line=lines[0][:300], model=out[0][:300]))
        ctx.sample(dict(protocol_line=lines[-1][:300], model=out[-1][:300]))


# --------------------------------------------------------------------------------------------
# property-level oracle on the real code (independent of the Lean model)

def hk_plain(system, k, key="Ham"):
    """reference written from the property statement: H(k) = sum_R exp(2 pi i k.R) H(R).  The Wannier-centre
    phases are a diagonal unitary, so the SPECTRUM does not depend on that convention."""
    X = system.get_R_mat(key)
    ph = np.exp(2j * np.pi * system.rvec.iRvec.dot(np.array(k, dtype=float)))
    return np.tensordot(ph, X, axes=(0, 0))


def spectrum(H):
    return np.linalg.eigvalsh(0.5 * (H + H.conj().T))


def energies(system, k):
    from ..wbsys import wb
    with quiet():
        return np.array(wb.evaluate_k(system, k=np.array(k, dtype=float), quantities=["energy"]))


def rand_k(rs):
    if rs.rand() < 0.2:
        return rs.choice([0.0, 0.5, 0.25, 1.0 / 3], 3)
    return rs.uniform(-1, 1, 3)


def oracle(ctx, scale):
    rs = np.random.RandomState(ctx.rng.getrandbits(31))
    oracle_double(ctx, scale, rs)
    oracle_soc(ctx, scale, rs)
    oracle_pauli(ctx, scale, rs)


def oracle_double(ctx, scale, rs):
    from ..wbsys import rand_system, wb
    for it in range(ctx.n(6, 40) * scale):
        nw = int(rs.randint(1, 6))
        nR = int(rs.randint(1, 9))
        mats = ("Ham", "AA") if rs.rand() < 0.7 else ("Ham",)
        seed = int(rs.randint(0, 2**31 - 1))
        with quiet():
            s0 = rand_system(np.random.RandomState(seed), num_wann=nw, nR=nR, max_R=int(rs.randint(1, 4)), matrices=mats)
            # the system to be doubled: an independent copy of s0
            s2 = make_system(s0.real_lattice, s0.rvec.iRvec, s0.wannier_centers_red,
                             {k: s0.get_R_mat(k).copy() for k in s0._XX_R})
        ctx.count(f"oracle.double.nw={nw}")
        for ik in range(3):
            k = rand_k(rs)
            case = dict(what="double_spin", seed=seed, num_wann=nw, nR=nR, matrices=mats, k=k)
            with ctx.attempt("double_spin", case):
                if ik == 0:
                    with quiet():
                        s2.double_spin()
                E0 = energies(s0, k)
                E2 = energies(s2, k)
                Eref = spectrum(hk_plain(s0, k))
                scl = 1 + np.abs(Eref).max()
                ctx.case(signature=("double", seed, tuple(np.round(k, 9))), nontrivial=nw >= 2 and s0.rvec.nRvec >= 2)
                if E2.shape != (2 * nw,):
                    ctx.fail(f"doubled system has {E2.shape} bands, expected {2 * nw}", case)
                    continue
                want = np.sort(np.concatenate([Eref, Eref]))
                d = np.abs(np.sort(E2) - want).max()
                if d > 1e-10 * scl or np.abs(np.sort(E0) - Eref).max() > 1e-10 * scl:
                    ctx.fail(f"double_spin: bands are not 'every original band exactly twice' (max diff {d:.3e})",
                             dict(case, E_doubled=E2, E_original=E0))
                # the k-space Hamiltonian itself: interlaced blocks, zero between the spins
                with quiet():
                    H2 = data_k(s2, k).HH_K[0]
                    H0 = data_k(s0, k).HH_K[0]
                d = max(np.abs(H2[0::2, 0::2] - H0).max(), np.abs(H2[1::2, 1::2] - H0).max(),
                        np.abs(H2[0::2, 1::2]).max(), np.abs(H2[1::2, 0::2]).max())
                if d > 1e-10 * scl:
                    ctx.fail(f"double_spin: H(k) of the doubled system is not H(+)H in the interlaced order ({d:.3e})", case)
                # spin: s_z = +1 on even, -1 on odd Wannier functions; total spin of each doubled pair vanishes
                with quiet():
                    S = np.array(wb.evaluate_k(s2, k=np.array(k), quantities=["spin"]))
                order = np.argsort(E2, kind="stable")
                pairs = S[order].reshape(nw, 2, 3).sum(axis=1)
                isolated = nw == 1 or np.min(np.diff(np.sort(Eref))) > 1e-6
                if isolated and np.abs(pairs).max() > 1e-8:
                    ctx.fail(f"double_spin: a doubled band pair is not spin-compensated (sum {np.abs(pairs).max():.3e})", case)
                if "AA" in mats and nw >= 2 and np.min(np.diff(np.sort(Eref))) > 1e-3:
                    with quiet():
                        O2 = np.array(wb.evaluate_k(s2, k=np.array(k), quantities=["berry_curvature"]))
                        O0 = np.array(wb.evaluate_k(s0, k=np.array(k), quantities=["berry_curvature"]))
                    o2 = O2[np.argsort(E2, kind="stable")].reshape(nw, 2, 3).sum(axis=1)
                    o0 = 2 * O0[np.argsort(E0, kind="stable")]
                    gap = np.min(np.diff(np.sort(Eref)))
                    tol = 1e-8 * (1 + np.abs(o0).max()) / min(1.0, gap) ** 2
                    if np.abs(o2 - o0).max() > tol:
                        ctx.fail(f"double_spin: Berry curvature of a doubled pair is not twice the original "
                                 f"({np.abs(o2 - o0).max():.3e} > {tol:.1e})", case)


def rand_soc_setup(rs, with_soc, nspin=None, same_R=None):
    """random up/down systems (float) + optional random Hermitian SOC data; returns (soc, up, dn, info)"""
    from ..wbsys import rand_system, rand_lattice
    nw = int(rs.randint(1, 5)) if rs.rand() < 0.3 else int(rs.randint(2, 5))
    nspin = nspin or int(rs.choice([1, 2]))
    L = rand_lattice(rs)
    same_R = (rs.rand() < 0.3) if same_R is None else same_R
    with quiet():
        # generic spin-up system: complex Hermitian hoppings without inversion / time-reversal symmetry, E(k) != E(-k)
        for attempt in range(4):
            up = rand_system(rs, num_wann=nw, nR=int(rs.randint(1, 8)) if attempt == 0 and rs.rand() < 0.3 else int(rs.randint(4, 9)),
                             max_R=int(rs.randint(1, 3)), lattice=L, matrices=("Ham", "AA"))
            kt = np.array([0.137, 0.291, -0.173])
            asym = float(np.abs(spectrum(hk_plain(up, kt)) - spectrum(hk_plain(up, -kt))).max())
            if asym > 1e-3 or attempt == 0 and rs.rand() < 0.15:
                break
        rrel = "n/a"
        if nspin == 2:
            # relation between the spin-up and spin-down R-vector lists: identical / the same set in another order /
            # another set of the same size / different sizes
            rrel = "identical" if same_R else str(rs.choice(["permuted", "same-size", "different", "different"]))
            up_list = [tuple(int(x) for x in R) for R in up.rvec.iRvec]
            if rrel == "different":
                dn = rand_system(rs, num_wann=nw, nR=int(rs.randint(1, 11)), max_R=int(rs.randint(1, 4)), lattice=L,
                                 matrices=("Ham", "AA"))
            else:
                if rrel == "identical":
                    dn_list = list(up_list)
                elif rrel == "permuted":
                    dn_list = [up_list[i] for i in rs.permutation(len(up_list))]
                    if dn_list == up_list and len(up_list) > 1:
                        dn_list = dn_list[1:] + dn_list[:1]
                else:
                    dn_list = up_list
                    for _ in range(20):
                        if set(dn_list) != set(up_list) or len(up_list) < 3:
                            break
                        dn_list = sym_Rlist(ctx_rng_from(rs), len(up_list), maxR=3)
                    if len(dn_list) != len(up_list):
                        rrel = "different"
                seed = int(rs.randint(0, 2**31 - 1))
                dn = make_system(L, dn_list, rs.uniform(0, 1, (nw, 3)) if rs.rand() < 0.5 else up.wannier_centers_red,
                                 {k: herm_R(dn_list, np.random.RandomState(seed).normal(size=(len(dn_list),) + v.shape[1:]) + 1j *
                                            np.random.RandomState(seed + 1).normal(size=(len(dn_list),) + v.shape[1:]))
                                  for k, v in up._XX_R.items()})
        else:
            dn = None
    info = dict(num_wann=nw, nspin=nspin, same_R=bool(same_R), R_lists=rrel, up_is_generic=bool(asym > 1e-3), nR_up=up.rvec.nRvec,
                nR_down=(dn.rvec.nRvec if dn is not None else None))
    socmats, iR_soc, theta, phi, alpha = None, None, 0.0, 0.0, 1.0
    if with_soc:
        iR_soc = sym_Rlist(ctx_rng_from(rs), int(rs.choice([1, 3, 5, 7])), maxR=int(rs.randint(1, 4)))
        nR = len(iR_soc)

        def rnd(*shape):
            return rs.normal(size=shape) + 1j * rs.normal(size=shape)
        socmats = dict(dV_soc_wann_0_0=herm_R(iR_soc, rnd(nR, nw, nw, 3)))
        if nspin == 2:
            socmats.update(dV_soc_wann_1_1=herm_R(iR_soc, rnd(nR, nw, nw, 3)), dV_soc_wann_0_1=rnd(nR, nw, nw, 3),
                           overlap_up_down=rnd(nR, nw, nw))
        theta = float(rs.choice([0.0, np.pi, np.pi / 2, rs.uniform(0, np.pi)]))
        phi = float(rs.choice([0.0, rs.uniform(-np.pi, 2 * np.pi)]))
        alpha = float(rs.choice([1.0, 0.0, rs.uniform(-2, 2)]))
        info.update(nR_soc=nR, theta=theta, phi=phi, alpha_soc=alpha)
    with quiet():
        soc = make_soc(up, dn, iR_soc, socmats, theta=theta, phi=phi, alpha=alpha)
    return soc, up, (dn if dn is not None else up), info


def ctx_rng_from(rs):
    import random
    return random.Random(int(rs.randint(0, 2**31 - 1)))


def oracle_soc(ctx, scale, rs):
    from ..wbsys import wb
    # ---- (a) SOC system WITHOUT spin-orbit coupling: spectrum = union of up and down spectra
    for it in range(ctx.n(8, 50) * scale):
        state = rs.get_state()
        case0 = dict(what="SystemSOC without SOC", rs_state_hash=hash(state[1].tobytes()) % 10**9)
        with ctx.attempt("SystemSOC without SOC", case0):
            soc, up, dn, info = rand_soc_setup(rs, with_soc=False, nspin=1 + it % 2)
            ctx.count(f"oracle.nosoc.nspin={info['nspin']}.Rlists={info['R_lists']}.E(k)!=E(-k):{info['up_is_generic']}")
            for ik in range(2):
                k = rand_k(rs)
                case = dict(case0, **info, k=k, Ham_up=up.get_R_mat("Ham"), iR_up=up.rvec.iRvec,
                            Ham_down=dn.get_R_mat("Ham"), iR_down=dn.rvec.iRvec)
                E = energies(soc, k)
                Eu, Ed = spectrum(hk_plain(up, k)), spectrum(hk_plain(dn, k))
                want = np.sort(np.concatenate([Eu, Ed]))
                scl = 1 + np.abs(want).max()
                ctx.case(signature=("nosoc", case0["rs_state_hash"], ik), nontrivial=info["num_wann"] >= 2)
                if E.shape != want.shape or np.abs(np.sort(E) - want).max() > 1e-10 * scl:
                    ctx.fail("SystemSOC without SOC: spectrum is not the union of the spin-up and spin-down spectra "
                             f"(max diff {np.abs(np.sort(E) - want).max() if E.shape == want.shape else 'shape'})",
                             dict(case, E=E, E_up=Eu, E_down=Ed))
                with quiet():
                    H = data_k(soc, k).HH_K[0]
                    Hu = data_k(up, k).HH_K[0]
                    Hd = data_k(dn, k).HH_K[0]
                d = max(np.abs(H[0::2, 0::2] - Hu).max(), np.abs(H[1::2, 1::2] - Hd).max(),
                        np.abs(H[0::2, 1::2]).max(), np.abs(H[1::2, 0::2]).max())
                if d > 1e-10 * scl:
                    ctx.fail(f"Data_K_soc.HH_K without SOC is not up(+)down in the interlaced order ({d:.3e})", case)
    # ---- (b) with SOC: the plain System_R from get_system_R has the same H(k), spectrum, spin and AA
    for it in range(ctx.n(8, 50) * scale):
        state = rs.get_state()
        case0 = dict(what="SystemSOC.get_system_R", rs_state_hash=hash(state[1].tobytes()) % 10**9)
        with ctx.attempt("SystemSOC.get_system_R", case0):
            soc, up, dn, info = rand_soc_setup(rs, with_soc=True, nspin=1 + it % 2)
            ctx.count(f"oracle.soc.nspin={info['nspin']}.Rlists={info['R_lists']}.E(k)!=E(-k):{info['up_is_generic']}")
            with quiet():
                sR = soc.get_system_R()
            # real-space Hermiticity of what set_soc_axis assembled: X(-R) = X(R)^dagger
            iRs = [tuple(int(x) for x in R) for R in soc.rvec.iRvec]
            for key in ("Ham_SOC", "SS"):
                X = soc.get_R_mat(key)
                Xh = herm_R(iRs, X)
                if np.abs(X - Xh).max() > 1e-12 * (1 + np.abs(X).max()):
                    ctx.fail(f"set_soc_axis: {key}(-R) != {key}(R)^dagger ({np.abs(X - Xh).max():.3e})", dict(case0, **info))
            for ik in range(2):
                k = rand_k(rs)
                nkfft = (1, 1, 1) if ik == 0 else tuple(int(x) for x in rs.randint(1, 4, 3))
                case = dict(case0, **info, k=k, NKFFT=nkfft)
                with quiet():
                    dk1 = data_k(soc, k / np.array(nkfft), NKFFT=nkfft)
                    dk2 = data_k(sR, k / np.array(nkfft), NKFFT=nkfft)
                    H1, H2 = dk1.HH_K, dk2.HH_K
                scl = 1 + np.abs(H1).max()
                ctx.case(signature=("soc", case0["rs_state_hash"], ik), nontrivial=info["num_wann"] >= 2)
                if H1.shape != H2.shape or np.abs(H1 - H2).max() > 1e-10 * scl:
                    ctx.fail("get_system_R: H(k) of the derived System_R differs from the SOC system's H(k) "
                             f"({np.abs(H1 - H2).max() if H1.shape == H2.shape else 'shape'})", case)
                    continue
                # independent reference for the first k of the FFT grid (= dK): blocks + SOC part by plain Fourier sums
                k0 = k / np.array(nkfft)
                Href = np.zeros_like(H1[0])
                Href[0::2, 0::2] = hk_plain(up, k0)
                Href[1::2, 1::2] = hk_plain(dn, k0)
                Href += hk_plain(soc, k0, "Ham_SOC")
                if np.abs(spectrum(H1[0]) - spectrum(Href)).max() > 1e-10 * scl:
                    ctx.fail("SOC system: spectrum differs from the direct Fourier sum of up, down and SOC parts", case)
                if np.abs(H1 - np.conj(np.swapaxes(H1, 1, 2))).max() > 1e-10 * scl:
                    ctx.fail("SOC system: H(k) is not Hermitian", case)
                if ik == 0:
                    E1, E2 = energies(soc, k), energies(sR, k)
                    if np.abs(E1 - E2).max() > 1e-10 * scl:
                        ctx.fail(f"get_system_R: energies differ ({np.abs(E1 - E2).max():.3e})", case)
                    for name, der in (("SS", 0), ("AA", 0), ("Ham", 1)):
                        with quiet():
                            X1 = data_k(soc, k).Xbar(name, der)
                            X2 = data_k(sR, k).Xbar(name, der)
                        # Xbar is in the eigenvector gauge: compare gauge-invariant content (rotate back is not
                        # available) -> compare through the Wannier-gauge R->k transform instead
                        with quiet():
                            d1, d2 = data_k(soc, k), data_k(sR, k)
                            if name == "SS":
                                W1 = d1.rvec.R_to_k(d1.get_R_mat("SS").copy(), der=der, hermitian=True)
                                W2 = d2.rvec.R_to_k(d2.get_R_mat("SS").copy(), der=der, hermitian=True)
                            elif name == "AA":
                                W2 = d2.rvec.R_to_k(d2.get_R_mat("AA").copy(), der=der, hermitian=True)
                                W1 = np.zeros_like(W2)
                                W1[:, 0::2, 0::2] = d1.data_K_up.rvec.R_to_k(d1.data_K_up.get_R_mat("AA").copy(), hermitian=True)
                                W1[:, 1::2, 1::2] = d1.data_K_down.rvec.R_to_k(d1.data_K_down.get_R_mat("AA").copy(), hermitian=True)
                            else:
                                W1 = W2 = None
                        if W1 is not None and np.abs(W1 - W2).max() > 1e-10 * (1 + np.abs(W1).max()):
                            ctx.fail(f"get_system_R: Wannier-gauge {name}(k) differs ({np.abs(W1 - W2).max():.3e})", case)
                        if X1.shape != X2.shape:
                            ctx.fail(f"get_system_R: Xbar({name},{der}) shapes differ", case)
                            continue
                        # degenerate-free comparison: moduli of matrix elements are gauge invariant for non-degenerate bands
                        gap = np.min(np.diff(np.sort(E1))) if len(E1) > 1 else 1.0
                        if gap > 1e-4:
                            dd = np.abs(np.abs(X1) - np.abs(X2)).max()
                            if dd > 1e-7 * (1 + np.abs(X1).max()) / gap:
                                ctx.fail(f"get_system_R: |Xbar({name},{der})| differs ({dd:.3e})", case)
            # scaling factor: H(alpha) is affine in alpha_soc
            k = rand_k(rs)
            with quiet():
                Hs = []
                for al in (0.0, 1.0, -0.75):
                    soc.set_soc_axis(theta=info["theta"], phi=info["phi"], alpha_soc=al)
                    Hs.append(data_k(soc, k).HH_K[0])
            d = np.abs((Hs[2] - Hs[0]) - (-0.75) * (Hs[1] - Hs[0])).max()
            Hno = np.zeros_like(Hs[0])
            with quiet():
                Hno[0::2, 0::2] = data_k(up, k).HH_K[0]
                Hno[1::2, 1::2] = data_k(dn, k).HH_K[0]
            if d > 1e-10 * (1 + np.abs(Hs[1]).max()) or np.abs(Hs[0] - Hno).max() > 1e-10 * (1 + np.abs(Hno).max()):
                ctx.fail("alpha_soc: H(k) is not H_noSOC + alpha_soc * H_SOC", dict(case0, **info, k=k))
            # alpha_soc = 0: the derived System_R must have exactly the union of the up and down spectra (nspin = 1: every
            # spin-up band twice) at a generic k, and H(k) = up (+) down entrywise
            with quiet():
                soc.set_soc_axis(theta=info["theta"], phi=info["phi"], alpha_soc=0.0)
                sR0 = soc.get_system_R()
            for _ in range(2):
                k = rs.uniform(-0.5, 0.5, 3)
                E0 = energies(sR0, k)
                want = np.sort(np.concatenate([spectrum(hk_plain(up, k)), spectrum(hk_plain(dn, k))]))
                with quiet():
                    H0 = data_k(sR0, k).HH_K[0]
                    Hu, Hd = data_k(up, k).HH_K[0], data_k(dn, k).HH_K[0]
                d = max(np.abs(H0[0::2, 0::2] - Hu).max(), np.abs(H0[1::2, 1::2] - Hd).max(),
                        np.abs(H0[0::2, 1::2]).max(), np.abs(H0[1::2, 0::2]).max())
                sc = 1 + np.abs(want).max()
                if E0.shape != want.shape or np.abs(np.sort(E0) - want).max() > 1e-10 * sc or d > 1e-10 * sc:
                    ctx.fail("get_system_R at alpha_soc=0: bands are not the union of the spin-up and spin-down bands "
                             f"(nspin=1: each spin-up band twice); band diff {np.abs(np.sort(E0) - want).max() if E0.shape == want.shape else 'shape'}, "
                             f"H(k) block diff {d:.3e}", dict(case0, **info, k=k))
            # spin operator of an nspin=1 SOC system: component along the axis has eigenvalues +-1 at R=0 blocks
            if info["nspin"] == 1:
                th, ph = info["theta"], info["phi"]
                nax = np.array([np.sin(th) * np.cos(ph), np.sin(th) * np.sin(ph), np.cos(th)])
                SS0 = soc.get_R_mat("SS")[soc.rvec.iR0]
                Sn = SS0.dot(nax)
                want = np.diag([1.0, -1.0] * info["num_wann"])
                if np.abs(Sn - want).max() > 1e-12:
                    ctx.fail(f"set_soc_axis: spin along the axis at R=0 is not diag(+1,-1,...) ({np.abs(Sn - want).max():.3e})",
                             dict(case0, **info))


def pauli_violations(P, theta, phi, tol=2e-14):
    """P[i, j, c]; returns list of messages"""
    out = []
    sig = [P[:, :, c] for c in range(3)]
    eps = np.zeros((3, 3, 3))
    eps[0, 1, 2] = eps[1, 2, 0] = eps[2, 0, 1] = 1
    eps[0, 2, 1] = eps[2, 1, 0] = eps[1, 0, 2] = -1
    for a in range(3):
        if np.abs(sig[a] - sig[a].conj().T).max() > tol:
            out.append(f"sigma'_{a} is not Hermitian")
        if abs(np.trace(sig[a])) > tol:
            out.append(f"sigma'_{a} is not traceless")
        for b in range(3):
            want = (a == b) * np.eye(2) + 1j * sum(eps[a, b, c] * sig[c] for c in range(3))
            d = np.abs(sig[a] @ sig[b] - want).max()
            if d > tol:
                out.append(f"sigma'_{a} sigma'_{b} != delta + i eps sigma' (diff {d:.2e})")
    nax = np.array([np.sin(theta) * np.cos(phi), np.sin(theta) * np.sin(phi), np.cos(theta)])
    Sn = sum(nax[c] * sig[c] for c in range(3))
    d = np.abs(Sn - np.diag([1.0, -1.0])).max()
    if d > tol:
        out.append(f"spin component along the axis is not diag(+1,-1) (diff {d:.2e})")
    return out


def oracle_pauli(ctx, scale, rs):
    from wannierberri.w90files.soc import SOC
    special = [0.0, np.pi, np.pi / 2, -np.pi / 2, 2 * np.pi, np.pi / 3, 1e-9, np.pi - 1e-9, 7.5 * np.pi]
    for it in range(ctx.n(300, 3000) * scale):
        theta = float(rs.choice(special)) if rs.rand() < 0.25 else float(rs.uniform(-2 * np.pi, 2 * np.pi))
        phi = float(rs.choice(special)) if rs.rand() < 0.25 else float(rs.uniform(-4 * np.pi, 4 * np.pi))
        case = dict(what="get_pauli_rotated", theta=theta, phi=phi)
        with ctx.attempt("get_pauli_rotated", case):
            P = SOC.get_pauli_rotated(theta=theta, phi=phi)
            C = SOC.get_C_ss(theta=theta, phi=phi)
            ctx.case(signature=("pauli", theta, phi), nontrivial=abs(np.sin(theta)) > 1e-6)
            msgs = pauli_violations(P, theta, phi)
            if np.abs(C.conj().T @ C - np.eye(2)).max() > 2e-15:
                msgs.append("C_ss is not unitary")
            if msgs:
                ctx.fail("get_pauli_rotated: " + "; ".join(msgs[:3]), dict(case, pauli_rotated=P))


def replay(ctx, case):
    """re-run the recorded failing cases that are self-contained (Pauli angles); otherwise re-run the oracle with
    the recorded seed (the check is deterministic in the seed)"""
    from wannierberri.w90files.soc import SOC
    done = False
    for fl in case.get("failures", []):
        c = fl.get("case", {})
        if c.get("what") == "get_pauli_rotated":
            P = SOC.get_pauli_rotated(theta=c["theta"], phi=c["phi"])
            msgs = pauli_violations(P, c["theta"], c["phi"])
            if msgs:
                ctx.fail("get_pauli_rotated: " + "; ".join(msgs[:3]), c)
            done = True
    if not done:
        oracle(ctx, 1)
