"""C10 - adaptive refinement keeps result_all = sum_i factor_i * result_i after every iteration, all storage modes."""
import contextlib
import os
from fractions import Fraction as Fr

import numpy as np

from ..common import quiet, rats, rat, parse_rats, F
from . import _rungrid as rg
from ._rungrid import wb

PID = "C10"
CLAIM = dict(
    design="3/C10",
    technique="Lean 4 proof by induction over arbitrary refinement histories on a State/Op/step model of run()'s "
              "bookkeeping (process -> update with factor differences -> divide/absorb/delete), exact differential "
              "correspondence (the divide/absorb events of the REAL run() are replayed through the model; factor "
              "vectors and result_all compared exactly after every iteration), property oracle on the real run() "
              "recomputing sum f_i r_i from the restart files after every iteration in all storage modes",
    text="Theorems (for every initial K-point list, every number of iterations, every choice of refined points, every "
         "number of children, every pattern of merging new points into old, dead or new points, for results kept in "
         "memory or dumped to disk, over any field): after every iteration no RuntimeError occurred, result_all equals "
         "the weighted sum of the per-K results over the current list, the recorded factors equal the current ones and "
         "every per-K result can be read back unchanged - for every update rule that drops only zero weight changes, "
         "in particular the repaired rule `fac != 0`; with discarded results iteration 0 satisfies the same equation "
         "(and a refinement iteration would raise, which run() prevents); the original rule `abs(fac) > 1e-8` provably "
         "leaves result_all off by 1e-8*r once a point of weight 1e-8 is refined (adpt_mesh=[1,1,100], 5 refinements). "
         "An iteration in which nothing is evaluated (all new children absorbed by evaluated points) still needs the "
         "update (corollary), and the rule `skip the update when nothing was evaluated` provably keeps a stale result. "
         "Storage names: for every history of iterations, deletions of new points and restarts, every K-point is stored "
         "under the name equal to its position, distinct K-points never share a file and every file read back holds its "
         "own point's result; the rules `name before deletion` and `name from a per-call counter` provably collide.",
    note="Trusted: Lean kernel + Mathlib; the harness (event tracing by wrapping divide/absorb/exclude_equiv_points "
         "in the harness process, no source change). The model is per result component; linearity of Result.__mul__/"
         "__add__, pickling of per-K results, symmetrisation and the selection of points (K.max) are exercised on the "
         "real code only. Float rounding: exact comparison on dyadic weights x integer results, 1e-12 otherwise.",
)
TRUSTED = [
    "modelled: run() iteration loop (process, result_all update with factors_diff_dict, write of `factors`), "
    "process.set_result in the three storage modes, KpointBZ.get_result/set_result/dump_result/clear_result/"
    "get_result_factor, KpointBZparallel.divide (parent factor -> 0, children factor/prod(ndiv)), absorb (factor added), "
    "deletion of absorbed new points by exclude_equiv_points",
    "storage names modelled separately (NState/NEvent: directory as map name -> content, name = position in K_list at the "
    "top of the loop body for the points behind nk_prev, dump/read back, run-level deletions, restarts); this justifies "
    "the per-K-point `file` field of the bookkeeping model.  The two models are tied to the code separately, not to each "
    "other by a refinement proof",
    "abstracted (arbitrary in the theorems): WHICH points are selected (K.max / argsort) and WHICH points are "
    "equivalent (star, distGamma, refinement_level) - the theorems hold for every choice; the geometry is C06's subject",
    "not modelled (oracle only): Result arithmetic of the real classes, symmetrize, savedata files, pickling of "
    "K_list / per-K results, the restart branch (C11)",
    "result components and weights live in one field K in the model; the code uses float64 - compared exactly when "
    "weights are dyadic and results integer-valued (HashCalc), within 1e-12*scale otherwise",
]
RULE = ("serial and PARALLEL (stub ray, adversarial out-of-order multi-report schedules) evaluation; toy systems (Haldane 2D without/with C3, cubic 3D without symmetry / C4+I / Oh) x NKdiv x adpt_mesh (scalar 2,3 "
        "and anisotropic incl. [1,1,100]) x adpt_fac x use_irred_kpt x symmetrize x storage (memory, allow_restart, "
        "dump_results, discarded) x calculators (chaotic integer-valued, sharply peaked, AHC); a case is non-trivial "
        "when at least one OLD K-point changed weight during the history (division, or absorption of a new point into "
        "an old/dead one); distinct = distinct (configuration, event history)")


# ------------------------------------------------------------------------------------------------
# tracing the real run(): divide / absorb / exclude_equiv_points events, per-iteration snapshots

class Trace:
    def __init__(self):
        self.iters = []          # per iteration: dict(ops=[...], factors=[...] after update, n=len(K_list))
        self.ops = []            # ops of the refinement phase in progress
        self.shadow = None       # objects in K_list order, updated event by event
        self.K_list = None
        self.in_divide = None
        self.children_all = None
        self.absorbs = []
        self.problems = []
        self.all_objects = {}    # id -> object (children that were merged away included)

    def idx(self, obj):
        for i, o in enumerate(self.shadow):
            if o is obj:
                return i
        self.problems.append("object not found in shadow list")
        return -1


@contextlib.contextmanager
def traced(tr):
    import wannierberri.grid.Kpoint as KPmod
    rgm = rg.run_grid
    orig = dict(ex_kp=KPmod.exclude_equiv_points, ex_rg=rgm.exclude_equiv_points, divide=KPmod.KpointBZparallel.divide,
                absorb=KPmod.KpointBZparallel.absorb, process=rgm.process)

    def absorb(self, other):
        if other is not None:
            tr.absorbs.append((self, other))
        return orig["absorb"](self, other)

    def exclude(K_list, new_points=None):
        if tr.in_divide is not None:
            tr.children_all = list(K_list)
            return orig["ex_kp"](K_list, new_points)
        # run-level call
        tr.absorbs = []
        res = orig["ex_kp"](K_list, new_points)
        for a, b in tr.absorbs:
            ia, ib = tr.idx(a), tr.idx(b)
            tr.ops.append(("m", ia, ib, "run-level"))
            del tr.shadow[ib]
        tr.absorbs = []
        return res

    def divide(self, ndiv, periodic, use_symmetry=True):
        tr.in_divide = self
        tr.children_all = None
        tr.absorbs = []
        i = tr.idx(self)
        fac_before = self.factor
        out = orig["divide"](self, ndiv, periodic, use_symmetry=use_symmetry)
        children = tr.children_all if tr.children_all is not None else list(out)
        tr.ops.append(("d", i, children, fac_before, int(np.prod(ndiv)), list(out)))
        tr.shadow.extend(children)
        for a, b in tr.absorbs:
            ia, ib = tr.idx(a), tr.idx(b)
            tr.ops.append(("m", ia, ib))
            del tr.shadow[ib]
        tr.absorbs = []
        tr.in_divide = None
        return out

    def process(paralfunc, K_list, **kw):
        if tr.shadow is not None and (len(tr.shadow) != len(K_list) or any(a is not b for a, b in zip(tr.shadow, K_list))):
            tr.problems.append("shadow list differs from K_list before process()")
        res = orig["process"](paralfunc, K_list, **kw)
        tr.K_list = K_list
        tr.shadow = list(K_list)
        if not tr.iters:
            tr.first_list = list(K_list)
        tr.iters.append(dict(ops=tr.ops, factors=[k.factor for k in K_list], n=len(K_list),
                             evaluated=[bool(k.was_evaluated_flag) for k in K_list]))
        tr.ops = []
        return res

    KPmod.exclude_equiv_points = exclude
    rgm.exclude_equiv_points = exclude
    KPmod.KpointBZparallel.divide = divide
    KPmod.KpointBZparallel.absorb = absorb
    rgm.process = process
    try:
        yield tr
    finally:
        KPmod.exclude_equiv_points = orig["ex_kp"]
        rgm.exclude_equiv_points = orig["ex_rg"]
        KPmod.KpointBZparallel.divide = orig["divide"]
        KPmod.KpointBZparallel.absorb = orig["absorb"]
        rgm.process = orig["process"]


# ------------------------------------------------------------------------------------------------
# configurations

MESHES_2D = [2, 2, 3, [2, 1, 1], [1, 2, 1], [2, 2, 1], [4, 2, 1], [3, 1, 1]]
MESHES_3D = [2, 2, 3, [1, 1, 2], [2, 1, 2], [1, 1, 4], [1, 2, 3]]


def rand_config(rng, dyadic=None, deep=False, real_calc=True):
    name = rng.choice(rg.SYSTEMS_2D + rg.SYSTEMS_3D)
    two_d = name.startswith("haldane")
    if dyadic is None:
        dyadic = rng.random() < 0.5
    if dyadic:
        div = rng.choice([1, 2, 4]) if two_d else rng.choice([1, 2, 2, 4])
        mesh = rng.choice([m for m in (MESHES_2D if two_d else MESHES_3D) if set(np.ravel(m)) <= {1, 2, 4}])
    else:
        div = rng.choice([1, 2, 3, 4, 5, 6]) if two_d else rng.choice([1, 2, 3])
        mesh = rng.choice(MESHES_2D if two_d else MESHES_3D)
    niter = rng.choice([1, 2, 3, 4, 5]) if not deep else rng.choice([6, 7])
    if deep:
        name = rng.choice(("cubic", "cubic_c4i", "cubic_oh"))
        two_d = False
        div = 1
        mesh = [1, 1, 100]
    cfg = dict(system=name, NKdiv=[div, div, 1] if two_d else [div] * 3, adpt_mesh=mesh, adpt_num_iter=niter,
               adpt_fac=rng.choice([1, 1, 2, 3, 5]) if not deep else 1,
               # deep: no symmetry reduction (the surviving representative of a merged pair may be the image that lies
               # far from the spike, which would stop the descent)
               use_irred_kpt=(rng.random() < 0.65) and not deep,
               symmetrize=rng.random() < 0.5, salt=rng.randint(0, 10 ** 6),
               peak=[rng.choice([0.0, 0.11, 0.3, 0.62]), rng.choice([0.0, 0.2, 0.45]), 0.0 if two_d else rng.choice([0.0, 0.3137])],
               width=rng.choice([0.02, 0.07, 0.3]) if not deep else 0.0004,
               calcs=rng.choice([("hash",), ("hash", "peak"), ("peak", "hash"), ("hash", "peak", "ahc") if real_calc else ("peak", "hash")])
               if not deep else ("spike",),
               dyadic=bool(dyadic) and not deep)
    return cfg


# Configurations in which refined children coincide with OLD, already evaluated K-points (hexagonal lattice with C3z
# and an odd refinement mesh; bcc lattice with the cubic group): an evaluated point with non-zero weight gains weight
# (absorb -> add_factor), with further iterations afterwards.  They always run first, random configurations after.
MERGE_HEAVY = [
    dict(system="haldane_c3", NKdiv=[2, 2, 1], adpt_mesh=3, calcs=("peak",), peak=[0.11, 0.2, 0.0], width=0.3),
    dict(system="haldane_c3", NKdiv=[3, 3, 1], adpt_mesh=3, calcs=("hash", "peak"), peak=[0.3, 0.45, 0.0], width=0.3),
    dict(system="bcc_oh", NKdiv=[3, 3, 3], adpt_mesh=2, calcs=("hash",), peak=[0.11, 0.2, 0.3137], width=0.3),
    dict(system="haldane_c3", NKdiv=[3, 3, 1], adpt_mesh=3, calcs=("peak",), peak=[0.3, 0.45, 0.0], width=0.3),
    dict(system="bcc_oh", NKdiv=[3, 3, 3], adpt_mesh=3, calcs=("peak",), peak=[0.11, 0.2, 0.3137], width=0.3),
]


def merge_heavy(i, niter=4):
    cfg = dict(adpt_num_iter=niter, adpt_fac=1, use_irred_kpt=True, symmetrize=True, salt=3, dyadic=False)
    cfg.update(MERGE_HEAVY[i % len(MERGE_HEAVY)])
    return cfg


def weight_events(facs, t):
    """(number of K-points added in iteration t, did weights of old points move, number of old points with non-zero
    weight that gained weight, number of zero-weight (dead / stale) old points that were revived)"""
    a, b = facs[t - 1], facs[t]
    n = min(len(a), len(b))
    return (len(b) - len(a), bool(np.any(b[:n] != a[:n])), int(np.sum((b[:n] > a[:n]) & (a[:n] != 0))),
            int(np.sum((b[:n] > a[:n]) & (a[:n] == 0))))


def make_calcs(cfg, save_mode="bin"):
    c = {}
    for k in cfg["calcs"]:
        if k == "hash":
            c[k] = rg.HashCalc(salt=cfg["salt"], nE=2, save_mode=save_mode)
        elif k == "peak":
            c[k] = rg.PeakCalc(cfg["peak"], cfg["width"], nE=2, save_mode=save_mode)
        elif k == "spike":
            c[k] = rg.SpikeCalc([0.0, 0.0, 0.3137], nE=2, save_mode=save_mode)
        elif k == "ahc":
            c[k] = wb.calculators.static.AHC(Efermi=np.linspace(-1, 1, 3), save_mode=save_mode)
    return c


def do_run(cfg, store, d, tag, trace=None, niter=None, extra=None, stub=None):
    """one real run(); store in memory|restart|dump|discard.  Returns (result, prefix, klist_path).
    stub: a StubRay -> the run is evaluated in PARALLEL mode, the stub answering ray.wait adversarially"""
    system = rg.toy_system(cfg["system"])
    pre = os.path.join(d, f"out_{tag}")
    kl = os.path.join(d, f"kl_{tag}")
    kw = dict(adpt_num_iter=cfg["adpt_num_iter"] if niter is None else niter, adpt_mesh=cfg["adpt_mesh"], adpt_fac=cfg["adpt_fac"],
              use_irred_kpt=cfg["use_irred_kpt"], symmetrize=cfg["symmetrize"], fout_name=pre, file_Klist_path=kl,
              parallel=False)
    if store in ("restart", "dump"):
        kw["allow_restart"] = True
    if store == "dump":
        kw["dump_results"] = True
    if store == "discard":
        kw["adpt_num_iter"] = 0
    if extra:
        kw.update(extra)
    if stub is not None:
        kw["parallel"] = True
    with quiet(), (rg.stub_ray(stub) if stub is not None else rg.no_ray()):
        nf = 2 if "ahc" in cfg["calcs"] else 1
        grid = wb.Grid(system, NKdiv=cfg["NKdiv"], NKFFT=[nf, nf, 1] if cfg["system"].startswith("haldane") else nf)
        if trace is not None:
            with traced(trace):
                res = wb.run(system, grid, make_calcs(cfg), **kw)
        else:
            res = wb.run(system, grid, make_calcs(cfg), **kw)
    return res, pre, kl


def comp(res_obj, key):
    """component 0 of calculator `key` of a ResultDict"""
    return float(np.ravel(res_obj.results[key].data)[0])


# ------------------------------------------------------------------------------------------------
# correspondence: replay the events of the real run through the model

def values_of(K, kl, key):
    """value (component 0 of calculator `key`) that paralfunc returned for every K-point object of the final list"""
    val = {}
    for ik, kp in enumerate(K):
        r = kp.result if kp.result is not None else rg.kp_result(kp, kl, ik)
        val[id(kp)] = comp(r, key)
    return val


def protocol_of_trace(tr, K, val):
    """(initial values, initial factors, per-iteration op strings, did an old point change weight?, problem)"""
    n0 = tr.iters[0]["n"]
    rs = [val[id(k)] for k in K[:n0]]
    fs = tr.iters[0]["factors"]      # factors at iteration 0 = initial factors (nothing changed yet)
    its = []
    changed_old = False
    bad = None
    for t in tr.iters[1:]:
        ops = []
        for op in t["ops"]:
            if op[0] == "d":
                ops.append(f"d:{op[1]}:{rats(val.get(id(c), 0.0) for c in op[2])}")
                if op[3] != 0:
                    changed_old = True
                if len(op[2]) != op[4]:
                    bad = f"divide created {len(op[2])} children, prod(ndiv)={op[4]}"
            else:
                ops.append(f"m:{op[1]}:{op[2]}")
        its.append(";".join(ops) if ops else "_")
    return rs, fs, its, changed_old, bad

def name_events(tr, cfg, key, skip_first=False):
    """events of the storage-name model for the iterations of one traced call: per iteration the values of the
    K-points appended by the divide() calls (iteration 0: the initial list) and the positions deleted at run level"""
    evs = []
    for j, t in enumerate(tr.iters):
        if j == 0:
            if skip_first:
                continue
            objs = tr.first_list
            dels = []
        else:
            objs = [c for op in t["ops"] if op[0] == "d" for c in op[5]]
            dels = [op[2] for op in t["ops"] if op[0] == "m" and len(op) == 4]
        evs.append(f"{rats(own_value(cfg, key, o)[0] for o in objs)}:{','.join(str(x) for x in dels) if dels else '_'}")
    return evs


def corr(ctx):
    rng = ctx.rng
    lines, checks = [], []
    nlines, nchecks = [], []
    d = rg.scratch("c10corr")
    N = ctx.n(18, 160)
    # plan: (configuration, deep?, restart spec or None).  restart = (iterations of the first call, restart_iteration,
    # iterations of the restarted call): the RESTARTED call is traced and replayed through the model, whose iteration
    # 0 (evaluate everything, result_all = sum f r) is exactly the re-summation of the restart branch
    plans = []
    for i in range(ctx.n(3, 5)):
        plans.append((merge_heavy(i), False, None))
    for i in range(ctx.n(3, 10)):
        cfg = merge_heavy(i + 1, niter=3) if i % 2 == 0 else rand_config(rng, dyadic=True, real_calc=False)
        n1 = cfg["adpt_num_iter"]
        k0 = rng.randint(0, max(0, n1 - 1))
        plans.append((cfg, False, (n1, rng.choice([k0, k0 - n1 - 1]), rng.randint(1, 3))))
    for it in range(N):
        deep = (it % 9 == 8)
        plans.append((rand_config(rng, dyadic=(it % 3 != 2), deep=deep, real_calc=ctx.tier == "thorough"), deep, None))
    for cfg, deep, restart in plans:
        store = rng.choice(["memory", "restart", "dump"]) if restart is None else rng.choice(["restart", "dump"])
        key = cfg["calcs"][0] if cfg["dyadic"] else rng.choice(cfg["calcs"][:2])
        case = dict(cfg, store=store, component=key, restart=restart)
        with ctx.attempt("traced run()", case):
            tr = Trace()
            if restart is None:
                res, pre, kl = do_run(cfg, store, d, "c", trace=tr)
                first_saved = 0
            else:
                n1, rit, m = restart
                tr1 = Trace()
                do_run(cfg, store, d, "c", niter=n1, trace=tr1)
                res, pre, kl = do_run(cfg, store, d, "c", trace=tr, niter=m, extra=dict(restart=True, restart_iteration=rit))
                first_saved = rit if rit >= 0 else n1 + rit + 1
            if tr.problems:
                ctx.mismatch("event tracing lost track of K_list: " + tr.problems[0], case)
                continue
            K = tr.K_list
            if len(tr.shadow) != len(K) or any(a is not b for a, b in zip(tr.shadow, K)):
                ctx.mismatch("replayed list of K-point objects differs from the final K_list", case)
                continue
            # value of every K-point object = what paralfunc returned for it (read back from the point itself)
            val = values_of(K, kl, key)
            rs, fs, its, changed_old, bad = protocol_of_trace(tr, K, val)
            if bad:
                ctx.mismatch(bad, case)
            modes = {"memory": "memory", "restart": "memory", "dump": "dump"}
            lines.append(f"run new {modes[store]} {rats(rs)} {rats(fs)} {'|'.join(its) if its else '_'}")
            # a restarted call does not save its pass i_iter = 0
            saved = [None if (restart is not None and t == 0) else
                     float(np.ravel(rg.load_saved(pre, key, first_saved + t))[0]) for t in range(len(tr.iters))]
            fmax = {}
            for t in tr.iters:
                for kp, f in zip(K, t["factors"]):
                    fmax[id(kp)] = max(fmax.get(id(kp), 0.0), abs(f))
            hist = sum(fmax[i] * abs(val[i]) for i in fmax)
            filefac = rg.read_all_factors(kl) if store != "memory" else None
            checks.append(dict(case=case, iters=tr.iters, saved=saved, final=comp(res, key), filefac=filefac, hist=hist,
                               first=first_saved, nmerge=sum(1 for t in tr.iters for op in t["ops"] if op[0] == "m")))
            ctx.case(signature=(str(sorted((k, str(v)) for k, v in cfg.items())), store, str(restart),
                                str([len(t["ops"]) for t in tr.iters])), nontrivial=changed_old)
            if store == "dump" and key in ("hash", "peak", "spike"):
                evs = name_events(tr, cfg, key) if restart is None else \
                    name_events(tr1, cfg, key) + ["R"] + name_events(tr, cfg, key, skip_first=True)
                Kd = rg.read_klist(kl)
                got_names, got_read = [], []
                for kp in Kd:
                    pth = getattr(kp, "result_storage_path", None)
                    got_names.append(os.path.basename(pth)[4:-7] if pth else "N")
                    try:
                        import pickle
                        with open(pth, "rb") as fh:
                            got_read.append(F(np.ravel(pickle.load(fh).results[key].data)[0]))
                    except Exception:
                        got_read.append(None)
                nlines.append(f"names iterstart {'|'.join(evs)}")
                nchecks.append(dict(case=case, names=got_names, read=got_read))
                ctx.count("corr.storage_names.campaigns")
            ctx.count(f"corr.store={store}")
            ctx.count("corr.restarted_call(replayed)" if restart is not None else "corr.plain_run")
            ctx.count("corr.deep[1,1,100]" if deep else ("corr.dyadic(exact)" if cfg["dyadic"] else "corr.non_dyadic(rounding)"))
            ctx.count(f"corr.system={cfg['system']}")
            for j in range(1, len(tr.iters)):
                prev, cur = tr.iters[j - 1], tr.iters[j]
                nold = prev["n"]
                into_old = sum(1 for op in cur["ops"] if op[0] == "m" and op[1] < nold)
                gained = sum(1 for a_, b_ in zip(prev["factors"], cur["factors"]) if b_ > a_ and a_ != 0)
                ctx.count("corr.events.new_point_absorbed_by_evaluated_point", into_old)
                ctx.count("corr.events.evaluated_point_with_weight_gained_weight", gained)
                if cur["n"] == nold and any(a_ != b_ for a_, b_ in zip(prev["factors"], cur["factors"])):
                    ctx.count("corr.iterations_without_new_evaluation_but_weights_moved")
    allout = ctx.lean(lines + nlines)
    out = allout[:len(lines)]
    for l, o, c in zip(nlines, allout[len(lines):], nchecks):
        ctx.case(signature=l, nontrivial=True)
        parts = o.split("@")
        if len(parts) != 4 or parts[3] != "0":
            ctx.mismatch(f"storage-name model returned {o[:80]}", dict(c["case"], line=l[:300]))
            continue
        mnames = parts[0].split(",") if parts[0] != "_" else []
        mread = [None if x == "X" else Fr(x) for x in parts[1].split(",")] if parts[1] != "_" else []
        if mnames != c["names"]:
            ctx.mismatch(f"storage names: code {c['names'][:40]} model {mnames[:40]}", dict(c["case"], line=l[:300]))
        elif len(mread) != len(c["read"]) or any(
                a_ is None or b_ is None or abs(a_ - b_) > Fr(1, 10 ** 12) * max(1, abs(a_)) for a_, b_ in zip(mread, c["read"])):
            bad = [i for i, (a_, b_) in enumerate(zip(mread, c["read"]))
                   if a_ is None or b_ is None or abs(a_ - b_) > Fr(1, 10 ** 12) * max(1, abs(a_))]
            ctx.mismatch(f"content of the storage files differs from the model's at K-points {bad[:10]}",
                         dict(c["case"], line=l[:300]))
    for l, o, c in zip(lines, out, checks):
        case = c["case"]
        states = o.split(" ")
        if o == "bad-op" or len(states) != len(c["iters"]):
            ctx.mismatch(f"model returned {o[:80]}", dict(case, line=l[:300]))
            continue
        exact = case["dyadic"]
        for t, (st, it) in enumerate(zip(states, c["iters"])):
            ra, facs, ptsf, ws, err = st.split("@")
            mf = parse_rats(ptsf)
            cf = [F(x) for x in it["factors"]]
            tolf = Fr(0) if exact else Fr(1, 10 ** 15)
            if err != "0" or len(mf) != len(cf) or any(abs(a - b) > tolf * max(1, abs(b)) for a, b in zip(mf, cf)):
                ctx.mismatch(f"iteration {t}: factor vector of the model differs from run()'s K_list "
                             f"(err={err}, len {len(mf)} vs {len(cf)})", dict(case, iteration=t, line=l[:300]))
                break
            if t > 0 and parse_rats(facs) != mf:
                ctx.mismatch(f"iteration {t}: model's recorded factors differ from its current ones", dict(case, line=l[:300]))
                break
            if c["filefac"] is not None:
                if c["first"] + t not in c["filefac"]:
                    ctx.fail(f"factors file of iteration {c['first'] + t} was not written", case)
                    break
                ff = [F(x) for x in c["filefac"][c["first"] + t]]
                if t == 0 and case.get("restart") is not None:
                    ff = ff + [Fr(0)] * (len(cf) - len(ff))   # the file a restart starts from may be shorter: zero padding
                if ff != cf:
                    ctx.fail(f"factors_iter-{t} on disk differ from the factors of K_list after iteration {t}", case)
                    break
            mra = Fr(ra)
            if c["saved"][t] is None:
                continue
            tol = 0.0 if (exact and case["component"] == "hash") else 1e-13 * c["hist"]
            if abs(float(mra - F(c["saved"][t]))) > tol:
                ctx.mismatch(f"iteration {t}: result_all of the model {float(mra)!r} differs from the result saved by "
                             f"run() {c['saved'][t]!r} (tolerance {tol})", dict(case, iteration=t, line=l[:300]))
                break
            if Fr(ws) != mra:
                ctx.mismatch(f"iteration {t}: the model violates its own theorem (wsum != resultAll)", dict(case, line=l[:300]))
                break
        else:
            if abs(c["final"] - c["saved"][-1]) > 0:
                ctx.fail("returned result differs from the result saved after the last iteration", case)
        ctx.count("corr.events.merge", c["nmerge"])
    if lines:
        ctx.sample(dict(protocol_line=lines[0][:400], model=out[0][:400]))
    rg.cleanup()


# ------------------------------------------------------------------------------------------------
# oracle: the property on the real run(), recomputed from the restart files, all storage modes

def history_magnitude(kl, key_list):
    """sum_i max_t |f_t[i]| * max|r_i| : the scale of the intermediate values of the incremental update (dead points
    contributed with their former weight before it was subtracted again) - rounding errors are relative to THIS"""
    K = rg.read_klist(kl)
    facs = rg.read_all_factors(kl)
    fmax = np.zeros(len(K))
    for t, f in facs.items():
        fmax[:len(f)] = np.maximum(fmax[:len(f)], np.abs(f))
    out = {}
    for key in key_list:
        out[key] = sum(fmax[ik] * float(np.abs(np.array(rg.kp_result(K[ik], kl, ik).results[key].data, dtype=float)).max())
                       for ik in range(len(K)) if fmax[ik] > 0)
    return out


def weighted_sum_from_files(kl, key_list, t):
    """sum_i f_i r_i over the K-point list as it was after iteration t, from K_list.pickle / factors / _Kp files.
    Exact rational arithmetic on the float values (independent of the order of summation)."""
    K = rg.read_klist(kl)
    fac = rg.read_all_factors(kl)[t]
    n = len(fac)
    if n > len(K):
        return None, f"factors_iter-{t} has {n} entries but K_list.pickle only {len(K)} K-points"
    out = {}
    for key in key_list:
        tot = None
        for ik in range(n):
            if fac[ik] == 0:
                continue
            r = np.array(rg.kp_result(K[ik], kl, ik).results[key].data, dtype=float).ravel()
            if tot is None:
                tot = [Fr(0)] * len(r)
            f = F(fac[ik])
            tot = [a + f * F(x) for a, x in zip(tot, r)]
        out[key] = np.array([float(x) for x in tot])
    return out, None


def oracle(ctx, scale):
    rng = ctx.rng
    d = rg.scratch("c10orc")
    N = ctx.n(10, 90) * scale
    for it in range(N):
        deep = (it % 7 == 3)
        cfg = rand_config(rng, deep=deep, real_calc=ctx.tier == "thorough")
        if it < 2:
            cfg = merge_heavy(it)
        if deep and ctx.tier == "quick":
            cfg["adpt_num_iter"] = 6
        keys = [k for k in cfg["calcs"]]
        case = dict(cfg)
        with ctx.attempt("run() with adaptive refinement", case):
            runs = {}
            for store in ("restart", "dump", "memory"):
                runs[store] = do_run(cfg, store, d, store)
            niter = cfg["adpt_num_iter"]
            changed = False
            for store in ("restart", "dump"):
                res, pre, kl = runs[store]
                facs = rg.read_all_factors(kl)
                if sorted(facs) != list(range(niter + 1)):
                    ctx.fail(f"{store}: factors files {sorted(facs)} instead of 0..{niter}", case)
                    break
                for t in range(1, niter + 1):
                    n = len(facs[t - 1])
                    if np.any(facs[t][:n] != facs[t - 1]):
                        changed = True
                bad = False
                hist = history_magnitude(kl, keys)
                for t in range(niter + 1):
                    ref, msg = weighted_sum_from_files(kl, keys, t)
                    if msg:
                        ctx.fail(f"{store}: {msg}", case)
                        bad = True
                        break
                    for key in keys:
                        got = np.array(rg.load_saved(pre, key, t), dtype=float).ravel()
                        want = ref[key]
                        tol = 1e-13 * hist[key]
                        if got.shape != want.shape or np.abs(got - want).max() > tol:
                            ctx.fail(f"{store}: result '{key}' saved after iteration {t} differs from sum_i f_i r_i over the "
                                     f"K-point list by {np.abs(got - want).max():.3e} (|result|={np.abs(want).max():.3e}, "
                                     f"tolerance {tol:.1e})", dict(case, iteration=t, store=store, saved=got, weighted_sum=want))
                            bad = True
                            break
                    if bad:
                        break
                if bad:
                    break
                for key in keys:
                    last = np.array(rg.load_saved(pre, key, niter), dtype=float).ravel()
                    if np.abs(np.array(res.results[key].data, dtype=float).ravel() - last).max() > 0:
                        ctx.fail(f"{store}: returned '{key}' differs from the one saved after the last iteration", case)
                if store == "dump":
                    check_own_files(ctx, kl, cfg, "dump_results run", case)
            # storage modes agree with each other after every iteration
            for t in range(niter + 1):
                for key in keys:
                    a = np.array(rg.load_saved(runs["restart"][1], key, t), dtype=float)
                    for store in ("dump", "memory"):
                        b = np.array(rg.load_saved(runs[store][1], key, t), dtype=float)
                        if a.shape != b.shape or np.abs(a - b).max() > 1e-13 * hist[key]:
                            ctx.fail(f"storage mode {store} gives a different '{key}' after iteration {t} than allow_restart "
                                     f"({np.abs(a - b).max():.3e})", dict(case, iteration=t))
            # discarded per-K results (adpt_num_iter = 0, no restart): iteration 0 must equal the others' iteration 0
            res0, pre0, _ = do_run(cfg, "discard", d, "discard")
            for key in keys:
                a = np.array(rg.load_saved(runs["restart"][1], key, 0), dtype=float)
                b = np.array(res0.results[key].data, dtype=float)
                if a.shape != b.shape or np.abs(a - b).max() > 1e-13 * hist[key]:
                    ctx.fail(f"discarded-results run gives a different '{key}' at iteration 0 ({np.abs(a - b).max():.3e})", case)
            for t in range(1, niter + 1):
                added, moved, gained, revived = weight_events(facs, t)
                ctx.count("oracle.plain.evaluated_points_with_weight_gained_weight", gained)
                if added == 0 and moved:
                    ctx.count("oracle.plain.iterations_without_new_evaluation_but_weights_moved")
            minw = min((abs(x) for t in facs for x in facs[t] if x != 0), default=1.0)
            ctx.case(signature=str(sorted((k, str(v)) for k, v in cfg.items())), nontrivial=changed)
            ctx.count("oracle.deep[1,1,100]" if deep else "oracle.ordinary")
            ctx.count("oracle.min_weight<1e-8" if minw < 1e-8 else "oracle.min_weight>=1e-8")
            ctx.count(f"oracle.iterations={niter}")
    rg.cleanup()
    oracle_restarted(ctx, scale)
    oracle_parallel(ctx, scale)


def own_value(cfg, key, kp):
    """what the toy calculator `key` returns for this K-point, recomputed from its coordinates (independent of
    anything run() stored)"""
    calc = make_calcs(cfg)[key]
    return np.array(calc.value(np.array(kp.K, dtype=float) / np.array(kp.NKFFT, dtype=float)), dtype=float)


def check_own_files(ctx, kl, cfg, what, case):
    """dump_results: distinct K-points of K_list.pickle have distinct storage files, named after their position, and
    every file holds the result of ITS OWN K-point (recomputed from the K-point's coordinates)"""
    K = rg.read_klist(kl)
    keys = [k for k in cfg["calcs"] if k in ("hash", "peak", "spike")]
    seen = {}
    for ik, kp in enumerate(K):
        path = getattr(kp, "result_storage_path", None)
        ctx.count("oracle.own_file.points_checked")
        if getattr(kp, "result", None) is not None:
            # allow_restart without dump: the result travels inside K_list.pickle
            for key in keys:
                got = np.array(kp.result.results[key].data, dtype=float).ravel()
                want = own_value(cfg, key, kp).ravel()
                if got.shape != want.shape or np.abs(got - want).max() > 1e-12 * max(1.0, np.abs(want).max()):
                    ctx.fail(f"{what}: K-point {ik} of K_list.pickle does not carry its own '{key}' result "
                             f"(stored {got}, own {want})", dict(case, ik=ik))
                    return False
            continue
        if path is None or not os.path.exists(path):
            ctx.fail(f"{what}: K-point {ik} of K_list.pickle has no storage file ({path})", dict(case, ik=ik))
            return False
        if path in seen:
            ctx.fail(f"{what}: K-points {seen[path]} and {ik} share the storage file {os.path.basename(path)}",
                     dict(case, ik=ik))
            return False
        seen[path] = ik
        if os.path.basename(path) != f"_Kp-{ik}.pickle":
            ctx.fail(f"{what}: K-point {ik} is stored in {os.path.basename(path)}", dict(case, ik=ik))
            return False
        with open(path, "rb") as f:
            import pickle
            res = pickle.load(f)
        for key in keys:
            got = np.array(res.results[key].data, dtype=float).ravel()
            want = own_value(cfg, key, kp).ravel()
            if got.shape != want.shape or np.abs(got - want).max() > 1e-12 * max(1.0, np.abs(want).max()):
                ctx.fail(f"{what}: the file {os.path.basename(path)} of K-point {ik} does not hold that K-point's own "
                         f"'{key}' result (file {got}, own {want})", dict(case, ik=ik))
                return False
    return True


def weighted_own_sum(kl, cfg, key, t):
    """sum_i f_i R(k_i) after iteration t with R recomputed from the K-points' COORDINATES (nothing run() stored about
    the results is used), exact rational arithmetic on the float values"""
    K = rg.read_klist(kl)
    fac = rg.read_all_factors(kl)[t]
    tot = None
    for ik in range(len(fac)):
        if fac[ik] == 0:
            continue
        r = own_value(cfg, key, K[ik]).ravel()
        if tot is None:
            tot = [Fr(0)] * len(r)
        f = F(fac[ik])
        tot = [a + f * F(x) for a, x in zip(tot, r)]
    return np.array([float(x) for x in tot])


def oracle_parallel(ctx, scale):
    """the same property under PARALLEL evaluation: the real run() with a stub `ray` whose wait answers are out of
    order, incomplete and spread over several reports (few workers, many K-points).  Symmetry-reduced grids with
    refinement, all storage modes.  After every iteration: saved == returned == sum f_i r_i from the restart files ==
    sum f_i R(k_i) with R recomputed from the coordinates; every stored per-K result is its own K-point's."""
    import random
    rng = ctx.rng
    d = rg.scratch("c10par")
    nconf = ctx.n(5, 30) * scale
    for it in range(nconf):
        if it < ctx.n(3, 5):
            cfg = merge_heavy(it, niter=rng.choice([2, 3]))
        else:
            cfg = rand_config(rng, real_calc=False)
            cfg["adpt_num_iter"] = min(cfg["adpt_num_iter"], 3)
            cfg["use_irred_kpt"] = cfg["use_irred_kpt"] or it % 2 == 0
        keys = [k for k in cfg["calcs"] if k in ("hash", "peak", "spike")]
        niter = cfg["adpt_num_iter"]
        case = dict(cfg)
        with ctx.attempt("parallel run() with adaptive refinement", case):
            ref, refpre, refkl = do_run(cfg, "restart", d, "serial")     # serial reference
            hist = history_magnitude(refkl, keys)
            for store in ("restart", "dump", "memory", "discard"):
                r2 = random.Random(rng.getrandbits(32))
                ncpu = rng.choice([1, 2, 3])
                stub = rg.StubRay(ncpu, rg.adversarial_chooser(r2, max_calls=rng.choice([6, 12, 20]), p_timeout=0.3),
                                  shuffle=r2.shuffle)
                res, pre, kl = do_run(cfg, store, d, f"p{store}", stub=stub)
                order = [g for b in stub.batches for g in b["gets"] if g != "all"]
                multi = sum(1 for b in stub.batches if len(b["answers"]) > 1)
                ooo = any([g for g in b["gets"] if g != "all"] != sorted(g for g in b["gets"] if g != "all") for b in stub.batches)
                sub = dict(case, store=store, workers=ncpu,
                           schedule=[dict(n=b["n"], answers=b["answers"]) for b in stub.batches][:6])
                ctx.case(signature=("par", str(sorted((k, str(v)) for k, v in cfg.items())), store, str(order)), nontrivial=ooo)
                ctx.count(f"oracle.parallel.store={store}")
                ctx.count("oracle.parallel.out_of_order_collection" if ooo else "oracle.parallel.in_order_collection")
                ctx.count("oracle.parallel.process_calls_with_several_wait_reports", multi)
                nit = 0 if store == "discard" else niter
                bad = False
                for t in range(nit + 1):
                    for key in keys:
                        got = np.array(res.results[key].data, dtype=float).ravel() if store == "discard" else \
                            np.array(rg.load_saved(pre, key, t), dtype=float).ravel()
                        tol = 1e-13 * hist[key] + 1e-12 * np.abs(got).max()
                        if store in ("restart", "dump"):
                            files, msg = weighted_sum_from_files(kl, [key], t)
                            own = weighted_own_sum(kl, cfg, key, t)
                            if msg or np.abs(got - files[key]).max() > tol:
                                ctx.fail(f"parallel, {store}: result '{key}' saved after iteration {t} differs from sum_i f_i r_i "
                                         f"over the restart files ({msg or np.abs(got - files[key]).max()})", dict(sub, iteration=t))
                                bad = True
                            elif np.abs(got - own).max() > tol:
                                ctx.fail(f"parallel, {store}: result '{key}' saved after iteration {t} differs from "
                                         f"sum_k f_k R(k) with R recomputed from the K-point coordinates by "
                                         f"{np.abs(got - own).max():.3e} (tolerance {tol:.1e})",
                                         dict(sub, iteration=t, saved=got, weighted_sum=own))
                                bad = True
                        else:
                            want = np.array(rg.load_saved(refpre, key, t), dtype=float).ravel()
                            if got.shape != want.shape or np.abs(got - want).max() > tol:
                                ctx.fail(f"parallel, {store}: result '{key}' after iteration {t} differs from sum_k f_k R(k) "
                                         f"(= the serial run's value) by {np.abs(got - want).max():.3e} (tolerance {tol:.1e})",
                                         dict(sub, iteration=t))
                                bad = True
                        if bad:
                            break
                    if bad:
                        break
                if bad:
                    continue
                if store != "discard":
                    for key in keys:
                        last = np.array(rg.load_saved(pre, key, niter), dtype=float).ravel()
                        if np.abs(np.array(res.results[key].data, dtype=float).ravel() - last).max() > 0:
                            ctx.fail(f"parallel, {store}: returned '{key}' differs from the one saved after the last iteration", sub)
                if store in ("restart", "dump"):
                    check_own_files(ctx, kl, cfg, f"parallel run, {store}", sub)
    rg.cleanup()


def oracle_restarted(ctx, scale):
    """the same property on RESTARTED runs (restart_iteration = -1 and earlier iterations, allow_restart and
    dump_results): after every iteration a restarted call performs, saved == returned == sum_i f_i r_i recomputed
    exactly from the restart files.  Restarting from an earlier refinement level re-creates children that are absorbed
    by stale, already evaluated K-points: iterations in which NOTHING is evaluated although weights move."""
    import glob as _glob
    rng = ctx.rng
    d = rg.scratch("c10rst")
    nconf = ctx.n(5, 24) * scale
    for it in range(nconf):
        if it < ctx.n(3, 5):
            cfg = merge_heavy(it, niter=rng.choice([2, 3]))
        else:
            cfg = rand_config(rng, real_calc=ctx.tier == "thorough" and it % 3 == 0)
            cfg["adpt_num_iter"] = min(cfg["adpt_num_iter"], 4)
        n1 = cfg["adpt_num_iter"]
        keys = list(cfg["calcs"])
        for store in ("restart", "dump"):
            # a chain of calls in one directory: first run, restart from an earlier level, restart from the latest ...
            k0 = rng.randint(0, n1 - 1)
            chain = [(rng.choice([k0, k0 - n1 - 1]), k0, rng.randint(1, 3))]
            top = max(n1, k0 + chain[0][2])
            chain.append((-1, top, rng.randint(1, 2)))
            if rng.random() < 0.5:
                k1 = rng.randint(0, top)
                chain.append((k1, k1, rng.randint(1, 2)))
            case = dict(cfg, store=store, chain=[(r, m) for r, _, m in chain])
            with ctx.attempt("restarted run() with adaptive refinement", case):
                res, pre, kl = do_run(cfg, store, d, f"r{store}", niter=n1)
                ok = True
                for rit, start, m in chain:
                    for f in _glob.glob(pre + "-*_iter-*.npz"):
                        os.remove(f)
                    res, pre, kl = do_run(cfg, store, d, f"r{store}", niter=m, extra=dict(restart=True, restart_iteration=rit))
                    sub = dict(case, restart_iteration=rit, resumes_from=start, iterations=m)
                    facs = rg.read_all_factors(kl)
                    hist = history_magnitude(kl, keys)
                    for t in range(start + 1, start + m + 1):
                        if t not in facs or not os.path.exists(f"{pre}-{keys[0]}_iter-{t:04d}.npz"):
                            ctx.fail(f"{store}: restarted call (restart_iteration={rit}) did not write the "
                                     f"{'factors' if t not in facs else 'result'} of iteration {t}", sub)
                            ok = False
                            break
                        ref, msg = weighted_sum_from_files(kl, keys, t)
                        if msg:
                            ctx.fail(f"{store}: {msg}", sub)
                            ok = False
                            break
                        for key in keys:
                            got = np.array(rg.load_saved(pre, key, t), dtype=float).ravel()
                            tol = 1e-13 * hist[key]
                            if got.shape != ref[key].shape or np.abs(got - ref[key]).max() > tol:
                                ctx.fail(f"{store}: restarted call (restart_iteration={rit}): result '{key}' saved after "
                                         f"iteration {t} differs from sum_i f_i r_i over the K-point list by "
                                         f"{np.abs(got - ref[key]).max():.3e} (tolerance {tol:.1e})",
                                         dict(sub, iteration=t, saved=got, weighted_sum=ref[key]))
                                ok = False
                                break
                        if not ok:
                            break
                        added, moved, gained, revived = weight_events(facs, t)
                        ctx.count("oracle.restarted.iterations_checked")
                        if added == 0 and moved:
                            ctx.count("oracle.restarted.iterations_without_new_evaluation_but_weights_moved")
                        ctx.count("oracle.restarted.stale_points_revived", revived)
                        ctx.count("oracle.restarted.evaluated_points_with_weight_gained_weight", gained)
                    if not ok:
                        break
                    last = start + m
                    for key in keys:
                        lastsaved = np.array(rg.load_saved(pre, key, last), dtype=float).ravel()
                        if np.abs(np.array(res.results[key].data, dtype=float).ravel() - lastsaved).max() > 0:
                            ctx.fail(f"{store}: restarted call returned a '{key}' that differs from the one it saved after "
                                     f"its last iteration {last}", sub)
                            ok = False
                    ctx.count("oracle.restarted.call.latest" if rit == -1 else "oracle.restarted.call.earlier_iteration")
                    if ok and store == "dump":
                        ok = check_own_files(ctx, kl, cfg, f"dump_results, after restart_iteration={rit}", sub)
                ctx.case(signature=("rst", str(sorted((k, str(v)) for k, v in case.items()))), nontrivial=True)
    rg.cleanup()


def replay(ctx, case):
    for fl in case.get("failures", []):
        print("recorded failure:", fl["what"])
        print("  case:", str({k: v for k, v in fl["case"].items() if k not in ("saved", "weighted_sum")})[:1500])
    corr(ctx)
    oracle(ctx, 1)
    for m in ctx.mismatches[:3]:
        print("MODEL/CODE MISMATCH:", m["what"][:500])
        ctx.failures.append(m)
