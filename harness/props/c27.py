"""C27 - Berry-curvature sum rule and Chern quantisation."""
import numpy as np
from fractions import Fraction as Fr

from ..common import rats, rat, ratss, ints, quiet, F

PID = "C27"
CLAIM = dict(
    design="3/C27",
    technique="Lean 4 proof over an executable model of Data_K.dEig_inv / D_H / Omega.nn(internal) / Formula_ln.trace "
              "(any field with conjugation, any number of bands, any grouping of bands) + differential correspondence "
              "of that model with the real formula classes on exact Gaussian-dyadic inputs + property oracle on the "
              "real code (sum rule, AHC above all bands, Haldane Chern numbers against an independent reference)",
    text="PARTIAL. Proved: D_H = -V*dEig_inv is anti-Hermitian for Hermitian V and real energies (degenerate pairs "
         "included); the internal Berry-curvature contributions A->B and B->A of any two band sets cancel; summed "
         "over ANY partition of all bands (in particular the groups built by get_borders, with or without Kramers "
         "pairing, and the groups of a Fermi-sea calculator INCLUDING the lumped block (0,bandmax) of "
         "get_bands_in_range_groups_ik(sea=True), which partition the bands because bandmax is clamped to the first "
         "group in range - also when the lowest Fermi level lies inside a multiplet) the internal Berry curvature "
         "traced as the calculators trace it is zero at every k; hence a Fermi-sea sum with the Fermi level above all "
         "bands vanishes.  For the FULL Berry curvature (external terms included, the class Omega as a structure term of "
         "C04's covariant-expression syntax) the sum over the blocks of any grouping is gauge invariant "
         "(omega_total_gauge_invariant) but obeys NO sum rule (external_terms_no_sum_rule: one band with rotAA = 1 gives "
         "1).  NOT proved (topology + quadrature): AHC*c of a "
         "gapped 2D model is an integer multiple of e^2/h - checked by the oracle only (k.p models through SystemKP and Haldane models from "
         "models.Haldane_ptb/Haldane_tbm in trivial and topological phases, with random perturbations and random "
         "external-term matrices, against an independent Fukui-Hatsugai-Suzuki Chern number; 2 %, sign pinned).",
    note="Trusted: Lean kernel + Mathlib; harness; numpy eigh/einsum/FFT.  Theorems are over exact fields; the code "
         "runs in doubles (oracle tolerance 1e-9 relative to the sum of |terms|).  The Fermi-sea accumulation over "
         "Efermi (C13) and the k-point weights (C06) are not re-modelled here; they are exercised by the oracle.",
)
TRUSTED = [
    "modelled: Data_K.dEig_inv (threshold mask), Data_K.D_H, Omega.nn internal term incl. Hermitian completion, "
    "Formula_ln.trace, the inn/out index sets of StaticCalculator/Tabulator blocks; get_borders via the C15 model; "
    "Data_K.get_bands_in_range_groups_ik(sea=True) incl. get_bands_below_range and the clamp of bandmax",
    "not modelled (oracle only): eigh, _rotate, R_to_k, the Efermi accumulation of StaticCalculator, tetrahedron weights, "
    "external terms of Omega, model builders Haldane_ptb/Haldane_tbm and System_PythTB/System_TBmodels",
    "quantisation of AHC*c (topology + discretisation error) is NOT a theorem: oracle only, hence the claim is partial",
    "'out-of-plane lattice constant' c of a 2D system (periodic=(True,True,False), in-plane vectors a1,a2 with z=0) means "
    "cell volume / in-plane cell area = |det L| / |a1 x a2| (= |a3| when a3 is perpendicular); the oracle embeds the "
    "models with in-plane cells of any shape and a3 of length 0.5-4 Angstrom, perpendicular or tilted, and checks "
    "AHC_z * c = -C e^2/h plus CumDOS/DOS per cell independent of c",
    "Data_K.dEig_inv is modelled per k-point (dEigInvAllK); the correspondence samples the real array for nk up to 3000 "
    "(first, last three, random indices)",
    "hermitize / symmetrize (Hermitian vs symmetric part of the velocity matrix; theorems hermitize_of_hermitian, "
    "symmetrize_eq_iff, omega_zero_of_real_D) have no counterpart in the unchanged code path of Data_K_k.Xbar (which applies "
    "no such step): this piece of the model is tied to the code by the oracle only (k.p Chern cases through SystemKP)",
    "correspondence inputs keep every energy gap either exactly 0, 2^-40 (< 1e-7/1e5) or >= 2^-12 (> 1e-7*2000)",
]
RULE = ("corr: 2-6 bands, sorted dyadic energies with exact and sub-threshold degeneracies, Hermitian Gaussian-dyadic "
        "velocity matrices, contiguous and scattered inn sets, groupings from get_borders; oracle: random Hermitian "
        "systems (2-6 Wannier functions, spin-doubled ones included), random/special k, random band partitions, "
        "run() with Efermi grids ending above all bands, the lowest Fermi level placed between / at the members of an "
        "exact (spin-doubled or tuned) or near-degenerate (2e-5 .. 0.02, degen_thresh 1e-4 and 0.05) multiplet of a grid "
        "k-point with CumDOS checked in the same run, calculator-reuse histories (the same AHC/CumDOS/DOS objects across "
        "2-3 run() calls on embeddings with different cell volumes and grids with different NKFFT, each compared with "
        "fresh calculators and with the Chern reference), single FFT grids (one Data_K) of 36 to ~4400 k-points incl. "
        "1600 and 2500, a size-generic component check (dEig_inv, |D_H|, Berry curvature of a Data_K with nk in {1, 7, "
        "1023, 1024, 1025, 2049, 3000, random} at the first, last three and random k-points against the same k-point "
        "evaluated alone), lattice-periodic two-band k.p models d(k).sigma through SystemKP (complex off-diagonal "
        "elements, finite-difference and analytic derivatives, any embedding) in trivial and topological phases, "
        "Haldane-type models in both phases.  non-trivial = at least "
        "one block has a non-zero internal curvature (sum rule) / the model is gapped with margin (Chern); "
        "distinct = distinct (kind, seed, parameters)")


# ------------------------------------------------------------------------------------------------
# component correspondence: model vs the real formula classes on exact inputs

def gen_bands(rng):
    """sorted dyadic energies (with ties), Hermitian Gaussian-dyadic V[n][l][a]"""
    N = rng.randint(2, 6)
    E = [Fr(rng.randint(-8, 8), 4)]
    for _ in range(N - 1):
        E.append(E[-1] + rng.choice([Fr(0), Fr(1, 2 ** 40), Fr(1, 2 ** 12), Fr(1, 4), Fr(1, 2), Fr(3, 4), Fr(1), Fr(5, 2)]))
    re = [[[Fr(0)] * 3 for _ in range(N)] for _ in range(N)]
    im = [[[Fr(0)] * 3 for _ in range(N)] for _ in range(N)]
    for n in range(N):
        for l in range(n, N):
            for a in range(3):
                x = Fr(rng.randint(-6, 6), 4)
                y = Fr(rng.randint(-6, 6), 4) if l != n else Fr(0)
                re[n][l][a] = x
                re[l][n][a] = x
                im[n][l][a] = y
                im[l][n][a] = -y
    return N, E, re, im


class _Stub:
    """the attributes of Data_K that dEig_inv / D_H / Dcov / Omega read"""
    force_internal_terms_only = False

    def __init__(self, E, V):
        self.E_K = E
        self._V = V

    def Xbar(self, name, der=0):
        assert name == "Ham" and der == 1
        return self._V


def real_formula(E, re, im):
    """run the REAL code (Data_K.dEig_inv, Data_K.D_H, Dcov, Omega) on exact inputs"""
    from wannierberri.data_K.data_K import Data_K
    from wannierberri.formula.elementary import Dcov
    from wannierberri.formula.covariant import Omega
    Ef = np.array([[float(e) for e in E]])
    V = (np.array([[[float(x) for x in r] for r in rr] for rr in re])
         + 1j * np.array([[[float(x) for x in r] for r in rr] for rr in im]))[None]
    st = _Stub(Ef, V)
    st.dEig_inv = Data_K.__dict__["dEig_inv"].func(st)
    st.D_H = Data_K.__dict__["D_H"].func(st)
    st.Dcov = Dcov(st)
    om = Omega(st, external_terms=False)
    return st, om


def flatV(t):
    return ratss([[x for la in row for x in la] for row in t])


def parse_g(s):
    """'re,im;re,im;...' -> list of complex Fractions (re, im)"""
    out = []
    for tok in s.split(";"):
        a, b = tok.split(",")
        out.append((Fr(a), Fr(b)))
    return out


def corr(ctx):
    from wannierberri.grid.tetrahedron import get_borders
    rng = ctx.rng
    thr = F(1e-7)
    lines, checks = [], []
    for it in range(ctx.n(40, 400)):
        N, E, re, im = gen_bands(rng)
        case = dict(E=[float(e) for e in E], Vre=[[[float(x) for x in r] for r in rr] for rr in re],
                    Vim=[[[float(x) for x in r] for r in rr] for rr in im])
        ctx.count(f"corr.nbands={N}")
        ndeg = sum(1 for i in range(N - 1) if E[i + 1] - E[i] < thr)
        ctx.count("corr.with_degenerate_pair" if ndeg else "corr.nondegenerate")
        with ctx.attempt("Data_K.dEig_inv/D_H/Omega on exact inputs", case):
            st, om = real_formula(E, re, im)
            head = f"{rats(E)} {rat(thr)}"
            lines.append(f"deinv {head}")
            checks.append(("deinv", st.dEig_inv[0].reshape(-1), case))
            lines.append(f"dh {head} {flatV(re)} {flatV(im)}")
            checks.append(("dh", st.D_H[0].reshape(-1), case))
            # a block as the calculators build it, and a scattered inner set
            a = rng.randint(0, N - 1)
            b = rng.randint(a + 1, N)
            inn1 = list(range(a, b))
            inn2 = sorted(rng.sample(range(N), rng.randint(1, N)))
            for inn in (inn1, inn2):
                out = [i for i in range(N) if i not in inn]
                c2 = dict(case, inn=inn, out=out)
                lines.append(f"trace {head} {flatV(re)} {flatV(im)} {ints(inn)} {ints(out)}")
                checks.append(("trace", om.trace(0, np.array(inn, dtype=int), np.array(out, dtype=int)), c2))
                lines.append(f"nn {head} {flatV(re)} {flatV(im)} {ints(inn)} {ints(out)}")
                checks.append(("nn", om.nn(0, np.array(inn, dtype=int), np.array(out, dtype=int)).reshape(-1), c2))
            # the grouping of get_borders: the model's sum over blocks against the code's block traces
            th = float(rng.choice([Fr(-1), Fr(1, 2 ** 20), Fr(1, 3), Fr(1)]))
            brd = get_borders(np.array([float(e) for e in E]), th)
            borders = [int(brd[0][0])] + [int(x[1]) for x in brd]
            tot = np.zeros(3)
            mag = 0.0
            for (x, y) in brd:
                inn = np.arange(x, y)
                out = np.concatenate((np.arange(0, x), np.arange(y, N)))
                tr = om.trace(0, inn, out)
                tot = tot + tr
                mag += np.abs(tr).max()
            lines.append(f"blocks {head} {flatV(re)} {flatV(im)} {ints(borders)}")
            checks.append(("blocks", tot, dict(case, borders=borders, sum_abs_block_traces=mag)))
    sea_corr(ctx, lines, checks)
    allk_corr(ctx, lines, checks)
    out = ctx.lean(lines)
    for line, o, (kind, got, case) in zip(lines, out, checks):
        ctx.case(signature=line, nontrivial=True)
        if kind == "sea":
            want = [] if o == "_" else [tuple(int(x) for x in t.split(",")) for t in o.split(";")]
            keys, neginf = got
            if sorted(want) != sorted(keys) or len(want) != len(set(want)) or (neginf and want[0] != neginf[0]) \
                    or (not neginf and len(want) and want[0][0] == 0 and want[0] not in keys):
                ctx.mismatch("sea groups: model and code differ", dict(case=case, model=o, code_keys=keys, code_lumped=neginf))
            continue
        got = np.asarray(got)
        if o == "bad-op":
            ctx.mismatch(f"{kind}: model rejected the line", dict(line=line[:300]))
            continue
        if kind == "deinv":
            want = np.array([float(x) for row in o.split(";") for x in map(Fr, row.split(","))])
            exact0 = np.array([x == 0 for row in o.split(";") for x in map(Fr, row.split(","))])
            bad = (np.abs(got - want) > 1e-13 * (1 + np.abs(want))).any() or (got[exact0] != 0).any()
        else:
            g = parse_g(o)
            want = np.array([float(a) + 1j * float(b) for a, b in g])
            if kind in ("trace", "blocks"):
                if any(b != 0 for _, b in g):
                    ctx.mismatch(f"{kind}: the model's trace has an imaginary part", dict(line=line[:300], model=o))
                want = want.real
            scale = 1.0 + np.abs(want).max() + (np.abs(got).max() if got.size else 0) + case.get("sum_abs_block_traces", 0.0)
            bad = got.shape != want.shape or (np.abs(got - want) > 1e-10 * scale).any()
        if bad:
            ctx.mismatch(f"{kind}: model and code differ", dict(case=case, model=o[:400], code=got))
    ctx.sample(dict(protocol_line=lines[0][:200], model=out[0][:200]))
    ctx.sample(dict(protocol_line=lines[3][:300], model=out[3][:200], code=checks[3][1]))


NK_SIZES = [1, 7, 1023, 1024, 1025, 2049, 3000]


def allk_corr(ctx, lines, checks):
    """Data_K.dEig_inv on arrays of nk k-points (sizes around typical block sizes): the entry of EVERY sampled k-point
    (first, last few, random) against the per-k model"""
    from wannierberri.data_K.data_K import Data_K
    rng = ctx.rng
    thr = F(1e-7)
    for nk in NK_SIZES + ([rng.randint(2, 5000)] if ctx.tier == "thorough" else []):
        nb = rng.randint(2, 3)
        base = [Fr(rng.randint(-8, 8), 4)]
        for _ in range(nb - 1):
            base.append(base[-1] + rng.choice([Fr(1, 4), Fr(1, 2), Fr(1), Fr(3, 2)]))
        # E[ik][b] = base[b] + (ik mod 8)/8 * (b+1)/4 : dyadic, varies with k, no degeneracies
        ks = np.arange(nk)
        Eall = np.array([[float(base[b]) + (k_ % 8) / 8.0 * (b + 1) / 4.0 for b in range(nb)] for k_ in ks])
        st = _Stub(Eall, None)
        case = dict(nk=nk, nb=nb)
        with ctx.attempt("Data_K.dEig_inv on nk k-points", case):
            arr = Data_K.__dict__["dEig_inv"].func(st)
            sample = sorted(set([0, nk - 1, max(nk - 2, 0), max(nk - 3, 0), nk // 2]
                                + [rng.randrange(nk) for _ in range(ctx.n(3, 12))]))
            for ik in sample:
                E = [F(x) for x in Eall[ik]]
                lines.append(f"deinv {rats(E)} {rat(thr)}")
                checks.append(("deinv", arr[ik].reshape(-1), dict(case, ik=ik)))
            ctx.count(f"corr.dEig_inv.nk={nk}")


def sea_corr(ctx, lines, checks):
    """Data_K.get_bands_in_range_groups_ik(sea=True) against the model, on dyadic sorted spectra with multiplets and
    the lower edge of the range inside / at / between the members of a multiplet"""
    from wannierberri.data_K.data_K import Data_K
    rng = ctx.rng
    for it in range(ctx.n(60, 600)):
        th = Fr(rng.choice([1, 3]), 2 ** rng.choice([6, 13]))
        n = rng.randint(2, 7)
        kr = rng.random() < 0.3
        if kr and n % 2:
            n += 1
        E = [Fr(rng.randint(-8, 8), 4)]
        for _ in range(n - 1):
            E.append(E[-1] + rng.choice([Fr(0), Fr(0), th / 2, th, th * Fr(17, 16), th * 3, Fr(1, 4), Fr(1)]))
        i = rng.randrange(n)
        emin = rng.choice([E[i], E[i] + th / 4, E[i] - th / 4, (E[i] + E[min(i + 1, n - 1)]) / 2, E[0] - 1, E[-1] + 1])
        emax = rng.choice([E[-1] + 2, E[-1], emin, emin + th, emin + Fr(1, 2)])
        if emax < emin:
            emax = emin
        st = _Stub(np.array([[float(e) for e in E]]), None)
        case = dict(E=[float(e) for e in E], thr=float(th), kramers=kr, emin=float(emin), emax=float(emax))
        with ctx.attempt("Data_K.get_bands_in_range_groups_ik(sea=True)", case):
            w = Data_K.get_bands_in_range_groups_ik(st, 0, float(emin), float(emax), degen_thresh=float(th),
                                                    degen_Kramers=kr, sea=True)
            keys = [(int(a), int(b)) for a, b in w.keys()]
            neginf = [(int(a), int(b)) for (a, b), v in w.items() if v == -np.inf]
            lines.append(f"sea {rats(E)} {rat(th)} {int(kr)} {rat(emin)} {rat(emax)}")
            checks.append(("sea", (keys, neginf), case))
            inside = any(emin - th <= e <= emin + th for e in E)
            ctx.count("corr.sea.edge_near_a_band" if inside else "corr.sea.edge_far")


# ------------------------------------------------------------------------------------------------
# oracle: the property on the real code

def special_k(rs):
    kind = rs.randint(0, 4)
    if kind == 0:
        return rs.uniform(0, 1, 3)
    if kind == 1:
        return rs.uniform(-3, 3, 3)
    if kind == 2:
        return rs.randint(0, 8, 3) / 8.0
    return np.array([rs.choice([0.0, 0.5, 0.25, 1 / 3]) for _ in range(3)])


def case_sumrule_k(ctx, case):
    """sum over all bands of the tabulated internal Berry curvature, and over a random partition of the bands of
    Omega.nn traces, vanish at one k"""
    from ..wbsys import rand_system, evalk, wb
    from wannierberri.formula.covariant import Omega
    rs = np.random.RandomState(case["seed"])
    nw = case["nw"]
    with quiet():
        s = rand_system(rs, num_wann=nw, nR=int(rs.randint(3, 9)), max_R=2, matrices=("Ham", "AA"))
        if case["doubled"]:
            s.double_spin()
    k = special_k(rs)
    NB = s.num_wann
    r = evalk(s, k, ["energy", "berry_curvature_internal_terms"])
    O = r["berry_curvature_internal_terms"]
    tot = O.sum(axis=0)
    scale = np.abs(O).sum() + 1.0
    ctx.case(signature=("sumk", case["seed"], nw, case["doubled"]), nontrivial=np.abs(O).max() > 1e-6)
    if np.abs(tot).max() > 1e-9 * scale:
        ctx.fail(f"sum over bands of the internal Berry curvature at k={k.tolist()} is {tot.tolist()} "
                 f"(sum of |Omega_n| = {scale - 1:.3e})", dict(case, k=k, energies=r["energy"], omega=O))
    # random partition into arbitrary (also non-contiguous) band sets, through Omega.nn directly
    labels = rs.randint(0, max(2, NB // 2 + 1), NB)
    tot2 = np.zeros(3)
    sc2 = 1.0
    for lab in sorted(set(labels)):
        inn = [int(i) for i in np.where(labels == lab)[0]]
        with quiet():
            nn = wb.evaluate_k(s, k=k, formula={"O": Omega}, param_formula={"O": dict(external_terms=False)}, iband=inn)
        tr = np.einsum("nnc->c", nn)
        if np.abs(tr.imag).max() > 1e-9 * (1 + np.abs(tr).max()):
            ctx.fail("trace of Omega.nn over an inner set is not real", dict(case, k=k, inn=inn, trace=tr))
        tot2 = tot2 + tr.real
        sc2 += np.abs(np.einsum("nnc->nc", nn)).sum()
    if np.abs(tot2).max() > 1e-9 * sc2:
        ctx.fail(f"internal Berry curvature summed over a partition {labels.tolist()} of the bands is {tot2.tolist()}",
                 dict(case, k=k, labels=labels))


def case_ahc_above(ctx, case):
    """run(): internal AHC on an Efermi grid that ends above all bands"""
    from ..wbsys import rand_system, wb
    rs = np.random.RandomState(case["seed"])
    nw = case["nw"]
    with quiet():
        s = rand_system(rs, num_wann=nw, nR=int(rs.randint(3, 7)), max_R=int(rs.randint(1, 3)), matrices=("Ham", "AA"))
        if case["doubled"]:
            s.double_spin()
    H = s.get_R_mat("Ham")
    bound = float(sum(np.linalg.norm(H[i], 2) for i in range(H.shape[0]))) + 0.5
    nef = int(rs.randint(5, 14))
    Ef = np.linspace(-bound, bound, nef)
    NKFFT = np.array(s.NKFFT_recommended)
    NK = NKFFT * np.array([int(rs.randint(1, 3)) for _ in range(3)])
    kw = dict(Efermi=Ef, kwargs_formula={"external_terms": False}, tetra=case["tetra"],
              degen_thresh=case["degen_thresh"], degen_Kramers=case["doubled"] and case["kramers"])
    with quiet():
        grid = wb.Grid(s, NK=NK, NKFFT=NKFFT)
        res = wb.run(s, grid=grid, calculators={"ahc": wb.calculators.static.AHC(**kw)}, parallel=False,
                     print_Kpoints=False, symmetrize=False)
    d = res.results["ahc"].data
    from wannierberri.factors import factor_ahc
    scale = np.abs(d).max() + abs(factor_ahc) / s.cell_volume
    ctx.case(signature=("ahc", case["seed"], nw, case["doubled"], case["tetra"], case["degen_thresh"]),
             nontrivial=np.abs(d[:-1]).max() > 1e-6 * scale)
    if np.abs(d[-1]).max() > 1e-9 * scale:
        ctx.fail(f"internal AHC with the Fermi level above all bands is {d[-1].tolist()} (largest value on the "
                 f"Efermi grid {np.abs(d).max():.3e})", dict(case, Efermi=Ef, NK=NK, ahc=d))
    if np.abs(d[0]).max() > 1e-9 * scale:
        ctx.fail(f"internal AHC with the Fermi level below all bands is {d[0].tolist()}", dict(case, Efermi=Ef, NK=NK))


def tune_spectrum(s, k0, modify):
    """add a k-independent Hermitian on-site term to the Hamiltonian so that H(k0) keeps its eigenvectors and gets
    the eigenvalues modify(e); returns the new eigenvalues at k0"""
    iR = np.array(s.rvec.iRvec)
    H = np.array(s.get_R_mat("Ham"))
    ph = np.exp(2j * np.pi * iR.dot(np.array(k0, dtype=float)))
    Hk = np.einsum("r,rab->ab", ph, H)
    Hk = 0.5 * (Hk + Hk.conj().T)
    e, U = np.linalg.eigh(Hk)
    e2 = np.array(modify(e.copy()), dtype=float)
    H[s.rvec.iR0] += (U * (e2 - e)[None, :]) @ U.conj().T
    s.set_R_mat("Ham", H, reset=True)
    return e2


def case_sea_edge(ctx, case):
    """the lowest Fermi level lies inside / at a (near-)degenerate multiplet of a grid k-point: the groups traced by
    the Fermi-sea calculators must still partition the bands (internal AHC above all bands = 0, CumDOS = NB)"""
    from ..wbsys import rand_system, wb
    from wannierberri.calculators import static as S
    rs = np.random.RandomState(case["seed"])
    nw, m, delta = case["nw"], case["m"], case["delta"]
    with quiet():
        s = rand_system(rs, num_wann=nw, nR=int(rs.randint(3, 6)), max_R=1, matrices=("Ham", "AA"))
    i0 = int(rs.randint(0, nw - m + 1))

    def modify(e):
        for j in range(1, m):
            e[i0 + j] = e[i0] + j * delta
        for j in range(i0 + m, len(e)):
            e[j] = max(e[j], e[i0 + m - 1] + 0.5)
        return e
    k0 = np.zeros(3)
    e2 = tune_spectrum(s, k0, modify)
    if case["doubled"]:
        with quiet():
            s.double_spin()
        e2 = np.repeat(e2, 2)
        i0 = 2 * i0
    NB = s.num_wann
    where = case["where"]
    if where == "between":
        ef0 = 0.5 * (e2[i0] + e2[i0 + 1])
    elif where == "at_lower":
        ef0 = e2[i0]
    elif where == "at_upper":
        ef0 = e2[i0 + 1]
    else:
        ef0 = e2[i0] + 0.25 * (e2[i0 + 1] - e2[i0])
    H = s.get_R_mat("Ham")
    bound = float(sum(np.linalg.norm(H[i], 2) for i in range(H.shape[0]))) + 1.0
    Ef = np.linspace(ef0, max(bound, ef0 + 1.0), int(rs.randint(4, 9)))
    NKFFT = np.array(s.NKFFT_recommended)
    NK = NKFFT * np.array([int(rs.randint(1, 3)) for _ in range(3)])
    kw = dict(Efermi=Ef, degen_thresh=case["degen_thresh"], degen_Kramers=bool(case["doubled"] and case["kramers"]))
    with quiet():
        grid = wb.Grid(s, NK=NK, NKFFT=NKFFT)
        res = wb.run(s, grid=grid, parallel=False, print_Kpoints=False, symmetrize=False, calculators={
            "ahc": S.AHC(kwargs_formula={"external_terms": False}, **kw), "cumdos": S.CumDOS(**kw)})
    d = res.results["ahc"].data
    cum = res.results["cumdos"].data
    from wannierberri.factors import factor_ahc
    scale = np.abs(d).max() + abs(factor_ahc) / s.cell_volume
    ctx.case(signature=("sea", case["seed"], nw, m, delta, case["doubled"], where, case["degen_thresh"]), nontrivial=True)
    info = dict(case, Efermi=Ef, NK=NK, levels_at_Gamma=e2)
    if abs(cum[-1] - NB) > 1e-9 or cum.max() > NB + 1e-9 or np.any(np.diff(cum) < -1e-9):
        ctx.fail(f"CumDOS with the lowest Fermi level {ef0!r} at a multiplet of Gamma: top value {cum[-1]!r} for {NB} bands "
                 f"(states counted twice or lost at the lower edge of the Fermi list)", dict(info, cumdos=cum))
    if np.abs(d[-1]).max() > 1e-9 * scale:
        ctx.fail(f"internal AHC above all bands is {d[-1].tolist()} when the lowest Fermi level {ef0!r} lies at a "
                 f"multiplet of Gamma (degen_thresh={case['degen_thresh']}): the band groups do not partition the bands",
                 dict(info, ahc_top=d[-1], ahc_max=np.abs(d).max()))


# ---- independent Chern-number reference (no wannierberri formula involved) ----------------------

def fhs_chern(Hk, nocc, n=36):
    """Fukui-Hatsugai-Suzuki: C = -(1/2pi) sum_plaquettes arg( U1(k) U2(k+1) conj(U1(k+2)) conj(U2(k)) ) with
    U_mu(k) = det <u_occ(k)|u_occ(k+mu)>, A = i<u|du>, Omega = d1 A2 - d2 A1.  Returns (C, minimal direct gap)."""
    ks = np.arange(n) / n
    vecs = np.empty((n, n), dtype=object)
    gap = np.inf
    for i, k1 in enumerate(ks):
        for j, k2 in enumerate(ks):
            e, v = np.linalg.eigh(Hk(k1, k2))
            vecs[i, j] = v[:, :nocc]
            gap = min(gap, e[nocc] - e[nocc - 1])
    tot = 0.0
    for i in range(n):
        for j in range(n):
            u00, u10, u11, u01 = vecs[i, j], vecs[(i + 1) % n, j], vecs[(i + 1) % n, (j + 1) % n], vecs[i, (j + 1) % n]
            p = (np.linalg.det(u00.conj().T @ u10) * np.linalg.det(u10.conj().T @ u11)
                 * np.linalg.det(u11.conj().T @ u01) * np.linalg.det(u01.conj().T @ u00))
            tot += np.angle(p)
    return -tot / (2 * np.pi), gap


def haldane_Hk(delta, hop1, hop2, phi):
    """H(k) of the Haldane model written from the hopping list of models.Haldane_ptb/_tbm (periodic gauge):
    amplitude t from orbital i in cell 0 to orbital j in cell R enters H_ij(k) as t*exp(2 pi i k.R), plus h.c."""
    t2 = hop2 * np.exp(1j * phi)
    hops = [(hop1, 0, 1, (0, 0)), (hop1, 1, 0, (1, 0)), (hop1, 1, 0, (0, 1)),
            (t2, 0, 0, (1, 0)), (t2, 1, 1, (1, -1)), (t2, 1, 1, (0, 1)),
            (np.conj(t2), 1, 1, (1, 0)), (np.conj(t2), 0, 0, (1, -1)), (np.conj(t2), 0, 0, (0, 1))]

    def Hk(k1, k2):
        H = np.zeros((2, 2), dtype=complex)
        for t, i, j, R in hops:
            ph = np.exp(2j * np.pi * (k1 * R[0] + k2 * R[1]))
            H[i, j] += t * ph
            H[j, i] += np.conj(t * ph)
        H[0, 0] += -delta
        H[1, 1] += delta
        return H
    return Hk


def sysR_Hk(s):
    """H(k) from the real-space Hamiltonian of a System_R by a plain Fourier sum (2D, periodic gauge)"""
    iR = np.array(s.rvec.iRvec)
    H = np.array(s.get_R_mat("Ham"))

    def Hk(k1, k2):
        ph = np.exp(2j * np.pi * (iR[:, 0] * k1 + iR[:, 1] * k2))
        M = np.einsum("r,rab->ab", ph, H)
        return 0.5 * (M + M.conj().T)
    return Hk


def embed_2d(s, lattice):
    """the same 2D tight-binding model (same reduced R vectors, matrices and reduced centres) as a hand-built System_R
    with periodic=(True, True, False) and an arbitrary real lattice: in-plane vectors a1, a2 (z = 0, a1 x a2 along +z)
    and a third vector a3 of any length, perpendicular or tilted"""
    from wannierberri.system.system_R import System_R
    from wannierberri.fourier.rvectors import Rvectors
    lattice = np.array(lattice, dtype=float)
    new = System_R(periodic=(True, True, False), name="embedded2d", silent=True,
                   force_internal_terms_only=bool(s.force_internal_terms_only))
    new.set_real_lattice(real_lattice=lattice)
    new.num_wann = s.num_wann
    new.spinor = False
    red = np.array(s.wannier_centers_red)
    new.set_wannier_centers(wannier_centers_red=red)
    new.rvec = Rvectors(lattice=new.real_lattice, iRvec=np.array(s.rvec.iRvec), shifts_left_red=red, dim=2)
    for key in s._XX_R:
        new.set_R_mat(key, np.array(s.get_R_mat(key)))
    new.do_at_end_of_init()
    return new


def case_chern(ctx, case):
    from ..wbsys import wb
    import wannierberri.models as M
    from scipy.constants import elementary_charge as e, h
    rs = np.random.RandomState(case["seed"])
    p = dict(delta=case["delta"], hop1=case["hop1"], hop2=case["hop2"], phi=case["phi"])
    with quiet():
        if case["builder"] == "ptb":
            s = wb.system.System_PythTB(M.Haldane_ptb(**p))
        else:
            s = wb.system.System_TBmodels(M.Haldane_tbm(**p))
    Hk = haldane_Hk(**p)
    if case["perturb"]:
        # random Hermitian perturbation of the Hamiltonian on the existing R vectors and random Hermitian
        # external-term matrices AA: the total AHC must stay quantised (the external part is a total derivative)
        with quiet():
            HR = s.get_R_mat("Ham")
            dH = (rs.uniform(-1, 1, HR.shape) + 1j * rs.uniform(-1, 1, HR.shape)) * case["perturb"]
            dH = 0.5 * (dH + s.rvec.conj_XX_R(dH))
            s.set_R_mat("Ham", HR + dH, reset=True)
            AA = (rs.uniform(-1, 1, HR.shape + (3,)) + 1j * rs.uniform(-1, 1, HR.shape + (3,))) * 0.3
            AA = 0.5 * (AA + s.rvec.conj_XX_R(AA))
            s.set_R_mat("AA", AA, reset=True)
            s.force_internal_terms_only = False
        Hk = sysR_Hk(s)
    lat = case.get("lattice")
    if lat is not None:
        # H(k) in reduced coordinates - hence the reference Chern number - does not depend on the embedding
        with quiet():
            s = embed_2d(s, lat)
    Cref, gap = fhs_chern(Hk, 1, n=case.get("nfhs", 30))
    Cint = int(round(Cref))
    # analytic phase diagram of the unperturbed model: |C| = 1 iff |delta| < 3 sqrt(3) |hop2 sin(phi)|
    crit = 3 * np.sqrt(3) * abs(p["hop2"] * np.sin(p["phi"]))
    if not case["perturb"]:
        want_abs = 1 if abs(p["delta"]) < crit else 0
        if abs(Cint) != want_abs or abs(Cref - Cint) > 1e-6:
            ctx.note(f"reference Chern number {Cref} disagrees with the phase diagram for {p}; case skipped")
            return
    if gap < 0.25 or abs(Cref - Cint) > 1e-6:
        ctx.count("oracle.chern.skipped_small_gap")
        return
    # Fermi level in the middle of the gap (the extrema of the two bands from the reference spectrum)
    n = 24
    ee = np.array([np.linalg.eigvalsh(Hk(a / n, b / n)) for a in range(n) for b in range(n)])
    ef = 0.5 * (ee[:, 0].max() + ee[:, 1].min())
    if ee[:, 1].min() - ee[:, 0].max() < 0.2:
        ctx.count("oracle.chern.skipped_no_global_gap")
        return
    NK = case["NK"]
    top = float(ee.max()) + 1.0
    Efs = np.array([ef, top])
    with quiet():
        grid = wb.Grid(s, NK=(NK, NK, 1), NKFFT=(case["NKFFT"], case["NKFFT"], 1))
        res = wb.run(s, grid=grid, parallel=False, print_Kpoints=False, symmetrize=False, calculators={
            "ahc": wb.calculators.static.AHC(Efermi=Efs), "cumdos": wb.calculators.static.CumDOS(Efermi=Efs),
            "dos": wb.calculators.static.DOS(Efermi=np.linspace(float(ee.min()) - 0.5, top, 21))})
    d = res.results["ahc"].data[0]
    L = np.array(s.real_lattice)
    area = np.linalg.norm(np.cross(L[0], L[1]))
    c_ang = abs(np.linalg.det(L)) / area          # out-of-plane lattice constant: cell volume / in-plane cell area
    c_m = c_ang * 1e-10
    val = d[2] * c_m / (e ** 2 / h)
    cum = res.results["cumdos"].data
    if abs(cum[0] - 1) > 1e-9 or abs(cum[1] - 2) > 1e-9:
        ctx.fail(f"CumDOS per cell of the two-band 2D model is {cum.tolist()} (expected 1 in the gap, 2 above all bands); "
                 f"out-of-plane lattice constant {c_ang:.4f}", dict(case, cumdos=cum, lattice=L))
    dos = res.results["dos"]
    dsum = float(np.sum(dos.data) * (dos.Energies[0][1] - dos.Energies[0][0])) if hasattr(dos, "Energies") else None
    if dsum is not None and abs(dsum - 2) > 0.05:
        ctx.fail(f"DOS per cell integrates to {dsum:.4f} states for a two-band model (out-of-plane lattice constant "
                 f"{c_ang:.4f})", dict(case, lattice=L))
    ctx.count("oracle.chern.embedded_c!=1" if abs(c_ang - 1) > 1e-6 else "oracle.chern.c=1")
    ctx.count(f"oracle.chern.C={Cint}")
    ctx.case(signature=("chern", case["builder"], tuple(sorted(p.items())), case["perturb"], case["seed"]),
             nontrivial=True)
    # sigma_xy = AHC_z = -(e^2/hbar) int [dk] Omega_z  =>  AHC_z * c = -C e^2/h
    if abs(val - (-Cint)) > 0.02:
        ctx.fail(f"AHC_z*c/(e^2/h) = {val:.5f} but the Chern number of the occupied band is {Cint} "
                 f"(expected {-Cint} within 2 %); gap {gap:.3f}", dict(case, ahc=d, Efermi=ef, chern_ref=Cref))
    if np.abs(d[:2]).max() * c_m / (e ** 2 / h) > 0.02:
        ctx.fail(f"in-plane components of the AHC vector of a 2D model are not zero: {d.tolist()}", dict(case, ahc=d))


def case_reuse(ctx, case):
    """history: the SAME calculator objects are used in several run() calls on embeddings of one 2D model with different
    cell volumes and on grids with different NKFFT; every result must equal that of fresh calculators and the
    quantised value"""
    from ..wbsys import wb
    import wannierberri.models as M
    from wannierberri.calculators import static as S
    from scipy.constants import elementary_charge as e, h
    p = dict(delta=case["delta"], hop1=case["hop1"], hop2=case["hop2"], phi=case["phi"])
    with quiet():
        base = (wb.system.System_PythTB(M.Haldane_ptb(**p)) if case["builder"] == "ptb"
                else wb.system.System_TBmodels(M.Haldane_tbm(**p)))
    Hk = haldane_Hk(**p)
    Cref, gap = fhs_chern(Hk, 1, n=24)
    Cint = int(round(Cref))
    n = 24
    ee = np.array([np.linalg.eigvalsh(Hk(a / n, b / n)) for a in range(n) for b in range(n)])
    if gap < 0.25 or abs(Cref - Cint) > 1e-6 or ee[:, 1].min() - ee[:, 0].max() < 0.2:
        ctx.count("oracle.reuse.skipped_small_gap")
        return
    ef = 0.5 * (ee[:, 0].max() + ee[:, 1].min())
    Efs = np.array([ef, float(ee.max()) + 1.0])
    Egrid = np.linspace(float(ee.min()) - 0.5, float(ee.max()) + 1.0, 21)

    def make():
        return {"ahc": S.AHC(Efermi=Efs), "cumdos": S.CumDOS(Efermi=Efs), "dos": S.DOS(Efermi=Egrid),
                "ahc_int": S.AHC(Efermi=Efs, kwargs_formula={"external_terms": False})}
    shared = make()
    ctx.case(signature=("reuse", case["builder"], tuple(sorted(p.items())), repr(case["steps"])), nontrivial=len(case["steps"]) > 1)
    for istep, (lat, nkfft, mult) in enumerate(case["steps"]):
        with quiet():
            s = embed_2d(base, lat) if lat is not None else base
            NK = nkfft * mult
            res = []
            for calcs in (shared, make()):
                grid = wb.Grid(s, NK=(NK, NK, 1), NKFFT=(nkfft, nkfft, 1))
                res.append(wb.run(s, grid=grid, calculators=calcs, parallel=False, print_Kpoints=False, symmetrize=False))
        L = np.array(s.real_lattice)
        c_ang = abs(np.linalg.det(L)) / np.linalg.norm(np.cross(L[0], L[1]))
        info = dict(case, step=istep, lattice=L, NKFFT=nkfft, NK=NK, cell_volume=float(s.cell_volume))
        for name in res[0].results:
            a, b = res[0].results[name].data, res[1].results[name].data
            if np.abs(a - b).max() > 1e-10 * (np.abs(b).max() + 1e-30):
                ctx.fail(f"step {istep}: {name} from a calculator object already used in earlier run() calls differs from a "
                         f"fresh calculator's: ratio {np.abs(a).max() / (np.abs(b).max() + 1e-300):.6f} (cell volume "
                         f"{s.cell_volume:.4f}, NKFFT {nkfft})", dict(info, calculator=name, reused=a, fresh=b))
        val = res[0].results["ahc"].data[0][2] * c_ang * 1e-10 / (e ** 2 / h)
        if abs(val - (-Cint)) > 0.02:
            ctx.fail(f"step {istep}: AHC_z*c/(e^2/h) = {val:.5f} from a reused AHC calculator, Chern number {Cint} "
                     f"(expected {-Cint})", dict(info, ahc=res[0].results["ahc"].data))
        cum = res[0].results["cumdos"].data
        if abs(cum[0] - 1) > 1e-9 or abs(cum[1] - 2) > 1e-9:
            ctx.fail(f"step {istep}: CumDOS from a reused calculator is {cum.tolist()} (expected [1, 2])", dict(info, cumdos=cum))


def case_bigk(ctx, case):
    """one Data_K with nk k-points: dEig_inv, |D_H| and the tabulated Berry curvature at sampled k-points (random, first,
    last few) equal the values computed one k-point at a time"""
    from ..wbsys import rand_system, wb
    import wannierberri.models as M
    from wannierberri.data_K import get_data_k_class_from_system
    from wannierberri.calculators import tabulate as T
    rs = np.random.RandomState(case["seed"])
    with quiet():
        if case["system"] == "haldane":
            s = wb.system.System_PythTB(M.Haldane_ptb(delta=0.2, hop1=-1.0, hop2=0.15, phi=np.pi / 2))
        else:
            s = rand_system(rs, num_wann=3, nR=4, max_R=1, matrices=("Ham", "AA"))
        NKFFT = np.array(case["NKFFT"])
        grid = wb.Grid(s, NK=NKFFT, NKFFT=NKFFT)
        cls = get_data_k_class_from_system(s)
        dk = cls(s, grid=grid, dK=np.zeros(3))
        tabs = {"O": T.BerryCurvature(), "Oi": T.BerryCurvature(kwargs_formula={"external_terms": False}), "E": T.Energy()}
        big = {k_: t(dk).data for k_, t in tabs.items()}
        dei = np.array(dk.dEig_inv)
        dh = np.abs(np.array(dk.D_H))
        kpts = np.array(dk.kpoints_all)
    nk = len(kpts)
    ctx.case(signature=("bigk", case["system"], tuple(case["NKFFT"]), case["seed"]), nontrivial=True)
    ctx.count(f"oracle.bigk.nk={nk}")
    sample = sorted(set([0, nk - 1, max(nk - 2, 0), max(nk - 3, 0), nk // 2, (nk * 3) // 4]
                        + [int(rs.randint(nk)) for _ in range(case.get("nsample", 4))]))
    grid1 = None
    for ik in sample:
        k = kpts[ik]
        with quiet():
            if grid1 is None:
                grid1 = wb.Grid(s, NK=1, NKFFT=1)
            d1 = cls(s, grid=grid1, dK=k)
            one = {k_: t(d1).data[0] for k_, t in tabs.items()}
            dei1 = np.array(d1.dEig_inv)[0]
            dh1 = np.abs(np.array(d1.D_H))[0]
        info = dict(case, nk=nk, ik=ik, k=k)
        gapmin = np.abs(np.diff(one["E"])).min()
        if gapmin < 1e-3:
            continue
        tol = 1e-8 * max(1.0, 1e-2 / gapmin ** 2)
        for name, a, b in (("dEig_inv", dei[ik], dei1), ("|D_H|", dh[ik], dh1), ("energy", big["E"][ik], one["E"]),
                           ("berry_curvature", big["O"][ik], one["O"]), ("berry_curvature_internal", big["Oi"][ik], one["Oi"])):
            sc = 1.0 + max(np.abs(a).max(), np.abs(b).max())
            if np.abs(a - b).max() > tol * sc:
                ctx.fail(f"{name} at k-point number {ik} of a Data_K with {nk} k-points (NKFFT {list(case['NKFFT'])}) differs "
                         f"from the value computed for that k-point alone by {np.abs(a - b).max():.3e}",
                         dict(info, quantity=name, in_grid=a, alone=b))


def case_chern_kp(ctx, case):
    """a lattice-periodic two-band k.p model H(k) = d(k).sigma (SystemKP, derivatives by the code's own finite
    differences or analytic) in any 2D embedding: AHC_z * c = -C e^2/h with C from the independent FHS reference"""
    from ..wbsys import wb
    from wannierberri.system import SystemKP
    from scipy.constants import elementary_charge as e, h
    sx = np.array([[0, 1], [1, 0]], dtype=complex)
    sy = np.array([[0, -1j], [1j, 0]], dtype=complex)
    sz = np.diag([1.0, -1.0]).astype(complex)
    ax, ay, m_, c1, c2, t0 = case["coef"]
    twopi = 2 * np.pi

    def Hred(k):
        return (ax * np.sin(twopi * k[0]) * sx + ay * np.sin(twopi * k[1]) * sy
                + (m_ + c1 * np.cos(twopi * k[0]) + c2 * np.cos(twopi * k[1])) * sz
                + t0 * np.cos(twopi * (k[0] + k[1])) * np.eye(2))
    L = np.array(case["lattice"], dtype=float)
    # SystemKP needs finite-difference shells of the reciprocal lattice (find_shells) even with analytic derivatives;
    # for ~2 % of generic lattices find_shells itself fails (TypeError) - reported separately as a finding of the
    # constructor, outside C27: such a system cannot be built, so the lattice is replaced by its orthogonalised cell
    from wannierberri.system.__finite_differences import find_shells
    try:
        with quiet():
            find_shells(2 * np.pi * np.linalg.inv(L).T * 1e-4)
    except TypeError:
        ctx.count("oracle.chern_kp.lattice_rejected_by_find_shells")
        ctx.note(f"SystemKP cannot be constructed for lattice {L.tolist()} (find_shells raises TypeError)")
        L = np.diag([L[0, 0], L[1, 1], L[2, 2]])
    Cref, gap = fhs_chern(lambda a, b: Hred([a, b, 0.0]), 1, n=24)
    Cint = int(round(Cref))
    n = 24
    ee = np.array([np.linalg.eigvalsh(Hred([a / n, b / n, 0.0])) for a in range(n) for b in range(n)])
    if gap < 0.3 or abs(Cref - Cint) > 1e-6 or ee[:, 1].min() - ee[:, 0].max() < 0.25:
        ctx.count("oracle.chern_kp.skipped_small_gap")
        return
    ef = 0.5 * (ee[:, 0].max() + ee[:, 1].min())
    Efs = np.array([ef, float(ee.max()) + 1.0])
    kw = {}
    if case["analytic"]:
        Linv = np.linalg.inv(2 * np.pi * np.linalg.inv(L).T)     # k_red = k_cart . recip^-1

        def dHred(k):
            d1 = twopi * (ax * np.cos(twopi * k[0]) * sx - c1 * np.sin(twopi * k[0]) * sz - t0 * np.sin(twopi * (k[0] + k[1])) * np.eye(2))
            d2 = twopi * (ay * np.cos(twopi * k[1]) * sy - c2 * np.sin(twopi * k[1]) * sz - t0 * np.sin(twopi * (k[0] + k[1])) * np.eye(2))
            dred = np.stack([d1, d2, np.zeros((2, 2), dtype=complex)], axis=-1)      # derivative w.r.t. reduced k
            return np.einsum("mni,ai->mna", dred, Linv)                               # -> Cartesian
        kw["derHam"] = dHred
    with quiet():
        s = SystemKP(Ham=Hred, kmax=None, real_lattice=L, k_vector_cartesian=False, finite_diff_dk=1e-4, **kw)
        NK, F_ = case["NK"], case["NKFFT"]
        grid = wb.Grid(s, NK=(NK, NK, 1), NKFFT=(F_, F_, 1))
        res = wb.run(s, grid=grid, parallel=False, print_Kpoints=False, symmetrize=False, calculators={
            "ahc": wb.calculators.static.AHC(Efermi=Efs), "cumdos": wb.calculators.static.CumDOS(Efermi=Efs)})
    d = res.results["ahc"].data
    c_ang = abs(np.linalg.det(L)) / np.linalg.norm(np.cross(L[0], L[1]))
    val = d[0][2] * c_ang * 1e-10 / (e ** 2 / h)
    ctx.count(f"oracle.chern_kp.C={Cint}")
    ctx.case(signature=("chern_kp", tuple(case["coef"]), case["analytic"], case["NK"]), nontrivial=True)
    info = dict(case, chern_ref=Cref, gap=gap, Efermi=Efs, ahc=d)
    if abs(val - (-Cint)) > 0.02:
        ctx.fail(f"k.p model (SystemKP, {'analytic' if case['analytic'] else 'finite-difference'} derivatives): "
                 f"AHC_z*c/(e^2/h) = {val:.5f} but the Chern number of the occupied band is {Cint} (expected {-Cint})", info)
    scale = np.abs(d).max() + 1.0
    if np.abs(d[1]).max() > 1e-6 * scale:
        ctx.fail(f"k.p model: AHC above all bands is {d[1].tolist()}", info)
    cum = res.results["cumdos"].data
    if abs(cum[0] - 1) > 1e-9 or abs(cum[1] - 2) > 1e-9:
        ctx.fail(f"k.p model: CumDOS per cell is {cum.tolist()} (expected [1, 2])", info)


RUNNERS = {"chern_kp": case_chern_kp, "bigk": case_bigk, "reuse": case_reuse, "sumk": case_sumrule_k, "ahc": case_ahc_above, "chern": case_chern, "sea": case_sea_edge}


def gen_lattice_2d(rng):
    """in-plane cell of any shape (a1 x a2 along +z), third vector of length 0.5-4 Angstrom, perpendicular or tilted"""
    l1, l2 = rng.uniform(0.7, 3.0), rng.uniform(0.7, 3.0)
    sh = rng.choice([0.5, 0.0, -0.3, rng.uniform(-0.8, 0.8)]) * l1
    c = rng.choice([2.5, 0.5, 4.0, rng.uniform(0.5, 4.0)])
    tilt = [0.0, 0.0] if rng.random() < 0.6 else [rng.uniform(-0.6, 0.6), rng.uniform(-0.6, 0.6)]
    return [[l1, 0.0, 0.0], [sh, l2, 0.0], [tilt[0], tilt[1], c]]


def gen_nk(rng):
    """(NK, NKFFT) with NK adequate for the quantisation and the size of ONE FFT grid anywhere from 36 to ~4400 k-points"""
    kind = rng.random()
    if kind < 0.35:
        f = rng.choice([6, 7, 9, 12])
        return f * rng.choice([5, 6]), f
    f = rng.choice([33, 40, 50, 65]) if kind < 0.7 else rng.randint(30, 66)
    return f, f


def gen_chern_case(rng):
    hop2 = rng.choice([0.15, 0.1, 0.2, 0.3]) * rng.choice([1, -1])
    phi = rng.choice([np.pi / 2, -np.pi / 2, np.pi / 3, -2 * np.pi / 3, 0.7, 2.2, -1.1])
    crit = 3 * np.sqrt(3) * abs(hop2 * np.sin(phi))
    topo = rng.random() < 0.6
    delta = crit * rng.choice([0.0, 0.2, 0.45, -0.3]) if topo else crit * rng.choice([1.8, -2.0, 2.5]) + 0.0
    return dict(kind="chern", seed=rng.getrandbits(31), builder=rng.choice(["ptb", "tbm"]), delta=float(delta),
                hop1=rng.choice([-1.0, 1.0, -0.8]), hop2=float(hop2), phi=float(phi),
                perturb=rng.choice([0, 0, 0.03, 0.06]), **dict(zip(("NK", "NKFFT"), gen_nk(rng))),
                lattice=(gen_lattice_2d(rng) if rng.random() < 0.7 else None))


def oracle(ctx, scale):
    rng = ctx.rng
    cases = []
    for _ in range(ctx.n(16, 200) * scale):
        cases.append(dict(kind="sumk", seed=rng.getrandbits(31), nw=rng.randint(2, 6), doubled=rng.random() < 0.25))
    for _ in range(ctx.n(5, 60) * scale):
        # the tetrahedron variant costs a numba compilation (10-40 s on a loaded machine): thorough tier only
        cases.append(dict(kind="ahc", seed=rng.getrandbits(31), nw=rng.randint(2, 5), doubled=rng.random() < 0.25,
                          tetra=(ctx.tier == "thorough" and rng.random() < 0.3), kramers=rng.random() < 0.5,
                          degen_thresh=rng.choice([1e-4, -1, 0.05, 0.3])))
    for _ in range(ctx.n(10, 80) * scale):
        dbl = rng.random() < 0.35
        delta = 0.0 if dbl else rng.choice([0.0, 5e-5, 2e-5, 0.02, 0.004])
        cases.append(dict(kind="sea", seed=rng.getrandbits(31), nw=rng.randint(2, 4) if dbl else rng.randint(3, 5),
                          m=1 if dbl else rng.choice([2, 2, 3]), delta=delta, doubled=dbl, kramers=rng.random() < 0.5,
                          where=rng.choice(["between", "at_lower", "at_upper", "quarter"]),
                          degen_thresh=(rng.choice([1e-4, 0.05]) if delta < 1e-4 else 0.05)))
    # the default models of models.py in both builders are always included
    for b in ("ptb", "tbm"):
        cases.append(dict(kind="chern", seed=1, builder=b, delta=0.2, hop1=-1.0, hop2=0.15, phi=np.pi / 2, perturb=0,
                          NK=36, NKFFT=6))
    cases.append(dict(kind="chern", seed=2, builder="ptb", delta=1.5, hop1=-1.0, hop2=0.15, phi=np.pi / 2, perturb=0,
                      NK=36, NKFFT=6))
    # the default model embedded with a different vacuum thickness / in-plane cell (hexagonal cell kept, c = 2.5)
    cases.append(dict(kind="chern", seed=3, builder="tbm", delta=0.2, hop1=-1.0, hop2=0.15, phi=np.pi / 2, perturb=0,
                      NK=36, NKFFT=6, lattice=[[1.0, 0.0, 0.0], [0.5, np.sqrt(3) / 2, 0.0], [0.0, 0.0, 2.5]]))
    cases.append(dict(kind="chern", seed=4, builder="ptb", delta=0.2, hop1=-1.0, hop2=0.15, phi=-np.pi / 2, perturb=0.03,
                      NK=36, NKFFT=6, lattice=gen_lattice_2d(rng)))
    # single FFT grids of 1600 and 2500 k-points (one Data_K per run)
    cases.append(dict(kind="chern", seed=5, builder="ptb", delta=0.2, hop1=-1.0, hop2=0.15, phi=np.pi / 2, perturb=0,
                      NK=40, NKFFT=40))
    cases.append(dict(kind="chern", seed=6, builder="tbm", delta=0.2, hop1=-1.0, hop2=0.15, phi=-np.pi / 2, perturb=0,
                      NK=50, NKFFT=50, lattice=gen_lattice_2d(rng)))
    shapes = {1: (1, 1, 1), 7: (7, 1, 1), 1023: (33, 31, 1), 1024: (32, 32, 1), 1025: (41, 25, 1), 2049: (683, 3, 1),
              3000: (50, 60, 1)}
    for nk in NK_SIZES:
        cases.append(dict(kind="bigk", seed=rng.getrandbits(31), system="haldane" if nk > 1025 or rng.random() < 0.5 else "random",
                          NKFFT=list(shapes[nk])))
    for _ in range(ctx.n(1, 8) * scale):
        a, b = rng.randint(3, 70), rng.randint(3, 70)
        cases.append(dict(kind="bigk", seed=rng.getrandbits(31), system="haldane", NKFFT=[a, b, 1]))
    for _ in range(ctx.n(4, 40) * scale):
        cases.append(gen_chern_case(rng))
    for _ in range(ctx.n(2, 10) * scale):
        hop2 = rng.choice([0.15, 0.2, -0.15])
        phi = rng.choice([np.pi / 2, -np.pi / 2, 0.7])
        crit = 3 * np.sqrt(3) * abs(hop2 * np.sin(phi))
        steps = []
        for _i in range(rng.randint(2, 3)):
            steps.append((gen_lattice_2d(rng) if rng.random() < 0.75 else None, rng.choice([4, 6, 9]), rng.choice([4, 6])))
        cases.append(dict(kind="reuse", builder=rng.choice(["ptb", "tbm"]), delta=float(crit * rng.choice([0.0, 0.3, 2.0])),
                          hop1=-1.0, hop2=float(hop2), phi=float(phi), steps=steps))
    for it in range(ctx.n(4, 30) * scale):
        topo = rng.random() < 0.7
        c1, c2 = rng.choice([1.0, 0.8, -1.0]), rng.choice([1.0, 1.2, -0.9])
        m_ = (rng.choice([0.6, -0.5, 1.0, -1.1]) if topo else rng.choice([3.0, -3.2])) * 1.0
        cases.append(dict(kind="chern_kp", coef=[rng.choice([1.0, -1.0, 0.7]), rng.choice([1.0, -1.0, 1.3]), m_, c1, c2,
                                                rng.choice([0.0, 0.1, -0.15])],
                          lattice=gen_lattice_2d(rng), analytic=(it % 2 == 1), NK=rng.choice([36, 48]),
                          NKFFT=rng.choice([4, 6, 12])))
    for case in cases:
        ctx.count(f"oracle.{case['kind']}")
        with ctx.attempt(f"{case['kind']} case", case):
            RUNNERS[case["kind"]](ctx, case)


def replay(ctx, case):
    """re-run the recorded failing cases (each case carries its own seed and parameters)"""
    fails = case.get("failures", [])
    for f in fails:
        c = f.get("case", {})
        if isinstance(c, dict) and c.get("kind") in RUNNERS:
            keys = {"sumk": ("kind", "seed", "nw", "doubled"),
                    "ahc": ("kind", "seed", "nw", "doubled", "tetra", "kramers", "degen_thresh"),
                    "chern": ("kind", "seed", "builder", "delta", "hop1", "hop2", "phi", "perturb", "NK", "NKFFT", "lattice"),
                    "sea": ("kind", "seed", "nw", "m", "delta", "doubled", "kramers", "where", "degen_thresh"),
                    "reuse": ("kind", "builder", "delta", "hop1", "hop2", "phi", "steps"),
                    "bigk": ("kind", "seed", "system", "NKFFT"),
                    "chern_kp": ("kind", "coef", "lattice", "analytic", "NK", "NKFFT")}[c["kind"]]
            cc = {k: c[k] for k in keys if k in c}
            print("replaying", cc)
            RUNNERS[c["kind"]](ctx, cc)
    if not fails:
        oracle(ctx, 1)
