"""C20 - real-space symmetrisation yields a symmetric, Hermitian model."""
import copy
import random

import numpy as np

from ..common import intss, parse_ints, quiet

PID = "C20"
CLAIM = dict(
    design="3/C20",
    technique="Lean 4 proof (generic finite-group averaging; the marking loop of find_irreducible_Rab over an abstract "
              "finite action) + exact differential correspondence of the irreducible (R,a,b) search on real symmetrizers "
              "+ property oracle on the real symmetrize for random models in several space groups",
    text="Theorems: (A) for every number of points and every listed set of operations whose reachability relation is "
         "symmetric and transitive (a group acting on a closed (R,a,b) set; Mathlib MulAction corollary), the marking "
         "loop keeps exactly the first point in iteration order of every orbit - one representative per orbit; "
         "(B) for every finite group acting additively on any space of real-space matrices (antiunitary operations "
         "included: scalars K may be the reals), the average (1/|G|) sum_g g.X is invariant under every g, fixes "
         "invariant objects, is idempotent, and commutes with every additive map commuting with the action - in "
         "particular with X(R) -> X(-R)^dagger, which is shown to commute with X -> D X(sR) D^dagger and with its "
         "time-reversed form.  PARTIAL: that average_XX_block/_rotate_XX_L_backwards implement that average "
         "(orbital rotation matrices, back rotation, spinor factors, I/TR parities) is checked on the real code "
         "(E(gk)=E(k), Berry curvature and spin covariance for every g, Hermiticity, centre map, idempotence), "
         "not proved.",
    note="Trusted: Lean kernel + Mathlib; the harness; irrep.SpaceGroup (operations, translations, TR flags) as the "
         "definition of 'the resulting group'; numpy eigh; evaluate_k for the Berry curvature.",
)
TRUSTED = [
    "modelled and proved: the marking loop of SymWann.find_irreducible_Rab over an abstract finite (partial) action; "
    "generic group averaging (projection, idempotence, commutation with the Hermitian-conjugate reflection)",
    "PARTIAL / checked only: average_XX_block, _rotate_XX_L_backwards, SymmetrizerSAWF.set_D_wann_from_projections, "
    "Dwann (atom maps, T vectors, orbital rotation matrices), symmetrize_WCC, System_R.symmetrize/symmetrize2 glue",
    "irrep.SpaceGroup / spglib supply the group (rotations in lattice coordinates, translations, time-reversal flags)",
    "the oracle's k-space quantities: energies, spin and the gauge-invariant rank-2 band tensors of AA and SS from an own "
    "Fourier sum of the symmetrised matrices (all operations); Berry curvature from wannierberri.evaluate_k (internal+"
    "external terms); degenerate groups are compared as a whole",
    "the action table handed to the Lean model is assembled by the harness from the real get_atom_R_map/index_R/atommap",
]
RULE = ("random Hermitian models (wbsys.rand_system: 4-10 random R-vectors, random centres) symmetrised with the real "
        "System_R.symmetrize for structures covering cubic, tetragonal, hexagonal/trigonal (screw axis), orthorhombic, "
        "triclinic (inversion only), zincblende, magnetic (ferro- and antiferromagnetic, TR-combined operations) groups, "
        "orbitals s/p/d and hybrids, several sites, with and without spinor; non-trivial = group order > 2; "
        "distinct = distinct (structure, sub-seed)")


# ---------------------------------------------------------------------------------------------------------------
# structures

def _hex(a=1.0, c=1.3):
    return np.array([[a, 0, 0], [-a / 2, a * np.sqrt(3) / 2, 0], [0, 0, c]])


def structures(rng):
    """catalogue: name -> dict(lat, pos, names, proj, soc, magmom, weight)   (random free parameters from rng)"""
    ca = rng.choice([1.2, 1.35, 1.5])
    u = rng.choice([0.22, 0.27, 0.31])
    b, c = rng.choice([(1.15, 1.4), (1.3, 0.8)])
    x = rng.choice([0.13, 0.21])
    fcc = np.ones(3) - np.eye(3)
    bcc = 0.5 * np.array([[1, 1, -1], [1, -1, 1], [-1, 1, 1.]])
    S = {
        "sc_s": dict(lat=np.eye(3), pos=[[0, 0, 0]], names=["X"], proj=["X:s"], soc=False, heavy=1),
        "sc_p": dict(lat=np.eye(3), pos=[[0, 0, 0]], names=["X"], proj=["X:p"], soc=False, heavy=1),
        "sc_sp_soc": dict(lat=np.eye(3), pos=[[0, 0, 0]], names=["X"], proj=["X:s", "X:p"], soc=True, heavy=2),
        "tet_AB_s_p": dict(lat=np.diag([1, 1, ca]), pos=[[0, 0, 0], [.5, .5, .5]], names=["A", "B"],
                           proj=["A:s", "B:p"], soc=False, heavy=1),
        "tet_A_d": dict(lat=np.diag([1, 1, ca]), pos=[[0, 0, 0]], names=["A"], proj=["A:d"], soc=False, heavy=1),
        "Te_s": dict(lat=_hex(1, ca), pos=[[u, 0, 0], [0, u, 1 / 3], [-u, -u, 2 / 3]], names=["Te"] * 3,
                     proj=["Te:s"], soc=False, heavy=1),
        "Te_p": dict(lat=_hex(1, ca), pos=[[u, 0, 0], [0, u, 1 / 3], [-u, -u, 2 / 3]], names=["Te"] * 3,
                     proj=["Te:p"], soc=False, heavy=2),
        "Te_p_soc": dict(lat=_hex(1, ca), pos=[[u, 0, 0], [0, u, 1 / 3], [-u, -u, 2 / 3]], names=["Te"] * 3,
                         proj=["Te:p"], soc=True, heavy=3),
        "hex_2site_pz": dict(lat=_hex(1, ca), pos=[[1 / 3, 2 / 3, 0], [2 / 3, 1 / 3, 0]], names=["C", "C"],
                             proj=["C:pz"], soc=False, heavy=1),
        "hcp_s": dict(lat=_hex(1, 1.63), pos=[[1 / 3, 2 / 3, .25], [2 / 3, 1 / 3, .75]], names=["M", "M"],
                      proj=["M:s"], soc=True, heavy=1),
        "bcc_Fe_mag_s": dict(lat=bcc, pos=[[0, 0, 0]], names=["Fe"], proj=["Fe:s"], soc=True, magmom=[[0, 0, 1.]], heavy=1),
        "bcc_Fe_mag_p": dict(lat=bcc, pos=[[0, 0, 0]], names=["Fe"], proj=["Fe:p"], soc=True, magmom=[[0, 0, 1.]], heavy=2),
        "bcc_Fe_mag111_t2g": dict(lat=bcc, pos=[[0, 0, 0]], names=["Fe"], proj=["Fe:t2g"], soc=True,
                                  magmom=[[1., 1., 1.]], heavy=2),
        "afm_tet": dict(lat=np.diag([1, 1, ca]), pos=[[0, 0, 0], [.5, .5, .5]], names=["M", "M"], proj=["M:s"], soc=True,
                        magmom=[[0, 0, 1.], [0, 0, -1.]], heavy=1),
        "afm_inplane": dict(lat=np.diag([1, b, c]), pos=[[0, 0, 0], [.5, .5, 0]], names=["M", "M"], proj=["M:s"], soc=True,
                            magmom=[[1., 0, 0], [-1., 0, 0]], heavy=1),
        "ortho_pair": dict(lat=np.diag([1, b, c]), pos=[[x, 0, 0], [-x, 0, 0]], names=["X", "X"], proj=["X:s"],
                           soc=False, heavy=1),
        "P-1": dict(lat=np.array([[1, 0.1, 0.2], [0.05, 1.2, 0.1], [0.1, 0.2, 0.9]]), pos=[[.1, .2, .3], [-.1, -.2, -.3]],
                    names=["X", "X"], proj=["X:s"], soc=rng.random() < 0.5, heavy=1),
        "P1": dict(lat=np.array([[1, 0.1, 0.2], [0.05, 1.2, 0.1], [0.1, 0.2, 0.9]]), pos=[[.1, .2, .3], [.4, .15, .7]],
                   names=["X", "Y"], proj=["X:s", "Y:s"], soc=False, heavy=1),
        "zb_sp3": dict(lat=fcc, pos=[[0, 0, 0], [.25, .25, .25]], names=["Ga", "As"], proj=["Ga:sp3", "As:sp3"],
                       soc=False, heavy=3),
        "zb_s_p": dict(lat=fcc, pos=[[0, 0, 0], [.25, .25, .25]], names=["Ga", "As"], proj=["Ga:s", "As:p"],
                       soc=False, heavy=2),
        "diamond_s": dict(lat=fcc, pos=[[-.125, -.125, -.125], [.125, .125, .125]], names=["C", "C"], proj=["C:s"],
                          soc=True, heavy=2),
        "diamond_bonds": dict(lat=fcc, pos=[[0, 0, .5], [.5, 0, 0], [0, .5, 0], [0, 0, 0]], names=["b"] * 4,
                              proj=["b:s"], soc=False, heavy=2),
        "zb_sp3_soc": dict(lat=fcc, pos=[[0, 0, 0], [.25, .25, .25]], names=["Ga", "As"], proj=["Ga:sp3", "As:sp3"],
                           soc=True, heavy=9),
        "bcc_Fe_mag_sp3d2_t2g": dict(lat=bcc, pos=[[0, 0, 0]], names=["Fe"], proj=["Fe:sp3d2;t2g"], soc=True,
                                     magmom=[[0, 0, 1.]], heavy=9),
    }
    return S


def num_wann_of(st):
    from wannierberri.symmetry.orbitals import num_orbitals
    n = 0
    for pr in st["proj"]:
        at, orb = [z.strip() for z in pr.split(":")]
        n += num_orbitals(orb) * sum(1 for z in st["names"] if z == at)
    return n * (2 if st["soc"] else 1)


def build_symmetrized(name, st, sub_seed, nR=None):
    """random Hermitian model -> real System_R.symmetrize.  returns (system, symmetrizer, system before symmetrisation)"""
    from .. import wbsys
    rs = np.random.RandomState(sub_seed % (2 ** 31))
    nw = num_wann_of(st)
    nR = int(rs.randint(4, 11)) if nR is None else nR
    mats = ("Ham", "AA", "SS") if st["soc"] else ("Ham", "AA")
    with quiet():
        s = wbsys.rand_system(rs, num_wann=nw, nR=nR, max_R=int(rs.choice([1, 1, 2])), lattice=np.array(st["lat"], dtype=float),
                              matrices=mats)
    s0 = copy.deepcopy(s)
    kw = {}
    if st.get("magmom") is not None:
        kw["magmom"] = st["magmom"]
    with quiet():
        sym = s.symmetrize(proj=list(st["proj"]), atom_name=list(st["names"]), positions=np.array(st["pos"], dtype=float),
                           soc=st["soc"], **kw)
    return s, sym, s0


# ---------------------------------------------------------------------------------------------------------------
# independent reference computations

def group_ops(sym, lattice):
    """operations of the space group as (W, t, TR, Rcart, det): r' = W r + t in lattice coordinates"""
    L = np.array(lattice, dtype=float)
    Linv = np.linalg.inv(L)
    out = []
    for op in sym.spacegroup.symmetries:
        W = np.array(op.rotation, dtype=int)
        t = np.array(op.translation, dtype=float)
        Rc = L.T @ W @ Linv.T
        out.append(dict(W=W, t=t, TR=bool(op.time_reversal), Rc=Rc, det=round(np.linalg.det(W))))
    return out


def k_image(g, k):
    """reduced coordinates of g k:  k' = (W^-1)^T k, with the extra sign of time reversal"""
    kk = np.linalg.inv(g["W"]).T @ k
    return -kk if g["TR"] else kk


def axial_image(g, v):
    """transformed axial, TR-odd band vector (Berry curvature, spin): det(R) R v, sign flipped by TR"""
    out = g["det"] * (v @ g["Rc"].T)
    return -out if g["TR"] else out


def fourier(system, key, k):
    X = system.get_R_mat(key)
    ph = np.exp(2j * np.pi * (system.rvec.iRvec @ k))
    return np.tensordot(ph, X, axes=(0, 0))


def own_bands(system, k, spin):
    """gauge-invariant band quantities from an own Fourier sum of the real-space matrices.
    Degenerate groups (gap < 1e-7) are treated as a whole.  Returns
      E        energies
      S        spin expectation values (group mean), or None
      T        dict key -> (nb,2,3,3): for the vector operators X = AA (and SS) the tensors
               T_in^{ab}  = Re sum_{n,m in G} X^a_nm X^b_mn / |G|   and
               T_out^{ab} = Re sum_{n in G, m not in G} X^a_nm X^b_mn / |G|   (G the degenerate group of the band);
               they transform as rank-2 tensors under every operation and do not vanish in PT-symmetric systems,
               where the Berry curvature and the mean spin are identically zero
      gap      smallest gap between different groups"""
    H = fourier(system, "Ham", k)
    E, U = np.linalg.eigh(0.5 * (H + H.conj().T))
    nb = len(E)
    groups, cur = [], [0]
    for i in range(1, nb):
        if E[i] - E[i - 1] < 1e-7:
            cur.append(i)
        else:
            groups.append(cur)
            cur = [i]
    groups.append(cur)
    S = None
    T = {}
    for key in (["AA", "SS"] if spin else ["AA"]):
        Xk = fourier(system, key, k)
        Xb = np.einsum("mi,mnc,nj->ijc", U.conj(), Xk, U)
        if key == "SS":
            S = np.real(np.einsum("iic->ic", Xb)).copy()
            for gr in groups:
                S[gr] = S[gr].mean(axis=0)
        Tk = np.zeros((nb, 2, 3, 3))
        for gr in groups:
            rest = [m for m in range(nb) if m not in gr]
            t_in = np.real(np.einsum("nma,mnb->ab", Xb[np.ix_(gr, gr)], Xb[np.ix_(gr, gr)])) / len(gr)
            t_out = np.real(np.einsum("nma,mnb->ab", Xb[np.ix_(gr, rest)], Xb[np.ix_(rest, gr)])) / len(gr)
            Tk[gr, 0] = t_in
            Tk[gr, 1] = t_out
        T[key] = Tk
    gaps = [E[g2[0]] - E[g1[-1]] for g1, g2 in zip(groups, groups[1:])]
    return E, S, T, (min(gaps) if gaps else 1.0)


def tensor2_image(g, T):
    """transformed rank-2 tensor per band: R T R^T (even under inversion and time reversal)"""
    return np.einsum("ia,...ab,jb->...ij", g["Rc"], T, g["Rc"])


def hermiticity_defect(system, key):
    X = system.get_R_mat(key)
    idx = {tuple(int(v) for v in r): i for i, r in enumerate(system.rvec.iRvec)}
    worst = 0.0
    for r, i in idx.items():
        j = idx.get(tuple(-v for v in r))
        A = X[i]
        B = np.zeros_like(A) if j is None else X[j]
        Bd = np.conj(np.swapaxes(B, 0, 1))
        worst = max(worst, np.abs(A - Bd).max())
    return worst


def matrices_diff(s1, s2):
    """max difference of all real-space matrices of two systems over the union of their R-vector sets"""
    i1 = {tuple(int(v) for v in r): i for i, r in enumerate(s1.rvec.iRvec)}
    i2 = {tuple(int(v) for v in r): i for i, r in enumerate(s2.rvec.iRvec)}
    worst = 0.0
    for key in s1._XX_R:
        X1, X2 = s1.get_R_mat(key), s2.get_R_mat(key)
        for r in set(i1) | set(i2):
            a = X1[i1[r]] if r in i1 else 0
            b = X2[i2[r]] if r in i2 else 0
            worst = max(worst, np.abs(a - b).max())
    return worst


KF_WCC = "C20-wcc-orbital-mixing"


def mixes_orbitals(sym):
    """input class of the known finding: some operation rotates the orbitals of a site by a matrix that is not a
    (signed / phased) permutation, i.e. has an entry with 0 < |D_ij|^2 < 1"""
    for rot in sym.rot_orb_list:
        w = np.abs(np.asarray(rot)) ** 2
        if np.any((w > 1e-6) & (w < 1 - 1e-6)):
            return True
    return False


def centre_map_defect(system, ops):
    """every operation must map the set of Wannier centres onto itself modulo lattice vectors (bijectively)"""
    c = system.wannier_centers_red
    worst = 0.0
    for g in ops:
        img = c @ g["W"].T + g["t"][None, :]
        used = set()
        for p in img:
            d = c - p[None, :]
            d = np.abs(d - np.round(d)).max(axis=1)
            order = np.argsort(d)
            j = next((int(q) for q in order if int(q) not in used and d[q] < 1e-6), None)
            if j is None:
                free = [q for q in range(len(c)) if q not in used]
                worst = max(worst, float(d[free].min()) if free else 1.0)
            else:
                used.add(j)
                worst = max(worst, float(d[j]))
    return worst


# ---------------------------------------------------------------------------------------------------------------
# oracle

def check_structure(ctx, name, st, sub_seed, n_k, max_g, scale_note=""):
    import wannierberri as wb
    info = dict(structure=name, sub_seed=sub_seed, proj=st["proj"], soc=st["soc"], magmom=st.get("magmom"),
                positions=st["pos"], lattice=np.array(st["lat"]).tolist())
    with ctx.attempt(f"symmetrize({name})", info):
        s, sym, s0 = build_symmetrized(name, st, sub_seed)
        ops = group_ops(sym, s.real_lattice)
        nsym = len(ops)
        rs = np.random.RandomState((sub_seed // 7) % (2 ** 31))
        scaleH = max(1.0, np.abs(s.get_R_mat("Ham")).max())
        ctx.count(f"oracle.structure.{name}")
        ctx.count(f"oracle.nsym={nsym}")
        ctx.count("oracle.spinor" if st["soc"] else "oracle.spinless")
        if st.get("magmom") is not None:
            ctx.count("oracle.magnetic")
        if any(g["TR"] and not np.allclose(g["W"], np.eye(3)) for g in ops):
            ctx.count("oracle.has_TR_combined_ops")
        if any(np.abs(g["t"]).max() > 1e-6 for g in ops):
            ctx.count("oracle.nonsymmorphic_or_centred")
        ctx.case(signature=(name, sub_seed), nontrivial=nsym > 2)
        # known finding: the centre averaging is not a projection when operations mix orbitals; only the checks that
        # depend on the centres are attributed to it, the matrix-level checks below stay unguarded
        kf_c = KF_WCC if mixes_orbitals(sym) else None
        if kf_c:
            ctx.count("oracle.class.orbital_mixing_operations")
        centres_ok = True
        worst = ctx.__dict__.setdefault("_c20_worst", dict(herm=0.0, centre=0.0, E=0.0, S=0.0, Omega_rel=0.0, idem=0.0))
        # --- the symmetrisation must have changed something (the input was random)
        # --- Hermiticity
        for key in sorted(s._XX_R):
            d = hermiticity_defect(s, key)
            worst["herm"] = max(worst["herm"], d)
            if not d < 1e-10 * scaleH:
                ctx.fail(f"{name}: {key}(-R) != {key}(R)^dagger after symmetrize: max defect {d:.3e}", info)
                return
        # --- centres
        d = centre_map_defect(s, ops)
        if d < 1e-7:
            worst["centre"] = max(worst["centre"], d)
        if not d < 1e-7:
            ctx.fail(f"{name}: Wannier centres are not mapped onto each other by the group: defect {d:.3e}",
                     dict(info, centres=s.wannier_centers_red), kf=kf_c)
            centres_ok = False
            if not (kf_c and kf_c in ctx.known):
                return
        # --- k-space covariance, own Fourier sums: energies and spin, ALL operations, several k
        for ik in range(n_k):
            for attempt in range(20):
                k = rs.uniform(-0.5, 0.5, 3)
                E0, S0, T0, gap = own_bands(s, k, st["soc"])
                if gap > 2e-2:
                    break
            for ig, g in enumerate(ops):
                kg = k_image(g, k)
                E1, S1, T1, _ = own_bands(s, kg, st["soc"])
                dE = np.abs(E1 - E0).max()
                worst["E"] = max(worst["E"], dE)
                if not dE < 1e-9 * scaleH:
                    ctx.fail(f"{name}: E(gk) != E(k) for operation {ig} (TR={g['TR']}): max diff {dE:.3e}",
                             dict(info, k=k, gk=kg, W=g["W"], t=g["t"], TR=g["TR"], E_k=E0, E_gk=E1))
                    return
                for key in T0:
                    dT = np.abs(T1[key] - tensor2_image(g, T0[key])).max()
                    worst["T_" + key] = max(worst.get("T_" + key, 0.0), dT)
                    if not dT < 1e-8 * max(1.0, np.abs(T0[key]).max()) / min(1.0, gap * 50):
                        ctx.fail(f"{name}: the band tensor sum_m Re({key}^a_nm {key}^b_mn) at gk is not R T(k) R^T for "
                                 f"operation {ig} (TR={g['TR']}, det={g['det']}): max diff {dT:.3e} "
                                 f"(scale {np.abs(T0[key]).max():.2e})",
                                 dict(info, k=k, gk=kg, W=g["W"], t=g["t"], TR=g["TR"]))
                        return
                if S0 is not None:
                    dS = np.abs(S1 - axial_image(g, S0)).max()
                    worst["S"] = max(worst["S"], dS)
                    if not dS < 1e-8 * max(1.0, np.abs(S0).max()):
                        ctx.fail(f"{name}: spin at gk is not the transformed spin at k for operation {ig} "
                                 f"(TR={g['TR']}, det={g['det']}): max diff {dS:.3e}",
                                 dict(info, k=k, gk=kg, W=g["W"], t=g["t"], TR=g["TR"], S_k=S0, S_gk=S1))
                        return
        # --- Berry curvature (and energy, spin) through evaluate_k at one k, for up to max_g operations
        quantities = ["energy", "berry_curvature"] + (["spin"] if st["soc"] else [])
        with quiet():
            r0 = wb.evaluate_k(s, k=np.array(k), quantities=quantities, return_single_as_dict=True)
        sel = list(range(nsym))
        if nsym > max_g:
            sel = sorted(rs.choice(nsym, max_g, replace=False).tolist())
        scO = max(1.0, np.abs(r0["berry_curvature"]).max())
        for ig in sel:
            g = ops[ig]
            kg = k_image(g, k)
            with quiet():
                r1 = wb.evaluate_k(s, k=np.array(kg), quantities=quantities, return_single_as_dict=True)
            dE = np.abs(r1["energy"] - r0["energy"]).max()
            dO = np.abs(r1["berry_curvature"] - axial_image(g, r0["berry_curvature"])).max()
            ctx.count("oracle.evaluate_k_pairs")
            if centres_ok:
                worst["Omega_rel"] = max(worst["Omega_rel"], dO / scO)
            if not dE < 1e-9 * scaleH:
                ctx.fail(f"{name}: evaluate_k energy(gk) != energy(k) for operation {ig}: {dE:.3e}",
                         dict(info, k=k, gk=kg, TR=g["TR"], W=g["W"]))
                return
            if not dO < 1e-9 * scO * max(1.0, (2e-2 / gap) ** 2):
                ctx.fail(f"{name}: Berry curvature at gk is not the transformed curvature at k for operation {ig} "
                         f"(TR={g['TR']}, det={g['det']}): max diff {dO:.3e} (scale {scO:.2e}, min gap {gap:.2e})",
                         dict(info, k=k, gk=kg, W=g["W"], t=g["t"], TR=g["TR"], Omega_k=r0["berry_curvature"],
                              Omega_gk=r1["berry_curvature"]), kf=None if centres_ok else kf_c)
                if centres_ok or not (kf_c and kf_c in ctx.known):
                    return
                break
            if st["soc"]:
                dS = np.abs(r1["spin"] - axial_image(g, r0["spin"])).max()
                if not dS < 1e-8 * max(1.0, np.abs(r0["spin"]).max()):
                    ctx.fail(f"{name}: evaluate_k spin at gk is not the transformed spin at k for operation {ig}: {dS:.3e}",
                             dict(info, k=k, gk=kg, TR=g["TR"], W=g["W"]))
                    return
        # --- idempotence: symmetrising again changes nothing
        s2 = copy.deepcopy(s)
        with quiet():
            s2.symmetrize2(sym)
        d = matrices_diff(s, s2)
        dc = np.abs(s.wannier_centers_cart - s2.wannier_centers_cart).max()
        worst["idem"] = max(worst["idem"], d, dc if centres_ok else 0.0)
        if not d < 1e-10 * scaleH:
            ctx.fail(f"{name}: symmetrising the symmetrised system again changes its matrices by {d:.3e}", info)
            return
        if not dc < 1e-10 * scaleH:
            ctx.fail(f"{name}: symmetrising the symmetrised system again moves the Wannier centres by {dc:.3e}", info,
                     kf=None if centres_ok else kf_c)
            return
        # --- and the symmetrisation did something: the random input was not symmetric
        if nsym > 1 and matrices_diff(s0, s) < 1e-6:
            ctx.note(f"{name}: symmetrisation left the random input unchanged (suspicious)")
        if len(ctx.samples) < 3:
            ctx.sample(dict(structure=name, num_wann=s.num_wann, group_order=nsym, nR_after=int(s.rvec.nRvec),
                            spinor=st["soc"], magnetic=st.get("magmom") is not None))


def pick_structures(ctx, rng, scale):
    """quick tier: a stratified sample (one magnetic, one non-magnetic spinor, one with fractional translations, one
    further light structure, one medium one); thorough tier: the whole catalogue"""
    S = structures(rng)
    names = list(S)
    if ctx.tier == "quick":
        light = [n for n in names if S[n]["heavy"] <= 1]
        mid = [n for n in names if S[n]["heavy"] in (2, 3)]
        chosen = []
        for _ in range(scale):
            mag = [n for n in light if S[n].get("magmom") is not None]
            spinor = [n for n in light if S[n]["soc"] and S[n].get("magmom") is None]
            frac = [n for n in ("Te_s", "hcp_s", "afm_tet", "hex_2site_pz") if n in light]
            pick = [rng.choice(mag), rng.choice(spinor), rng.choice(frac)]
            rest = [n for n in light if n not in pick]
            pick += rng.sample(rest, 1) + [rng.choice(mid)]
            chosen += list(dict.fromkeys(pick))
    else:
        chosen = names * (3 * scale)      # three independent random models per structure
    return S, chosen


def oracle(ctx, scale):
    rng = ctx.rng
    S, chosen = pick_structures(ctx, rng, scale)
    for name in chosen:
        sub = rng.getrandbits(40)
        check_structure(ctx, name, S[name], sub, n_k=ctx.n(2, 4), max_g=ctx.n(6, 200))
        if ctx.failures and not ctx.searching:
            break
    w = ctx.__dict__.get("_c20_worst")
    if w:
        ctx.note("worst deviations: " + ", ".join(f"{k}={v:.2e}" for k, v in w.items()))


# ---------------------------------------------------------------------------------------------------------------
# correspondence: the irreducible (R,a,b) search, model vs code

def action_tables(sw, block1, block2):
    """tables x -> image index (or -1) for every operation, x = (a*np2 + b)*nR + iR, from the real helper functions"""
    np1 = sw.num_points_list_left[block1]
    np2 = sw.num_points_list_right[block2]
    nR = sw.nRvec
    map1 = sw.symmetrizer_left.atommap_list[block1]
    map2 = sw.symmetrizer_right.atommap_list[block2]
    tables = []
    for isym in sw.use_symmetries_index:
        arm = sw.get_atom_R_map(sw.iRvec, isym, block1, block2)
        tbl = []
        for a in range(np1):
            for b in range(np2):
                a1, b1 = int(map1[a, isym]), int(map2[b, isym])
                for iR in range(nR):
                    iR1 = sw.index_R(arm[iR, a, b])
                    tbl.append(-1 if iR1 is None else (a1 * np2 + b1) * nR + iR1)
        tables.append(tbl)
    return tables, np1, np2, nR


def orbit_minima(tables, N):
    """independent reference for closed sets: minima of the connected components of the action graph"""
    parent = list(range(N))

    def find(x):
        while parent[x] != x:
            parent[x] = parent[parent[x]]
            x = parent[x]
        return x
    for tbl in tables:
        for x, y in enumerate(tbl):
            if y >= 0:
                rx, ry = find(x), find(y)
                if rx != ry:
                    parent[max(rx, ry)] = min(rx, ry)
    return sorted({find(x) for x in range(N)})


def corr(ctx):
    from wannierberri.symmetry.sym_wann_2 import SymWann
    rng = ctx.rng
    S = structures(rng)
    light = [n for n in S if S[n]["heavy"] <= (1 if ctx.tier == "quick" else 3)]
    chosen = rng.sample(light, min(len(light), ctx.n(3, 12)))
    lines, expect, tags = [], [], []
    for name in chosen:
        st = S[name]
        sub = rng.getrandbits(40)
        with ctx.attempt(f"symmetrize({name}) for the irreducible-set correspondence", dict(structure=name, sub_seed=sub)):
            s, sym, s0 = build_symmetrized(name, st, sub, nR=rng.choice([2, 3]))   # small sets keep the tables small
            for label, iRvec in (("closed", s.rvec.iRvec), ("open", s0.rvec.iRvec)):
                # after symmetrisation the R set is closed under the group; the raw random set is not
                with quiet():
                    sw = SymWann(symmetrizer=sym, iRvec=iRvec, silent=True)
                variants = [list(sw.use_symmetries_index)]
                if label == "open" and len(sw.use_symmetries_index) > 2:
                    for _ in range(2):      # operation lists that are not groups, in scrambled order
                        kk = rng.randint(1, len(sw.use_symmetries_index) - 1)
                        variants.append(rng.sample(list(sw.use_symmetries_index), kk))
                nbl = sw.num_blocks_left
                for iv, use in enumerate(variants):
                    sw.use_symmetries_index = use
                    for b1 in range(nbl):
                        for b2 in range(nbl):
                            tables, np1, np2, nR = action_tables(sw, b1, b2)
                            N = np1 * np2 * nR
                            if N * len(tables) > 25000:
                                ctx.count("corr.skipped_large")
                                continue
                            got = sw.find_irreducible_Rab(block1=b1, block2=b2)
                            code = sorted((a * np2 + b) * nR + iR for (a, b), v in got.items() for iR in v)
                            lines.append(f"irr {N} {intss(tables)}")
                            expect.append(code)
                            closed = all(y >= 0 for t in tables for y in t)
                            full = iv == 0
                            tags.append((name, label + ("" if full else f".subset{iv}"), b1, b2, N, len(tables), closed,
                                         tables if closed and full and label == "closed" else None))
                            ctx.count(f"corr.irr.{label}" + ("" if full else ".op_subset")
                                      + (".closed_set" if closed else ".partial_maps"))
    out = ctx.lean(lines)
    for l, o, e, t in zip(lines, out, expect, tags):
        ctx.case(signature=(t[:6], o), nontrivial=t[5] > 2)
        model = parse_ints(o)
        if model != e:
            ctx.mismatch(f"find_irreducible_Rab {t[:6]}: model keeps {model[:20]}..., code keeps {e[:20]}...",
                         dict(structure=t[0], set=t[1], blocks=t[2:4], N=t[4], nops=t[5]))
        elif t[7] is not None:
            # hypotheses of the theorem hold (full group, closed set): the code's answer is one minimum per orbit
            ref = orbit_minima(t[7], t[4])
            if ref != e:
                ctx.fail(f"find_irreducible_Rab on a closed set with the full group does not keep exactly the first "
                         f"point of every orbit ({t[0]}, blocks {t[2:4]}): kept {len(e)}, orbits {len(ref)}",
                         dict(structure=t[0], blocks=t[2:4], kept=e[:30], orbit_minima=ref[:30]))
            ctx.count("corr.irr.equals_orbit_minima")
    if lines:
        i = min(range(len(lines)), key=lambda j: len(lines[j]))
        ctx.sample(dict(protocol_line=lines[i][:400], model=out[i][:200], code=str(expect[i])[:200], tag=str(tags[i][:7])))


def replay(ctx, rec):
    done = set()
    for fl in rec.get("failures", []):
        c = fl.get("case", {})
        if "structure" in c and "sub_seed" in c and (c["structure"], c["sub_seed"]) not in done:
            done.add((c["structure"], c["sub_seed"]))
            # the catalogue's free parameters are part of the recorded case
            st = dict(lat=np.array(c["lattice"]), pos=c["positions"], proj=c["proj"], soc=c["soc"], magmom=c.get("magmom"),
                      names=None)
            S = structures(random.Random(0))
            st["names"] = S[c["structure"]]["names"]
            print(f"replaying {c['structure']} sub_seed={c['sub_seed']} proj={c['proj']} soc={c['soc']} magmom={c.get('magmom')}")
            check_structure(ctx, c["structure"], st, int(c["sub_seed"]), n_k=2, max_g=200)
    if not done:
        oracle(ctx, 1)
