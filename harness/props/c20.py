"""C20 - real-space symmetrisation yields a symmetric, Hermitian model."""
import copy
import random

import numpy as np

from ..common import F, intss, ints, ratss, rat, parse_ints, parse_ratss, quiet

PID = "C20"
CLAIM = dict(
    design="3/C20",
    technique="Lean 4 proof (the marking loop of find_irreducible_Rab over an abstract finite action; generic finite-group "
              "averaging with explicit normalisation; the block formula of average_XX_block/_rotate_XX_L_backwards over an "
              "abstract (co)representation proved to BE that average) + exact differential correspondence (irreducible "
              "(R,a,b) search; the real average_XX_block against the executable block formula on exact input) + numeric "
              "check of the theorem's hypotheses on the real Dwann data + property oracle on the real symmetrize for random "
              "models in many space groups, entry points and options",
    text="Theorems: (A) for every number of points and every listed set of operations whose reachability relation is "
         "symmetric and transitive (a group acting on a closed (R,a,b) set; Mathlib MulAction corollary), the marking "
         "loop keeps exactly the first point in iteration order of every orbit - one representative per orbit; "
         "(B) for every finite group acting additively on any space of real-space matrices (antiunitary operations "
         "included), the average (1/|G|) sum_g g.X is invariant under every g, fixes invariant objects, is idempotent, and "
         "commutes with every additive map commuting with the action, in particular X(R) -> X(-R)^dagger; the sum over "
         "the selected operations divided by a count n is idempotent iff n is the number of operations summed over; "
         "(C) average_block_is_group_average: the block formula the code evaluates, X'(R,a,b)_i = (1/|S|) sum_g "
         "conj^{tr g}( sum_j Rc(g)_{ji} D_a(g)^dagger X(gR + T(g,a) - T(g,b), ga, gb)_j D_b(g) ), with the back rotation of "
         "Cartesian indices, the T1-T2 lattice shift, TR conjugation and the I/TR parity signs, IS that average for the "
         "action g.X = pull(g^-1) X, under explicit hypotheses (atom maps are group actions; translation cocycle; "
         "D(gh,a) = w(g,h) D(g,ha) conj^{tr g} D(h,a) with a unimodular phase common to the blocks; real Cartesian "
         "representation; tr a homomorphism) - hence it is invariant, idempotent and preserves Hermiticity; the "
         "executable entry formula compared with the code is proved equal to the entries of pull.",
    note="Trusted: Lean kernel + Mathlib; the harness; irrep.SpaceGroup (operations, translations, TR flags) as the "
         "definition of 'the resulting group'; numpy eigh; evaluate_k for the Berry curvature.  The hypotheses of (C) are "
         "CHECKED numerically on the rot_orb / atommap / T arrays of every tested symmetrizer, not proved for Dwann. "
         "PARTIAL (checked only): Dwann / set_D_wann_from_projections produce a representation; the two-pass driver "
         "SymWann.symmetrize (new R-vectors, mode 'single', assembly over blocks); symmetrize_WCC; System_R glue. "
         "The oracle covers every public entry point, the public System_R.reorder() applied to the symmetrised system, and "
         "the option space (reorder_back, checked against the default result in the original order on structures where "
         "equally named atoms in different Wyckoff orbits are listed interleaved; use_symmetries_index subgroups; cutoff and "
         "cutoff_dict with values taken from the block maxima of the model: the result must equal the cutoff-free "
         "symmetrisation of the input with exactly the sub-cutoff blocks removed, be covariant and stay fixed under a "
         "further symmetrisation) and always refers to the group actually used.  Known findings: centre averaging for "
         "orbital-mixing operations; cutoff>0 raises when a whole symmetry orbit of blocks is below the cutoff.",
)
TRUSTED = [
    "modelled and proved: the marking loop of SymWann.find_irreducible_Rab over an abstract finite (partial) action; "
    "generic group averaging (projection, idempotence, normalisation, commutation with the Hermitian-conjugate reflection); "
    "the per-operation contribution of average_XX_block + _rotate_XX_L_backwards (mode 'sum') and its sum over the operation "
    "list, as a group average over an abstract (co)representation",
    "hypotheses of average_block_is_group_average (BlockRep): checked numerically (1e-10) on rot_orb_list, atommap_list, "
    "T_list, rotation_cart and time_reversal of every symmetrizer the oracle builds; not proved for Dwann",
    "PARTIAL / checked only: SymmetrizerSAWF.set_D_wann_from_projections, Dwann, SymWann.symmetrize (two passes, new "
    "R-vectors, mode 'single', block assembly), symmetrize_WCC, System_R.symmetrize/symmetrize2 glue",
    "irrep.SpaceGroup / spglib supply the group (rotations in lattice coordinates, translations, time-reversal flags)",
    "the oracle's k-space quantities: energies, spin and the gauge-invariant rank-2 band tensors of AA and SS from an own "
    "Fourier sum of the symmetrised matrices (all operations); Berry curvature from wannierberri.evaluate_k (internal+"
    "external terms); degenerate groups are compared as a whole",
    "SystemSOC.symmetrize2 / SystemSOC.from_wannierdata are not driven (they need a full SOC data set); their first step is "
    "System_R.symmetrize2 called directly, which is exercised",
    "the action table and the operation data handed to the Lean model are assembled by the harness from the real "
    "get_atom_R_map/index_R/atommap/T_list/rot_orb_list/rotation_cart; average_XX_block is compared on spinless blocks "
    "(real orbital matrices) so that the model runs in exact rational arithmetic on the same float inputs (tolerance 1e-12)",
]
RULE = ("random Hermitian models (wbsys.rand_system: 4-10 random R-vectors, random centres) symmetrised with the real "
        "System_R.symmetrize for structures covering cubic, tetragonal, hexagonal/trigonal (screw axis), orthorhombic, "
        "triclinic (inversion only), zincblende, magnetic (ferro- and antiferromagnetic, TR-combined operations) groups, "
        "orbitals s/p/d and hybrids, several sites, with and without spinor; each model is symmetrised with the full group "
        "and with subgroups passed as use_symmetries_index (identity only, unitary operations, subgroups generated by 1-2 "
        "random operations) and with cutoff / cutoff_dict at 1e-14 and at the 10/30/50 % quantiles of the block maxima "
        "(structures with p/d shells on 3-/6-fold sites are always in the sample); non-trivial = more than 2 (full) / more than 1 (subgroup) operations; "
        "distinct = distinct (structure, sub-seed, operation list)")


# ---------------------------------------------------------------------------------------------------------------
# structures

def _hex(a=1.0, c=1.3):
    return np.array([[a, 0, 0], [-a / 2, a * np.sqrt(3) / 2, 0], [0, 0, c]])


def structures(rng):
    """catalogue: name -> dict(lat, pos, names, proj, soc, magmom, weight)   (random free parameters from rng)"""
    ca = rng.choice([1.2, 1.35, 1.5])
    u = rng.choice([0.22, 0.27, 0.31])
    b, c = rng.choice([(1.15, 1.4), (1.3, 0.8)])
    x = rng.choice([0.13, 0.21])
    fcc = np.ones(3) - np.eye(3)
    bcc = 0.5 * np.array([[1, 1, -1], [1, -1, 1], [-1, 1, 1.]])
    S = {
        "sc_s": dict(lat=np.eye(3), pos=[[0, 0, 0]], names=["X"], proj=["X:s"], soc=False, heavy=1),
        "sc_p": dict(lat=np.eye(3), pos=[[0, 0, 0]], names=["X"], proj=["X:p"], soc=False, heavy=1),
        "sc_sp_soc": dict(lat=np.eye(3), pos=[[0, 0, 0]], names=["X"], proj=["X:s", "X:p"], soc=True, heavy=2),
        "tet_AB_s_p": dict(lat=np.diag([1, 1, ca]), pos=[[0, 0, 0], [.5, .5, .5]], names=["A", "B"],
                           proj=["A:s", "B:p"], soc=False, heavy=1),
        "tet_A_d": dict(lat=np.diag([1, 1, ca]), pos=[[0, 0, 0]], names=["A"], proj=["A:d"], soc=False, heavy=1),
        "Te_s": dict(lat=_hex(1, ca), pos=[[u, 0, 0], [0, u, 1 / 3], [-u, -u, 2 / 3]], names=["Te"] * 3,
                     proj=["Te:s"], soc=False, heavy=1),
        "Te_p": dict(lat=_hex(1, ca), pos=[[u, 0, 0], [0, u, 1 / 3], [-u, -u, 2 / 3]], names=["Te"] * 3,
                     proj=["Te:p"], soc=False, heavy=2),
        "Te_p_soc": dict(lat=_hex(1, ca), pos=[[u, 0, 0], [0, u, 1 / 3], [-u, -u, 2 / 3]], names=["Te"] * 3,
                         proj=["Te:p"], soc=True, heavy=3),
        # two or three DIFFERENT multi-site blocks whose sites are permuted differently (off-diagonal block pairs)
        "p4mmm_2f_2g": dict(lat=np.diag([1, 1, ca]), pos=[[0, .5, 0], [.5, 0, 0], [0, 0, x], [0, 0, -x]],
                            names=["A", "A", "B", "B"], proj=["A:s", "B:p"], soc=False, heavy=1, multiblock=True),
        "p4mmm_4i_2g": dict(lat=np.diag([1, 1, ca]), pos=[[0, .5, x], [.5, 0, x], [0, .5, -x], [.5, 0, -x], [0, 0, u], [0, 0, -u]],
                            names=["A"] * 4 + ["B"] * 2, proj=["A:s", "B:s"], soc=False, heavy=1, multiblock=True),
        "p4mmm_2g_2f_soc": dict(lat=np.diag([1, 1, ca]), pos=[[0, 0, x], [0, 0, -x], [0, .5, 0], [.5, 0, 0]],
                                names=["B", "B", "A", "A"], proj=["B:s", "A:s"], soc=True, heavy=1, multiblock=True),
        "hex_2c_3f": dict(lat=_hex(1, ca), pos=[[1 / 3, 2 / 3, 0], [2 / 3, 1 / 3, 0], [.5, 0, 0], [0, .5, 0], [.5, .5, 0]],
                          names=["A", "A", "B", "B", "B"], proj=["A:p", "B:s"], soc=False, heavy=2, multiblock=True),
        "sc_3c_3d_1a": dict(lat=np.eye(3), pos=[[0, .5, .5], [.5, 0, .5], [.5, .5, 0], [.5, 0, 0], [0, .5, 0], [0, 0, .5],
                                               [0, 0, 0]],
                            names=["A"] * 3 + ["B"] * 3 + ["C"], proj=["A:s", "B:s", "C:p"], soc=False, heavy=9, multiblock=True),
        "ortho_interleaved_s": dict(lat=np.diag([1, b, c]), pos=[[.25, 0, 0], [0, .5, .3], [.75, 0, 0]], names=["X"] * 3,
                                    proj=["X:s"], soc=False, heavy=1, multiblock=True),
        "p4mmm_interleaved_p": dict(lat=np.diag([1, 1, ca]), pos=[[0, .5, 0], [0, 0, x], [.5, 0, 0], [0, 0, -x]],
                                    names=["X"] * 4, proj=["X:p"], soc=False, heavy=2, multiblock=True),
        "hex_A_p": dict(lat=_hex(1, ca), pos=[[0, 0, 0]], names=["A"], proj=["A:p"], soc=False, heavy=1),
        "hex_AB2_p": dict(lat=_hex(1, ca), pos=[[0, 0, 0], [1 / 3, 2 / 3, 0], [2 / 3, 1 / 3, 0]], names=["A", "B", "B"],
                          proj=["A:p", "B:p"], soc=False, heavy=2),
        "hex_A_d": dict(lat=_hex(1, ca), pos=[[0, 0, 0]], names=["A"], proj=["A:d"], soc=False, heavy=2),
        "hex_2site_pz": dict(lat=_hex(1, ca), pos=[[1 / 3, 2 / 3, 0], [2 / 3, 1 / 3, 0]], names=["C", "C"],
                             proj=["C:pz"], soc=False, heavy=1),
        "hcp_s": dict(lat=_hex(1, 1.63), pos=[[1 / 3, 2 / 3, .25], [2 / 3, 1 / 3, .75]], names=["M", "M"],
                      proj=["M:s"], soc=True, heavy=1),
        "bcc_Fe_mag_s": dict(lat=bcc, pos=[[0, 0, 0]], names=["Fe"], proj=["Fe:s"], soc=True, magmom=[[0, 0, 1.]], heavy=1),
        "bcc_Fe_mag_p": dict(lat=bcc, pos=[[0, 0, 0]], names=["Fe"], proj=["Fe:p"], soc=True, magmom=[[0, 0, 1.]], heavy=2),
        "bcc_Fe_mag111_t2g": dict(lat=bcc, pos=[[0, 0, 0]], names=["Fe"], proj=["Fe:t2g"], soc=True,
                                  magmom=[[1., 1., 1.]], heavy=2),
        "afm_tet": dict(lat=np.diag([1, 1, ca]), pos=[[0, 0, 0], [.5, .5, .5]], names=["M", "M"], proj=["M:s"], soc=True,
                        magmom=[[0, 0, 1.], [0, 0, -1.]], heavy=1),
        "afm_inplane": dict(lat=np.diag([1, b, c]), pos=[[0, 0, 0], [.5, .5, 0]], names=["M", "M"], proj=["M:s"], soc=True,
                            magmom=[[1., 0, 0], [-1., 0, 0]], heavy=1),
        "ortho_pair": dict(lat=np.diag([1, b, c]), pos=[[x, 0, 0], [-x, 0, 0]], names=["X", "X"], proj=["X:s"],
                           soc=False, heavy=1),
        "P-1": dict(lat=np.array([[1, 0.1, 0.2], [0.05, 1.2, 0.1], [0.1, 0.2, 0.9]]), pos=[[.1, .2, .3], [-.1, -.2, -.3]],
                    names=["X", "X"], proj=["X:s"], soc=rng.random() < 0.5, heavy=1),
        "P1": dict(lat=np.array([[1, 0.1, 0.2], [0.05, 1.2, 0.1], [0.1, 0.2, 0.9]]), pos=[[.1, .2, .3], [.4, .15, .7]],
                   names=["X", "Y"], proj=["X:s", "Y:s"], soc=False, heavy=1),
        "zb_sp3": dict(lat=fcc, pos=[[0, 0, 0], [.25, .25, .25]], names=["Ga", "As"], proj=["Ga:sp3", "As:sp3"],
                       soc=False, heavy=3),
        "zb_s_p": dict(lat=fcc, pos=[[0, 0, 0], [.25, .25, .25]], names=["Ga", "As"], proj=["Ga:s", "As:p"],
                       soc=False, heavy=2),
        "diamond_s": dict(lat=fcc, pos=[[-.125, -.125, -.125], [.125, .125, .125]], names=["C", "C"], proj=["C:s"],
                          soc=True, heavy=2),
        "diamond_bonds": dict(lat=fcc, pos=[[0, 0, .5], [.5, 0, 0], [0, .5, 0], [0, 0, 0]], names=["b"] * 4,
                              proj=["b:s"], soc=False, heavy=2),
        "zb_sp3_soc": dict(lat=fcc, pos=[[0, 0, 0], [.25, .25, .25]], names=["Ga", "As"], proj=["Ga:sp3", "As:sp3"],
                           soc=True, heavy=9),
        "bcc_Fe_mag_sp3d2_t2g": dict(lat=bcc, pos=[[0, 0, 0]], names=["Fe"], proj=["Fe:sp3d2;t2g"], soc=True,
                                     magmom=[[0, 0, 1.]], heavy=9),
    }
    return S


def num_wann_of(st):
    from wannierberri.symmetry.orbitals import num_orbitals
    n = 0
    for pr in st["proj"]:
        at, orb = [z.strip() for z in pr.split(":")]
        n += num_orbitals(orb) * sum(1 for z in st["names"] if z == at)
    return n * (2 if st["soc"] else 1)


def touch(system):
    """use the system the way a user does before symmetrising it: evaluate something and read the derived
    (cached) attributes, so that every cache that can be stale is populated before the call"""
    import wannierberri as wb
    _ = np.array(system.wannier_centers_red)
    rv = system.rvec
    for attr in ("cRvec", "cRvec_shifted", "shifts_diff_red", "shifts_diff_cart", "shifts_left_cart",
                 "shifts_right_cart", "iR0", "reverseR"):
        try:
            getattr(rv, attr)
        except Exception:
            pass
    with quiet():
        wb.evaluate_k(system, k=np.array([0.113, -0.271, 0.419]), quantities=["energy", "berry_curvature"],
                      return_single_as_dict=True)


def random_model(rs, nw, lattice, spinor, nR=None):
    from .. import wbsys
    nR = int(rs.randint(4, 11)) if nR is None else nR
    mats = ("Ham", "AA", "SS") if spinor else ("Ham", "AA")
    with quiet():
        return wbsys.rand_system(rs, num_wann=nw, nR=nR, max_R=int(rs.choice([1, 1, 2])),
                                 lattice=np.array(lattice, dtype=float), matrices=mats)


def build_direct(name, st, sub_seed, include_TR=True):
    """the route of examples/sym_wann_2, System_R.from_wannierdata and SystemSOC.symmetrize2: a SymmetrizerSAWF built by
    hand from an irrep.SpaceGroup and Projection objects, then System_R.symmetrize2(symmetrizer) called DIRECTLY on a
    system that has been used before (caches populated) and whose centres are not at symmetric positions.
    Returns (symmetrised system, symmetrizer, raw system)"""
    from irrep.spacegroup import SpaceGroup
    from wannierberri.symmetry.sawf import SymmetrizerSAWF
    from wannierberri.symmetry.projections import Projection
    from wannierberri.symmetry.wyckoff_position import split_into_orbits
    rs = np.random.RandomState((sub_seed + 17) % (2 ** 31))
    names = list(st["names"])
    types = {n: i + 1 for i, n in enumerate(dict.fromkeys(names))}
    pos = np.array(st["pos"], dtype=float)
    kw = dict(magmom=st["magmom"]) if st.get("magmom") is not None else dict(magmom=None)
    with quiet():
        sg = SpaceGroup.from_cell(real_lattice=np.array(st["lat"], dtype=float), positions=pos,
                                  typat=[types[n] for n in names], spinor=st["soc"], include_TR=include_TR, **kw)
        projs = []
        for pr in st["proj"]:
            at, orb = [z.strip() for z in pr.split(":")]
            ploc = np.array([pos[i] for i, n in enumerate(names) if n == at])
            # one Projection per Wyckoff orbit (equally named atoms may belong to different orbits)
            for suborbit in split_into_orbits(ploc, spacegroup=sg):
                projs.append(Projection(position_num=ploc[suborbit], orbital=orb, spacegroup=sg,
                                        do_not_split_projections=True, rotate_basis=False))
        sym = SymmetrizerSAWF.from_spacegroup_and_projections(spacegroup=sg, projections=projs)
    s_raw = random_model(rs, int(sym.num_wann), st["lat"], st["soc"])
    s = copy.deepcopy(s_raw)
    touch(s)
    with quiet():
        s.symmetrize2(sym)
    return s, sym, s_raw


def build_symmetrized(name, st, sub_seed, nR=None, want_raw=False):
    """random Hermitian model -> real System_R.symmetrize.  returns (system, symmetrizer, system before symmetrisation)"""
    from .. import wbsys
    rs = np.random.RandomState(sub_seed % (2 ** 31))
    nw = num_wann_of(st)
    nR = int(rs.randint(4, 11)) if nR is None else nR
    mats = ("Ham", "AA", "SS") if st["soc"] else ("Ham", "AA")
    with quiet():
        s = wbsys.rand_system(rs, num_wann=nw, nR=nR, max_R=int(rs.choice([1, 1, 2])), lattice=np.array(st["lat"], dtype=float),
                              matrices=mats)
    s0 = copy.deepcopy(s)
    kw = {}
    if st.get("magmom") is not None:
        kw["magmom"] = st["magmom"]
    rec = {}
    orig_reorder = s.reorder

    def recording_reorder(idx):     # symmetrize() may reorder the Wannier functions before it averages
        rec["idx"] = [int(i) for i in idx]
        return orig_reorder(idx)
    s.reorder = recording_reorder
    touch(s)
    with quiet():
        sym = s.symmetrize(proj=list(st["proj"]), atom_name=list(st["names"]), positions=np.array(st["pos"], dtype=float),
                           soc=st["soc"], **kw)
    del s.__dict__["reorder"]
    if not want_raw:
        return s, sym, s0
    s_raw = copy.deepcopy(s0)
    s_raw.reorder(rec["idx"])
    s_raw.__dict__["_c20_idx"] = list(rec["idx"])
    return s, sym, s0, s_raw


# ---------------------------------------------------------------------------------------------------------------
# independent reference computations

def group_ops(sym, lattice):
    """operations of the space group as (W, t, TR, Rcart, det): r' = W r + t in lattice coordinates"""
    L = np.array(lattice, dtype=float)
    Linv = np.linalg.inv(L)
    out = []
    for op in sym.spacegroup.symmetries:
        W = np.array(op.rotation, dtype=int)
        t = np.array(op.translation, dtype=float)
        Rc = L.T @ W @ Linv.T
        out.append(dict(W=W, t=t, TR=bool(op.time_reversal), Rc=Rc, det=round(np.linalg.det(W))))
    return out


def k_image(g, k, inverse=False):
    """reduced coordinates of g k:  k' = (W^-1)^T k, with the extra sign of time reversal (inverse=True: g^-1 k)"""
    kk = (g["W"].T @ k) if inverse else (np.linalg.inv(g["W"]).T @ k)
    return -kk if g["TR"] else kk


def axial_image(g, v):
    """transformed axial, TR-odd band vector (Berry curvature, spin): det(R) R v, sign flipped by TR"""
    out = g["det"] * (v @ g["Rc"].T)
    return -out if g["TR"] else out


def fourier(system, key, k):
    X = system.get_R_mat(key)
    ph = np.exp(2j * np.pi * (system.rvec.iRvec @ k))
    return np.tensordot(ph, X, axes=(0, 0))


def own_bands(system, k, spin):
    """gauge-invariant band quantities from an own Fourier sum of the real-space matrices.
    Degenerate groups (gap < 1e-7) are treated as a whole.  Returns
      E        energies
      S        spin expectation values (group mean), or None
      T        dict key -> (nb,2,3,3): for the vector operators X = AA (and SS) the tensors
               T_in^{ab}  = Re sum_{n,m in G} X^a_nm X^b_mn / |G|   and
               T_out^{ab} = Re sum_{n in G, m not in G} X^a_nm X^b_mn / |G|   (G the degenerate group of the band);
               they transform as rank-2 tensors under every operation and do not vanish in PT-symmetric systems,
               where the Berry curvature and the mean spin are identically zero
      gap      smallest gap between different groups"""
    H = fourier(system, "Ham", k)
    E, U = np.linalg.eigh(0.5 * (H + H.conj().T))
    nb = len(E)
    groups, cur = [], [0]
    for i in range(1, nb):
        if E[i] - E[i - 1] < 1e-7:
            cur.append(i)
        else:
            groups.append(cur)
            cur = [i]
    groups.append(cur)
    S = None
    T = {}
    for key in (["AA", "SS"] if spin else ["AA"]):
        Xk = fourier(system, key, k)
        Xb = np.einsum("mi,mnc,nj->ijc", U.conj(), Xk, U)
        if key == "SS":
            S = np.real(np.einsum("iic->ic", Xb)).copy()
            for gr in groups:
                S[gr] = S[gr].mean(axis=0)
        Tk = np.zeros((nb, 2, 3, 3))
        for gr in groups:
            rest = [m for m in range(nb) if m not in gr]
            t_in = np.real(np.einsum("nma,mnb->ab", Xb[np.ix_(gr, gr)], Xb[np.ix_(gr, gr)])) / len(gr)
            t_out = np.real(np.einsum("nma,mnb->ab", Xb[np.ix_(gr, rest)], Xb[np.ix_(rest, gr)])) / len(gr)
            Tk[gr, 0] = t_in
            Tk[gr, 1] = t_out
        T[key] = Tk
    gaps = [E[g2[0]] - E[g1[-1]] for g1, g2 in zip(groups, groups[1:])]
    return E, S, T, (min(gaps) if gaps else 1.0)


def tensor2_image(g, T):
    """transformed rank-2 tensor per band: R T R^T (even under inversion and time reversal)"""
    return np.einsum("ia,...ab,jb->...ij", g["Rc"], T, g["Rc"])


def hermiticity_defect(system, key):
    X = system.get_R_mat(key)
    idx = {tuple(int(v) for v in r): i for i, r in enumerate(system.rvec.iRvec)}
    worst = 0.0
    for r, i in idx.items():
        j = idx.get(tuple(-v for v in r))
        A = X[i]
        B = np.zeros_like(A) if j is None else X[j]
        Bd = np.conj(np.swapaxes(B, 0, 1))
        worst = max(worst, np.abs(A - Bd).max())
    return worst


def matrices_diff(s1, s2):
    """max difference of all real-space matrices of two systems over the union of their R-vector sets"""
    i1 = {tuple(int(v) for v in r): i for i, r in enumerate(s1.rvec.iRvec)}
    i2 = {tuple(int(v) for v in r): i for i, r in enumerate(s2.rvec.iRvec)}
    worst = 0.0
    for key in s1._XX_R:
        X1, X2 = s1.get_R_mat(key), s2.get_R_mat(key)
        for r in set(i1) | set(i2):
            a = X1[i1[r]] if r in i1 else 0
            b = X2[i2[r]] if r in i2 else 0
            worst = max(worst, np.abs(a - b).max())
    return worst


KF_WCC = "C20-wcc-orbital-mixing"


def mixes_orbitals(sym):
    """input class of the known finding: some operation rotates the orbitals of a site by a matrix that is not a
    (signed / phased) permutation, i.e. has an entry with 0 < |D_ij|^2 < 1"""
    for rot in sym.rot_orb_list:
        w = np.abs(np.asarray(rot)) ** 2
        if np.any((w > 1e-6) & (w < 1 - 1e-6)):
            return True
    return False


def centre_map_defect(system, ops, tol=1e-6):
    """every operation must map the set of Wannier centres onto itself modulo lattice vectors (bijectively)"""
    c = system.wannier_centers_red
    worst = 0.0
    for g in ops:
        img = c @ g["W"].T + g["t"][None, :]
        used = set()
        for p in img:
            d = c - p[None, :]
            d = np.abs(d - np.round(d)).max(axis=1)
            order = np.argsort(d)
            j = next((int(q) for q in order if int(q) not in used and d[q] < tol), None)
            if j is None:
                free = [q for q in range(len(c)) if q not in used]
                worst = max(worst, float(d[free].min()) if free else 1.0)
            else:
                used.add(j)
                worst = max(worst, float(d[j]))
    return worst


# ---------------------------------------------------------------------------------------------------------------
# oracle

def _op_key(W, t, TR):
    return (tuple(int(x) for x in np.array(W).flatten()), tuple(int(round(float(x) * 48)) % 48 for x in t), bool(TR))


def generated_subgroup(ops, gens):
    """indices of the subgroup of the space group (modulo lattice translations) generated by ops[gens]"""
    index = {_op_key(g["W"], g["t"], g["TR"]): i for i, g in enumerate(ops)}
    ident = index[_op_key(np.eye(3, dtype=int), np.zeros(3), False)]
    H = {ident} | set(gens)
    grew = True
    while grew:
        grew = False
        for a in list(H):
            for b in list(H):
                W = ops[a]["W"] @ ops[b]["W"]
                t = ops[a]["W"] @ ops[b]["t"] + ops[a]["t"]
                c = index.get(_op_key(W, t, ops[a]["TR"] != ops[b]["TR"]))
                if c is None:
                    raise RuntimeError("the listed operations are not closed under composition")
                if c not in H:
                    H.add(c)
                    grew = True
    return sorted(H)


def subgroups_to_try(ops, rs, how_many):
    """operation lists a user can pass as use_symmetries_index: the trivial group, the unitary subgroup, subgroups
    generated by one or two random operations (proper subgroups only, listed in scrambled order)"""
    n = len(ops)
    out = {}
    ident = generated_subgroup(ops, [])
    out["trivial"] = ident
    unitary = [i for i, g in enumerate(ops) if not g["TR"]]
    if 1 < len(unitary) < n:
        out["unitary"] = unitary
    for attempt in range(12 if n > 2 else 0):
        gens = [int(x) for x in rs.choice(n, size=min(n, int(rs.choice([1, 2]))), replace=False)]
        H = generated_subgroup(ops, gens)
        if 1 < len(H) < n:
            out.setdefault(f"generated(order {len(H)})", H)
        if len(out) >= how_many + 1:
            break
    res = []
    labels = list(out)
    rest = labels[1:]
    rs.shuffle(rest)
    for label in ([labels[0]] + rest)[:how_many]:
        H = out[label]
        H = list(H)
        rs.shuffle(H)
        res.append((label, [int(x) for x in H]))
    return res


def verify_result(ctx, tag, info, st, s, s_raw, ops, use, rs, kf_c, n_k, max_g, worst, eps=0.0):
    """the part of the property that refers to ONE symmetrised system `s`, obtained from `s_raw` with the operations
    ops[i], i in `use` (the whole group or a subgroup chosen with use_symmetries_index):
    (`eps`: relative precision of the input data, 0 for synthetic models; real data sets store the lattice of the
    system and of the symmetrizer with ~1e-7 relative agreement, and every tolerance is widened by 100*eps)
    Hermiticity, centre map, covariance of energies / spin / band tensors under every operation used, the k-space
    trace of every matrix equals the average over exactly the operations used of the raw traces, Berry curvature
    through evaluate_k.  Returns False when a failure was recorded (and the caller should stop)."""
    import wannierberri as wb
    H = [ops[i] for i in use]
    scaleH = max(1.0, np.abs(s_raw.get_R_mat("Ham")).max())
    slack = 100 * eps
    centres_ok = True
    for key in sorted(s._XX_R):
        d = hermiticity_defect(s, key)
        worst["herm"] = max(worst["herm"], d)
        if not d < 1e-10 * scaleH:
            ctx.fail(f"{tag}: {key}(-R) != {key}(R)^dagger after symmetrisation: max defect {d:.3e}", info)
            return False
    d = centre_map_defect(s, H, tol=1e-6 + slack)
    if d < 1e-7 + slack:
        if eps == 0:
            worst["centre"] = max(worst["centre"], d)
    else:
        ctx.fail(f"{tag}: Wannier centres are not mapped onto each other by the group: defect {d:.3e}",
                 dict(info, centres=s.wannier_centers_red), kf=kf_c)
        centres_ok = False
        if not (kf_c and kf_c in ctx.known):
            return False
    # --- derived state: the R-vector object must carry the centres of the symmetrised system (phases of convention I)
    wred = s.wannier_centers_cart @ np.linalg.inv(s.real_lattice)
    for what, arr in (("system.wannier_centers_red", s.wannier_centers_red), ("rvec.shifts_left_red", s.rvec.shifts_left_red),
                      ("rvec.shifts_right_red", s.rvec.shifts_right_red)):
        dsh = np.abs(np.array(arr) - wred).max() if np.shape(arr) == wred.shape else np.inf
        if not dsh < 1e-10:
            ctx.fail(f"{tag}: {what} is not wannier_centers_cart of the symmetrised system in reduced coordinates "
                     f"(stale state): max diff {dsh:.3e}", dict(info, wannier_centers_red=wred, found=arr))
            return False
    for ik in range(n_k):
        for attempt in range(20):
            k = rs.uniform(-0.5, 0.5, 3)
            E0, S0, T0, gap = own_bands(s, k, st["soc"])
            if gap > 2e-2:
                break
        # --- normalisation and content of the average: traces are linear and gauge independent, so
        #     tr X_sym(k) = (1/|H|) sum_{g in H} (g acting on the Cartesian index) tr X_raw(g^-1 k)
        for key in sorted(s._XX_R):
            got = np.trace(fourier(s, key, k), axis1=0, axis2=1)
            ref = 0
            for g in H:
                tr = np.trace(fourier(s_raw, key, k_image(g, k, inverse=True)), axis1=0, axis2=1)
                if g["TR"]:
                    tr = np.conj(tr)
                if key == "AA":
                    tr = g["Rc"] @ tr
                elif key == "SS":
                    tr = axial_image(g, tr)
                ref = ref + tr
            ref = ref / len(H)
            dtr = np.abs(got - ref).max()
            worst["trace"] = max(worst.get("trace", 0.0), dtr)
            if not dtr < (1e-9 + slack) * scaleH * s.num_wann:
                ctx.fail(f"{tag}: tr {key}(k) of the result is not the average of the input over exactly the "
                         f"{len(H)} operations used: |diff| = {dtr:.3e} (result {np.abs(got).max():.3e}, "
                         f"independent average {np.abs(ref).max():.3e})", dict(info, k=k))
                return False
        for ig, g in zip(use, H):
            kg = k_image(g, k)
            E1, S1, T1, _ = own_bands(s, kg, st["soc"])
            dE = np.abs(E1 - E0).max()
            worst["E"] = max(worst["E"], dE)
            if not dE < (1e-9 + slack) * scaleH:
                ctx.fail(f"{tag}: E(gk) != E(k) for operation {ig} (TR={g['TR']}): max diff {dE:.3e}",
                         dict(info, k=k, gk=kg, W=g["W"], t=g["t"], TR=g["TR"], E_k=E0, E_gk=E1))
                return False
            for key in T0:
                dT = np.abs(T1[key] - tensor2_image(g, T0[key])).max()
                worst["T_" + key] = max(worst.get("T_" + key, 0.0), dT)
                if not dT < (1e-8 + slack) * max(1.0, np.abs(T0[key]).max()) / min(1.0, gap * 50):
                    ctx.fail(f"{tag}: the band tensor sum_m Re({key}^a_nm {key}^b_mn) at gk is not R T(k) R^T for "
                             f"operation {ig} (TR={g['TR']}, det={g['det']}): max diff {dT:.3e} "
                             f"(scale {np.abs(T0[key]).max():.2e})",
                             dict(info, k=k, gk=kg, W=g["W"], t=g["t"], TR=g["TR"]))
                    return False
            if S0 is not None:
                dS = np.abs(S1 - axial_image(g, S0)).max()
                worst["S"] = max(worst["S"], dS)
                if not dS < (1e-8 + slack) * max(1.0, np.abs(S0).max()):
                    ctx.fail(f"{tag}: spin at gk is not the transformed spin at k for operation {ig} "
                             f"(TR={g['TR']}, det={g['det']}): max diff {dS:.3e}",
                             dict(info, k=k, gk=kg, W=g["W"], t=g["t"], TR=g["TR"], S_k=S0, S_gk=S1))
                    return False
    # --- Berry curvature (and energy, spin) through evaluate_k at one k, for up to max_g of the operations used
    quantities = ["energy", "berry_curvature"] + (["spin"] if st["soc"] else [])
    with quiet():
        r0 = wb.evaluate_k(s, k=np.array(k), quantities=quantities, return_single_as_dict=True)
    sel = list(range(len(H)))
    if len(H) > max_g:
        sel = sorted(rs.choice(len(H), max_g, replace=False).tolist())
    scO = max(1.0, np.abs(r0["berry_curvature"]).max())
    for j in sel:
        g, ig = H[j], use[j]
        kg = k_image(g, k)
        with quiet():
            r1 = wb.evaluate_k(s, k=np.array(kg), quantities=quantities, return_single_as_dict=True)
        dE = np.abs(r1["energy"] - r0["energy"]).max()
        dO = np.abs(r1["berry_curvature"] - axial_image(g, r0["berry_curvature"])).max()
        ctx.count("oracle.evaluate_k_pairs")
        if centres_ok:
            worst["Omega_rel"] = max(worst["Omega_rel"], dO / scO)
        if not dE < (1e-9 + slack) * scaleH:
            ctx.fail(f"{tag}: evaluate_k energy(gk) != energy(k) for operation {ig}: {dE:.3e}",
                     dict(info, k=k, gk=kg, TR=g["TR"], W=g["W"]))
            return False
        if not dO < (1e-9 + slack) * scO * max(1.0, (2e-2 / gap) ** 2):
            ctx.fail(f"{tag}: Berry curvature at gk is not the transformed curvature at k for operation {ig} "
                     f"(TR={g['TR']}, det={g['det']}): max diff {dO:.3e} (scale {scO:.2e}, min gap {gap:.2e})",
                     dict(info, k=k, gk=kg, W=g["W"], t=g["t"], TR=g["TR"], Omega_k=r0["berry_curvature"],
                          Omega_gk=r1["berry_curvature"]), kf=None if centres_ok else kf_c)
            if centres_ok or not (kf_c and kf_c in ctx.known):
                return False
            break
        if st["soc"]:
            dS = np.abs(r1["spin"] - axial_image(g, r0["spin"])).max()
            if not dS < 1e-8 * max(1.0, np.abs(r0["spin"]).max()):
                ctx.fail(f"{tag}: evaluate_k spin at gk is not the transformed spin at k for operation {ig}: {dS:.3e}",
                         dict(info, k=k, gk=kg, TR=g["TR"], W=g["W"]))
                return False
    return True


def resymmetrized(system, sym, use=None, **kw):
    """System_R.symmetrize2 called directly on a copy that has been used before (caches populated)"""
    s2 = copy.deepcopy(system)
    touch(s2)
    with quiet():
        if use is None:
            s2.symmetrize2(sym, **kw)
        else:
            s2.symmetrize2(sym, use_symmetries_index=list(use), **kw)
    return s2


def check_projector(ctx, tag, info, a, b, what, scaleH, kf_c, centres_too=True):
    """`b` must equal `a` (matrices over the union of the R sets, and the centres)"""
    d = matrices_diff(a, b)
    dc = np.abs(a.wannier_centers_cart - b.wannier_centers_cart).max()
    if not d < 1e-10 * scaleH:
        ctx.fail(f"{tag}: {what}: real-space matrices differ by {d:.3e}", info)
        return False
    if centres_too and not dc < 1e-10 * scaleH:
        ctx.fail(f"{tag}: {what}: Wannier centres differ by {dc:.3e}", info, kf=kf_c)
        return bool(kf_c and kf_c in ctx.known)
    return True


KF_CUTOFF = "C20-cutoff-orbit-below"


def block_layout(sym):
    """(first WF, orbitals per point, number of points) of every block of the symmetrizer"""
    out = []
    for bl, (ws, we) in enumerate(sym.D_wann_block_indices):
        norb = int(sym.rot_orb_list[bl].shape[-1])
        out.append((int(ws), norb, int(sym.atommap_list[bl].shape[0])))
    return out


def block_maxima(system, sym, key):
    """max |element| of every stored block (iR, block1, a, block2, b) - the quantity the documented input criterion of
    `cutoff` looks at (_matrix_to_dict: a block is used iff np.any(abs(X) > cutoff))"""
    X = np.abs(system.get_R_mat(key))
    lay = block_layout(sym)
    out = {}
    for iR in range(X.shape[0]):
        for b1, (w1, n1, p1) in enumerate(lay):
            for a in range(p1):
                for b2, (w2, n2, p2) in enumerate(lay):
                    for b in range(p2):
                        out[(iR, b1, a, b2, b)] = float(X[iR, w1 + a * n1:w1 + (a + 1) * n1, w2 + b * n2:w2 + (b + 1) * n2].max())
    return out


def filtered_copy(system, sym, cut):
    """the input with exactly the blocks removed that the documented criterion removes (cut: key -> cutoff)"""
    s2 = copy.deepcopy(system)
    lay = block_layout(sym)
    for key in s2._XX_R:
        X = s2.get_R_mat(key)
        for (iR, b1, a, b2, b), m in block_maxima(system, sym, key).items():
            if not m > cut[key]:
                (w1, n1, _), (w2, n2, _) = lay[b1], lay[b2]
                X[iR, w1 + a * n1:w1 + (a + 1) * n1, w2 + b * n2:w2 + (b + 1) * n2] = 0
    s2.clear_cached_R()
    return s2


def orbit_entirely_below(system, sym, ops, cut):
    """is there a stored block whose whole symmetry orbit (images under every operation; members that are not stored carry
    no data) is removed by the cutoff for EVERY matrix?  This is the regime in which the unchanged code raises
    'some R vectors were not set'."""
    keys = list(system._XX_R)
    maxima = {k: block_maxima(system, sym, k) for k in keys}
    idx = {tuple(int(x) for x in r): i for i, r in enumerate(system.rvec.iRvec)}
    lay = block_layout(sym)

    def alive(iR, b1, a, b2, b):
        return any(maxima[k][(iR, b1, a, b2, b)] > cut[k] for k in keys)
    for (iR, b1, a, b2, b) in maxima[keys[0]]:
        R = system.rvec.iRvec[iR]
        found = False
        for ig, g in enumerate(ops):
            R2 = g["W"] @ R + sym.T_list[b1][a, ig] - sym.T_list[b2][b, ig]
            j = idx.get(tuple(int(x) for x in R2))
            if j is not None and alive(j, b1, int(sym.atommap_list[b1][a, ig]), b2, int(sym.atommap_list[b2][b, ig])):
                found = True
                break
        if not found:
            return True
    return False


def cutoff_sweep(ctx, name, info, st, s_raw, sym, ops, rs, kf_c, worst, n_variants):
    """the option `cutoff` / `cutoff_dict` of symmetrize2: the documented meaning is an INPUT filter (blocks whose largest
    element does not exceed the cutoff are not used).  For cutoffs taken from the actual block maxima of the model the
    result must (i) equal the cutoff-free symmetrisation of the input with exactly those blocks removed, (ii) be
    covariant / Hermitian like every symmetrised model, (iii) be unchanged by a further (cutoff-free) symmetrisation."""
    scaleH = max(1.0, np.abs(s_raw.get_R_mat("Ham")).max())
    keys = sorted(s_raw._XX_R)
    bm = {k: np.array(sorted(block_maxima(s_raw, sym, k).values())) for k in keys}
    variants = [("1e-14", dict(cutoff=1e-14), {k: 1e-14 for k in keys})]
    for q in (0.1, 0.5, 0.3):
        c = float(np.quantile(bm["Ham"], q))
        variants.append((f"q{int(q * 100)}", dict(cutoff=c), {k: c for k in keys}))
        cd = {k: float(np.quantile(bm[k], q)) for k in keys}
        variants.append((f"dict-q{int(q * 100)}", dict(cutoff=-1, cutoff_dict={k: cd[k] for k in keys if k != "Ham"} | {"Ham": cd["Ham"]}), cd))
    variants = [variants[0]] + [variants[i] for i in sorted(rs.choice(range(1, len(variants)), min(n_variants, len(variants) - 1),
                                                                      replace=False))]
    for label, kw, cut in variants:
        tag = f"{name}[{', '.join(f'{k}={v}' for k, v in kw.items())}]"
        cinfo = dict(info, option=label, **{k: v for k, v in kw.items()})
        ctx.count("oracle.option.cutoff." + label.split("-q")[0].rstrip("0123456789"))
        ctx.case(signature=(name, info["sub_seed"], "cutoff", label), nontrivial=label != "1e-14")
        try:
            sC = resymmetrized(s_raw, sym, None, **kw)
        except AssertionError as e:
            if "some R vectors were not set" in str(e):
                below = orbit_entirely_below(s_raw, sym, ops, cut)
                ctx.count("oracle.option.cutoff.raises_not_set")
                ctx.fail(f"{tag}: symmetrize2 raises AssertionError 'some R vectors were not set' (an entire symmetry orbit of "
                         f"blocks lies below the cutoff: {below})", cinfo, kf=KF_CUTOFF if below else None)
                if below and KF_CUTOFF in ctx.known:
                    continue
                return False
            raise
        s_filt = filtered_copy(s_raw, sym, cut)
        sF = resymmetrized(s_filt, sym)
        if not check_projector(ctx, tag, cinfo, sF, sC, "the result with a cutoff is not the cutoff-free symmetrisation of the "
                               "input with the sub-cutoff blocks removed", scaleH, kf_c):
            return False
        if not verify_result(ctx, tag, cinfo, st, sC, s_filt, ops, list(range(len(ops))), rs, kf_c,
                             1, 3, worst):
            return False
        if not check_projector(ctx, tag, cinfo, sC, resymmetrized(sC, sym), "symmetrising the result again (without cutoff) "
                               "changes it", scaleH, kf_c):
            return False
    return True


def permuted_copy_matrices(system, perm):
    """independent reference for a relabelling of the Wannier functions: {key: X[:, perm][:, :, perm]}, centres[perm]"""
    perm = np.array(perm, dtype=int)
    return {k: system.get_R_mat(k)[:, perm][:, :, perm] for k in system._XX_R}, system.wannier_centers_cart[perm]


def same_model(ctx, tag, info, system, mats, centres, iRvec, what, scaleH):
    i1 = {tuple(int(v) for v in r): i for i, r in enumerate(system.rvec.iRvec)}
    i2 = {tuple(int(v) for v in r): i for i, r in enumerate(iRvec)}
    worst = 0.0
    for key, X2 in mats.items():
        X1 = system.get_R_mat(key)
        for r in set(i1) | set(i2):
            a = X1[i1[r]] if r in i1 else 0
            b = X2[i2[r]] if r in i2 else 0
            worst = max(worst, float(np.abs(a - b).max()))
    dc = float(np.abs(system.wannier_centers_cart - centres).max())
    if not max(worst, dc) < 1e-10 * scaleH:
        ctx.fail(f"{tag}: {what}: matrices differ by {worst:.3e}, centres by {dc:.3e}", info)
        return False
    return True


def relabelling_checks(ctx, name, info, st, s, s0, s_raw, sym, ops, rs, kf_c, worst, route):
    """relabelling the Wannier functions must not matter: (i) the public System_R.reorder() on the symmetrised system gives
    the independently permuted matrices and still a valid symmetric system (derived state included); (ii) for the
    high-level route, symmetrize(..., reorder_back=True) gives the result of the default call in the ORIGINAL order"""
    scaleH = max(1.0, np.abs(s_raw.get_R_mat("Ham")).max())
    allops = list(range(len(ops)))
    if s.num_wann > 1:
        perm = rs.permutation(s.num_wann)
        sp = copy.deepcopy(s)
        touch(sp)
        with quiet():
            sp.reorder(perm)
        mats, cen = permuted_copy_matrices(s, perm)
        tag = f"{name}[after System_R.reorder({perm.tolist()})]"
        pinfo = dict(info, reorder=perm.tolist())
        ctx.count("oracle.history.public_reorder")
        if not same_model(ctx, tag, pinfo, sp, mats, cen, s.rvec.iRvec, "reorder() is not the permutation of the matrices "
                          "and centres", scaleH):
            return False
        rawp = copy.deepcopy(s_raw)
        with quiet():
            rawp.reorder(perm)
        if not verify_result(ctx, tag, pinfo, st, sp, rawp, ops, allops, rs, kf_c, 1, 4, worst):
            return False
    if route == "symmetrize":
        idx = s_raw.__dict__.get("_c20_idx")
        sb = copy.deepcopy(s0)
        touch(sb)
        kw = dict(magmom=st["magmom"]) if st.get("magmom") is not None else {}
        with quiet():
            sb.symmetrize(proj=list(st["proj"]), atom_name=list(st["names"]), positions=np.array(st["pos"], dtype=float),
                          soc=st["soc"], reorder_back=True, **kw)
        inv = np.argsort(np.array(idx))
        mats, cen = permuted_copy_matrices(s, inv)
        moved = list(idx) != list(range(len(idx)))
        tag = f"{name}[symmetrize(reorder_back=True), Wannier functions {'permuted ' + str(list(idx)) if moved else 'not permuted'}]"
        binfo = dict(info, reorder_back=True, new_wann_indices=list(idx))
        ctx.count("oracle.option.reorder_back" + (".permuting" if moved else ".identity"))
        ctx.case(signature=(name, info["sub_seed"], "reorder_back"), nontrivial=moved)
        if not same_model(ctx, tag, binfo, sb, mats, cen, s.rvec.iRvec, "the result is not the default result in the original "
                          "order", scaleH):
            return False
        if not verify_result(ctx, tag, binfo, st, sb, s0, ops, allops, rs, kf_c, 1, 4, worst):
            return False
    return True


def check_structure(ctx, name, st, sub_seed, n_k, max_g, n_sub=2, tower=True, route="symmetrize", include_TR=True,
                    relabel=True):
    """one random model in one structure: the full group through System_R.symmetrize, then the option space of
    symmetrize2 (use_symmetries_index = subgroups, cutoff) - always checked against the group actually used"""
    info = dict(structure=name, sub_seed=sub_seed, proj=st["proj"], soc=st["soc"], magmom=st.get("magmom"),
                positions=st["pos"], lattice=np.array(st["lat"]).tolist(), route=route, include_TR=include_TR)
    with ctx.attempt(f"{route}({name})", info):
        if route == "symmetrize":
            s, sym, s0, s_raw = build_symmetrized(name, st, sub_seed, want_raw=True)
        else:
            s, sym, s_raw = build_direct(name, st, sub_seed, include_TR=include_TR)
            s0 = s_raw
            name = f"{name}<symmetrize2 direct, include_TR={include_TR}>"
        ctx.count(f"oracle.route.{route}" + ("" if include_TR else ".noTR"))
        ops = group_ops(sym, s.real_lattice)
        nsym = len(ops)
        rs = np.random.RandomState((sub_seed // 7) % (2 ** 31))
        scaleH = max(1.0, np.abs(s_raw.get_R_mat("Ham")).max())
        ctx.count(f"oracle.structure.{name}")
        ctx.count(f"oracle.nsym={nsym}")
        ctx.count("oracle.spinor" if st["soc"] else "oracle.spinless")
        if st.get("magmom") is not None:
            ctx.count("oracle.magnetic")
        if any(g["TR"] and not np.allclose(g["W"], np.eye(3)) for g in ops):
            ctx.count("oracle.has_TR_combined_ops")
        if any(np.abs(g["t"]).max() > 1e-6 for g in ops):
            ctx.count("oracle.nonsymmorphic_or_centred")
        ctx.case(signature=(name, sub_seed, route), nontrivial=nsym > 2)
        # known finding: the centre averaging is not a projection when operations mix orbitals; only the checks that
        # depend on the centres are attributed to it, the matrix-level checks stay unguarded
        kf_c = KF_WCC if mixes_orbitals(sym) else None
        if kf_c:
            ctx.count("oracle.class.orbital_mixing_operations")
        worst = ctx.__dict__.setdefault("_c20_worst", dict(herm=0.0, centre=0.0, E=0.0, S=0.0, Omega_rel=0.0, idem=0.0))
        # ---- the hypotheses of the Lean theorem on the ingredients the code uses for this structure
        done = ctx.__dict__.setdefault("_c20_rep_done", set())
        if (name, route) not in done:         # the ingredients depend on the structure, not on the random model
            done.add((name, route))
            check_rep_hypotheses(ctx, name, sym, ops, rs, max_pairs=ctx.n(150, 500))
        # ---- full group (high-level interface)
        if not verify_result(ctx, f"{name}[full group]", info, st, s, s_raw, ops, list(range(nsym)), rs, kf_c,
                             n_k, max_g, worst):
            return
        s2 = resymmetrized(s, sym)
        worst["idem"] = max(worst["idem"], matrices_diff(s, s2))
        if not check_projector(ctx, f"{name}[full group]", info, s, s2,
                               "symmetrising the symmetrised system again changes it", scaleH, kf_c):
            return
        if nsym > 1 and matrices_diff(s0, s) < 1e-6:
            ctx.note(f"{name}: symmetrisation left the random input unchanged (suspicious)")
        # ---- relabelling: public reorder() and the option reorder_back
        if relabel and not relabelling_checks(ctx, name, info, st, s, s0, s_raw, sym, ops, rs, kf_c, worst, route):
            return
        # ---- option space of symmetrize2: subgroups selected with use_symmetries_index
        for label, use in subgroups_to_try(ops, rs, n_sub):
            tag = f"{name}[use_symmetries_index={label}, {len(use)} of {nsym} operations]"
            sinfo = dict(info, use_symmetries_index=use, subgroup=label)
            ctx.count("oracle.option.use_symmetries_index." + label.split("(")[0])
            ctx.case(signature=(name, sub_seed, label, tuple(sorted(use))), nontrivial=len(use) > 1)
            sH = resymmetrized(s_raw, sym, use)
            if not verify_result(ctx, tag, sinfo, st, sH, s_raw, ops, use, rs, kf_c, 1, min(max_g, 3), worst):
                return
            if label == "trivial":
                # the average over the identity alone is the input itself
                if not check_projector(ctx, tag, sinfo, s_raw, sH, "symmetrising with the identity only must return "
                                       "the input", scaleH, kf_c, centres_too=False):
                    return
            sHH = resymmetrized(sH, sym, use)
            worst["idem"] = max(worst["idem"], matrices_diff(sH, sHH))
            if not check_projector(ctx, tag, sinfo, sH, sHH, "a second symmetrisation with the same operations changes "
                                   "the result", scaleH, kf_c):
                return
            sGH = resymmetrized(s, sym, use)
            if not check_projector(ctx, tag, sinfo, s, sGH, "a model already symmetric under the full group is changed "
                                   "by symmetrising with a subgroup", scaleH, kf_c):
                return
            if not ((tower and nsym <= 32) or nsym <= 16):
                continue
            sHG = resymmetrized(sH, sym)
            if not check_projector(ctx, tag, sinfo, s, sHG, "subgroup average followed by the full-group average differs "
                                   "from the full-group average", scaleH, kf_c):
                return
        # ---- option space of symmetrize2: cutoff / cutoff_dict
        if n_sub > 1 or (n_sub > 0 and ctx.tier == "quick"):
            if not cutoff_sweep(ctx, name, info, st, s_raw, sym, ops, rs, kf_c, worst, n_variants=2 if ctx.tier == "quick" else 1):
                return
        if len(ctx.samples) < 3:
            ctx.sample(dict(structure=name, num_wann=s.num_wann, group_order=nsym, nR_after=int(s.rvec.nRvec),
                            spinor=st["soc"], magnetic=st.get("magmom") is not None))


def pick_structures(ctx, rng, scale):
    """quick tier: a stratified sample (one with two or three different multi-site projection blocks, one with p/d shells on a 3-/6-fold site, one magnetic, one non-magnetic spinor,
    one with fractional translations, one with several different multi-site blocks); thorough tier: the whole catalogue"""
    S = structures(rng)
    names = list(S)
    if ctx.tier == "quick":
        light = [n for n in names if S[n]["heavy"] <= 1]
        mid = [n for n in names if S[n]["heavy"] in (2, 3)]
        chosen = []
        for _ in range(scale):
            mag = [n for n in light if S[n].get("magmom") is not None]
            spinor = [n for n in light if S[n]["soc"] and S[n].get("magmom") is None]
            frac = [n for n in ("Te_s", "hcp_s", "afm_tet", "hex_2site_pz") if n in light]
            mixing = [n for n in ("hex_A_p", "hex_AB2_p", "hex_A_d", "Te_p") if n in names]
            multi = [n for n in names if S[n].get("multiblock") and S[n]["heavy"] <= 2]
            pick = [rng.choice(mixing), rng.choice(mag), rng.choice(spinor), rng.choice(frac), rng.choice(multi)]
            chosen += list(dict.fromkeys(pick))
    else:
        chosen = (names + [n for n in names if S[n]["heavy"] <= 3]) * scale   # a second random model for all but the heaviest
    return S, chosen


def oracle_from_wannierdata(ctx):
    """thorough tier: the System_R.from_wannierdata(symmetrize=True) entry point, driven with the diamond data set of
    the repository (read only): site-symmetric wannierisation, then the constructor calls symmetrize2 directly"""
    import os
    import wannierberri as wb
    from wannierberri.symmetry.sawf import SymmetrizerSAWF
    from ..common import REPO
    seed = os.path.join(REPO, "tests", "data", "diamond", "diamond")
    if not all(os.path.exists(seed + e) and os.path.getsize(seed + e) > 0 for e in (".mmn", ".amn", ".eig", ".win", ".sawf.npz")):
        ctx.note("diamond data set not available; from_wannierdata route skipped")
        return
    info = dict(route="from_wannierdata", data="tests/data/diamond")
    cwd = os.getcwd()
    os.chdir(ctx.work)
    try:
        with ctx.attempt("System_R.from_wannierdata(symmetrize=True) on diamond", info):
            with quiet():
                wd = wb.WannierData.from_w90_files(seedname=seed, files=["amn", "mmn", "eig", "win"], readnnkp=False)
                wd.set_symmetrizer(SymmetrizerSAWF.from_npz(seed + ".sawf.npz"))
                wd.wannierise(froz_min=-8, froz_max=20, num_iter=10, sitesym=True, parallel=False, savechk=False)
                s_raw = wb.System_R.from_wannierdata(wandata=wd, berry=True, symmetrize=False)
                s = wb.System_R.from_wannierdata(wandata=wd, berry=True, symmetrize=True)
            sym = wd.symmetrizer
            ops = group_ops(sym, s.real_lattice)
            rs = np.random.RandomState(ctx.rng.getrandbits(31))
            worst = ctx.__dict__.setdefault("_c20_worst", dict(herm=0.0, centre=0.0, E=0.0, S=0.0, Omega_rel=0.0, idem=0.0))
            kf_c = KF_WCC if mixes_orbitals(sym) else None
            ctx.count("oracle.route.from_wannierdata")
            ctx.case(signature=("from_wannierdata", "diamond"), nontrivial=True)
            scaleH = max(1.0, np.abs(s_raw.get_R_mat("Ham")).max())
            # the .win lattice (system) and the lattice stored with the symmetrizer agree to ~3e-7 only
            eps = float(np.abs(s.real_lattice - sym.spacegroup.lattice).max() / np.abs(s.real_lattice).max())
            ctx.note(f"from_wannierdata(diamond): lattice of the system and of the symmetrizer differ by {eps:.1e} (relative); "
                     "tolerances of this route widened accordingly")
            if verify_result(ctx, "diamond<from_wannierdata>", info, dict(soc=False), s, s_raw, ops, list(range(len(ops))),
                             rs, kf_c, 2, 200, worst, eps=eps):
                s2 = resymmetrized(s, sym)
                check_projector(ctx, "diamond<from_wannierdata>", info, s, s2,
                                "symmetrising the symmetrised system again changes it", scaleH, kf_c)
    finally:
        os.chdir(cwd)


def oracle(ctx, scale):
    rng = ctx.rng
    S, chosen = pick_structures(ctx, rng, scale)
    for i, name in enumerate(chosen):
        sub = rng.getrandbits(40)
        # quick tier: the option sweep (3 subgroups) on the first three structures of the stratified sample only
        # thorough tier: the first model of every structure gets the full option sweep, the second one a light one
        n_sub = (2 if i < len(S) else 0) if ctx.tier == "thorough" else (3 if i % 5 < 3 else 0)
        multiblock = bool(S[name].get("multiblock"))
        if multiblock:        # many blocks make every symmetrize2 call expensive: full group + one subgroup at most
            n_sub = min(n_sub, 1)
        # relabelling checks (public reorder(), reorder_back=True): quick - on the first structure and on the one with
        # several blocks / interleaved orbits; thorough - on the first model of every structure
        relabel = (i < len(S) and S[name]["heavy"] <= 2) if ctx.tier == "thorough" else (i % 5 in (0, 4))
        check_structure(ctx, name, S[name], sub, n_k=ctx.n(2, 3), max_g=ctx.n(6, 48), n_sub=n_sub,
                        tower=ctx.tier == "thorough", relabel=relabel)
        if ctx.failures and not ctx.searching:
            break
        # the other public entry point: symmetrize2(symmetrizer) called directly with a hand-built SymmetrizerSAWF
        # (quick: on the structures that did not get the option sweep and the first one; thorough: once per structure)
        if (ctx.tier == "thorough" and i < len(S) and S[name]["heavy"] <= 3) or \
                (ctx.tier == "quick" and i % 5 in (0, 3)):
            check_structure(ctx, name, S[name], rng.getrandbits(40), n_k=ctx.n(1, 2), max_g=ctx.n(6, 48),
                            n_sub=0 if (multiblock or ctx.tier == "quick") else 1, tower=False, route="symmetrize2",
                            relabel=False,
                            include_TR=(i % 2 == 0))
        if ctx.failures and not ctx.searching:
            break
    if ctx.tier == "thorough" and scale == 1 and not ctx.failures:
        oracle_from_wannierdata(ctx)
    wr = ctx.__dict__.get("_c20_rep_worst")
    if wr:
        ctx.note("hypotheses of average_block_is_group_average on the real Dwann data, worst defects: "
                 + ", ".join(f"{k}={v:.1e}" for k, v in wr.items()))
    w = ctx.__dict__.get("_c20_worst")
    if w:
        ctx.note("worst deviations: " + ", ".join(f"{k}={v:.2e}" for k, v in w.items()))


# ---------------------------------------------------------------------------------------------------------------
# correspondence: the irreducible (R,a,b) search, model vs code

def action_tables(sw, block1, block2):
    """tables x -> image index (or -1) for every operation, x = (a*np2 + b)*nR + iR, from the real helper functions"""
    np1 = sw.num_points_list_left[block1]
    np2 = sw.num_points_list_right[block2]
    nR = sw.nRvec
    map1 = sw.symmetrizer_left.atommap_list[block1]
    map2 = sw.symmetrizer_right.atommap_list[block2]
    tables = []
    for isym in sw.use_symmetries_index:
        arm = sw.get_atom_R_map(sw.iRvec, isym, block1, block2)
        tbl = []
        for a in range(np1):
            for b in range(np2):
                a1, b1 = int(map1[a, isym]), int(map2[b, isym])
                for iR in range(nR):
                    iR1 = sw.index_R(arm[iR, a, b])
                    tbl.append(-1 if iR1 is None else (a1 * np2 + b1) * nR + iR1)
        tables.append(tbl)
    return tables, np1, np2, nR


def orbit_minima(tables, N):
    """independent reference for closed sets: minima of the connected components of the action graph"""
    parent = list(range(N))

    def find(x):
        while parent[x] != x:
            parent[x] = parent[parent[x]]
            x = parent[x]
        return x
    for tbl in tables:
        for x, y in enumerate(tbl):
            if y >= 0:
                rx, ry = find(x), find(y)
                if rx != ry:
                    parent[max(rx, ry)] = min(rx, ry)
    return sorted({find(x) for x in range(N)})


def check_rep_hypotheses(ctx, name, sym, ops, rs, max_pairs=1500):
    """the hypotheses of theorem average_block_is_group_average (structure BlockRep) on the real Dwann data of this
    symmetrizer: atom maps are a group action; T(gh,a)-T(gh,b) = g(T(h,a)-T(h,b)) + T(g,ha)-T(g,hb); the orbital matrices
    are unitary and satisfy D(gh,a) = w(g,h) D(g,ha) conj^{tr g}(D(h,a)) with one unimodular phase w(g,h) for all atoms and
    blocks; D(1,a) is a common unimodular scalar; the Cartesian matrices are a real representation"""
    n = len(ops)
    index = {_op_key(g["W"], g["t"], g["TR"]): i for i, g in enumerate(ops)}
    ident = index[_op_key(np.eye(3, dtype=int), np.zeros(3), False)]
    pairs = [(g, h) for g in range(n) for h in range(n)]
    if len(pairs) > max_pairs:
        pairs = [pairs[i] for i in rs.choice(len(pairs), max_pairs, replace=False)]
    nbl = len(sym.rot_orb_list)
    worst = dict(atom=0.0, T=0.0, D=0.0, phase=0.0, unitary=0.0, cart=0.0)
    syms = sym.spacegroup.symmetries
    for g, h in pairs:
        W = ops[g]["W"] @ ops[h]["W"]
        t = ops[g]["W"] @ ops[h]["t"] + ops[g]["t"]
        gh = index.get(_op_key(W, t, ops[g]["TR"] != ops[h]["TR"]))
        if gh is None:
            ctx.mismatch(f"{name}: the listed operations are not closed under composition", dict(g=g, h=h))
            return
        worst["cart"] = max(worst["cart"], np.abs(syms[gh].rotation_cart - syms[g].rotation_cart @ syms[h].rotation_cart).max(),
                            np.abs(np.imag(syms[g].rotation_cart)).max())
        phases = []
        for bl in range(nbl):
            amap, D = sym.atommap_list[bl], sym.rot_orb_list[bl]
            for a in range(amap.shape[0]):
                ha = amap[a, h]
                if amap[a, gh] != amap[ha, g]:
                    worst["atom"] = 1.0
                Dh = D[a, h].conj() if ops[g]["TR"] else D[a, h]
                M = D[ha, g] @ Dh
                w = np.trace(M.conj().T @ D[a, gh]) / np.trace(M.conj().T @ M)
                worst["D"] = max(worst["D"], np.abs(D[a, gh] - w * M).max())
                worst["phase"] = max(worst["phase"], abs(abs(w) - 1))
                phases.append(w)
                worst["unitary"] = max(worst["unitary"], np.abs(D[a, g].conj().T @ D[a, g] - np.eye(D.shape[-1])).max())
        worst["phase"] = max(worst["phase"], max(abs(w - phases[0]) for w in phases))
        for b1 in range(nbl):
            for b2 in range(nbl):
                T1, T2, m1, m2 = sym.T_list[b1], sym.T_list[b2], sym.atommap_list[b1], sym.atommap_list[b2]
                for a in range(m1.shape[0]):
                    for b in range(m2.shape[0]):
                        lhs = T1[a, gh] - T2[b, gh]
                        rhs = ops[g]["W"] @ (T1[a, h] - T2[b, h]) + T1[m1[a, h], g] - T2[m2[b, h], g]
                        worst["T"] = max(worst["T"], float(np.abs(lhs - rhs).max()))
    z = [sym.rot_orb_list[bl][a, ident] for bl in range(nbl) for a in range(sym.atommap_list[bl].shape[0])]
    z0 = z[0][0, 0]
    worst["unitary"] = max([worst["unitary"], abs(abs(z0) - 1)] + [np.abs(m - z0 * np.eye(m.shape[0])).max() for m in z])
    ctx.count("oracle.rep_hypotheses_checked")
    w = ctx.__dict__.setdefault("_c20_rep_worst", {})
    for k, v in worst.items():
        w[k] = max(w.get(k, 0.0), float(v))
    if max(worst.values()) > 1e-10:
        ctx.mismatch(f"{name}: the symmetrizer's ingredients violate a hypothesis of average_block_is_group_average: "
                     + ", ".join(f"{k}={v:.2e}" for k, v in worst.items()), dict(structure=name))


def avg_lines(ctx, rng, name, sym, iRvec, lines, expect, tags, label):
    """the real SymWann.average_XX_block (mode 'sum') on exact dyadic input for spinless blocks, against the model's
    blockAvgEntry fed with the real ingredients (rotation, T, atom maps, rot_orb, rotation_cart and parities)"""
    from wannierberri.symmetry.sym_wann_2 import SymWann, _matrix_to_dict
    with quiet():
        sw = SymWann(symmetrizer=sym, iRvec=iRvec, silent=True)
    syms = sym.spacegroup.symmetries
    use = list(sw.use_symmetries_index)
    if label == "subset" and len(use) > 2:
        use = rng.sample(use, rng.randint(1, len(use) - 1))
    if len(use) > 16:          # the comparison does not need a group: keep the protocol lines small
        use = rng.sample(use, 16)
    sw.use_symmetries_index = use
    nR = sw.nRvec
    nbl = sw.num_blocks_left
    pairs = [(b1, b2) for b1 in range(nbl) for b2 in range(nbl)]
    for b1, b2 in rng.sample(pairs, min(len(pairs), 2)):
        if True:
            n1, n2 = sw.num_orb_list_left[b1], sw.num_orb_list_right[b2]
            na1, na2 = sw.num_points_list_left[b1], sw.num_points_list_right[b2]
            if np.abs(np.imag(sym.rot_orb_list[b1])).max() > 0 or np.abs(np.imag(sym.rot_orb_list[b2])).max() > 0:
                continue
            for key, nc in (("Ham", 1), ("AA", 3)):
                if nR * na1 * na2 > 120 or nR * na1 * na2 * len(use) > 4000:
                    ctx.count("corr.avg.skipped_large")
                    continue
                shape = (nR, na1 * n1, na2 * n2) + ((3,) if nc == 3 else ())
                Xr = np.array([[rng.randint(-8, 8) / 4 for _ in range(int(np.prod(shape[1:])))] for _ in range(nR)])
                Xr = Xr.reshape(shape).astype(complex)
                iRab = sw.find_irreducible_Rab(block1=b1, block2=b2)
                mdict = {key: _matrix_to_dict(Xr, np1=na1, norb1=n1, np2=na2, norb2=n2, cutoff=-1)}
                with quiet():
                    res, _ = sw.average_XX_block(iRab_new=iRab, matrix_dict_in=mdict, iRvec_origin=sw.iRvec, mode="sum",
                                                 block1=b1, block2=b2)
                targets = sorted((tuple(int(x) for x in sw.iRvec[iR]) + (a, b), iR) for (a, b), v in iRab.items() for iR in v)
                if len(targets) > 3:
                    targets = sorted(rng.sample(targets, 3))
                keys, vals = [], []
                for iR in range(nR):
                    for a in range(na1):
                        for b in range(na2):
                            keys.append(list(int(x) for x in sw.iRvec[iR]) + [a, b])
                            blk = Xr[iR, a * n1:(a + 1) * n1, b * n2:(b + 1) * n2]
                            for j in range(nc):
                                m = blk[..., j] if nc == 3 else blk
                                vals += [[F(float(x.real)) for x in row] for row in m]
                Wr, trs, rcs, am1, am2, t1, t2, d1, d2 = [], [], [], [], [], [], [], [], []
                for isym in use:
                    op = syms[isym]
                    Wr += [[int(x) for x in row] for row in op.rotation]
                    trs.append(1 if op.time_reversal else 0)
                    sgn = 1.0
                    if op.inversion:
                        sgn *= sw.parity_I[key] * (-1) ** (1 if nc == 3 else 0)
                    if op.time_reversal:
                        sgn *= sw.parity_TR[key]
                    rc = op.rotation_cart * sgn if nc == 3 else np.array([[sgn]])
                    rcs += [[F(float(x)) for x in row] for row in rc]
                    am1.append([int(x) for x in sym.atommap_list[b1][:, isym]])
                    am2.append([int(x) for x in sym.atommap_list[b2][:, isym]])
                    t1 += [[int(x) for x in sym.T_list[b1][a, isym]] for a in range(na1)]
                    t2 += [[int(x) for x in sym.T_list[b2][b, isym]] for b in range(na2)]
                    for a in range(na1):
                        d1 += [[F(float(x.real)) for x in row] for row in sym.rot_orb_list[b1][a, isym]]
                    for b in range(na2):
                        d2 += [[F(float(x.real)) for x in row] for row in sym.rot_orb_list[b2][b, isym]]
                line = " ".join(["avg", str(n1), str(n2), str(nc), str(na1), str(na2),
                                 intss([list(t[0]) for t in targets]), intss(keys), ratss(vals), intss(Wr), ints(trs),
                                 ratss(rcs), ";".join(ints(x) for x in am1), ";".join(ints(x) for x in am2), intss(t1),
                                 intss(t2), ratss(d1), ratss(d2), rat(F(1) / len(use))])
                got = []
                for (t, iR) in targets:
                    a, b = t[3], t[4]
                    M = res[key][(a, b)][iR]
                    if np.ndim(M) == 0:       # no listed operation maps this (R,a,b) into the stored set: the code leaves 0
                        M = np.zeros((n1, n2) + ((3,) if nc == 3 else ()), dtype=complex)
                    for i in range(nc):
                        m = M[..., i] if nc == 3 else M
                        got += [[complex(x) for x in row] for row in np.asarray(m)]
                lines.append(line)
                expect.append(got)
                tags.append(("avg", name, label, b1, b2, key, len(use), len(targets)))
                ctx.count(f"corr.avg.{key}.{label}")


def corr(ctx):
    from wannierberri.symmetry.sym_wann_2 import SymWann
    rng = ctx.rng
    S = structures(rng)
    light = [n for n in S if S[n]["heavy"] <= (1 if ctx.tier == "quick" else 3)]
    chosen = rng.sample(light, min(len(light), ctx.n(3, 8)))
    if not any(not S[n]["soc"] for n in chosen):
        chosen[-1] = rng.choice([n for n in light if not S[n]["soc"]])
    if not any(S[n].get("multiblock") for n in chosen):
        # off-diagonal pairs of different multi-site blocks: every ORDERED block pair is compared below
        chosen[0] = rng.choice([n for n in light if S[n].get("multiblock")])
    lines, expect, tags = [], [], []
    for name in chosen:
        st = S[name]
        sub = rng.getrandbits(40)
        with ctx.attempt(f"symmetrize({name}) for the irreducible-set correspondence", dict(structure=name, sub_seed=sub)):
            s, sym, s0 = build_symmetrized(name, st, sub, nR=rng.choice([2, 3]))   # small sets keep the tables small
            if not st["soc"]:
                # the block formula itself (real orbital matrices => exact rational arithmetic in the model)
                if ctx.tier == "thorough":
                    avg_lines(ctx, rng, name, sym, s0.rvec.iRvec, lines, expect, tags, "open")
                avg_lines(ctx, rng, name, sym, s0.rvec.iRvec, lines, expect, tags, "subset")
                small = [r for r in s.rvec.iRvec if np.abs(r).max() <= 1]
                if 0 < len(small) <= 27:
                    avg_lines(ctx, rng, name, sym, np.array(small), lines, expect, tags, "box")
            for label, iRvec in (("closed", s.rvec.iRvec), ("open", s0.rvec.iRvec)):
                # after symmetrisation the R set is closed under the group; the raw random set is not
                with quiet():
                    sw = SymWann(symmetrizer=sym, iRvec=iRvec, silent=True)
                variants = [list(sw.use_symmetries_index)]
                if label == "open" and len(sw.use_symmetries_index) > 2:
                    for _ in range(2):      # operation lists that are not groups, in scrambled order
                        kk = rng.randint(1, len(sw.use_symmetries_index) - 1)
                        variants.append(rng.sample(list(sw.use_symmetries_index), kk))
                nbl = sw.num_blocks_left
                for iv, use in enumerate(variants):
                    sw.use_symmetries_index = use
                    for b1 in range(nbl):
                        for b2 in range(nbl):
                            tables, np1, np2, nR = action_tables(sw, b1, b2)
                            N = np1 * np2 * nR
                            if N * len(tables) > 25000:
                                ctx.count("corr.skipped_large")
                                continue
                            got = sw.find_irreducible_Rab(block1=b1, block2=b2)
                            code = sorted((a * np2 + b) * nR + iR for (a, b), v in got.items() for iR in v)
                            lines.append(f"irr {N} {intss(tables)}")
                            expect.append(code)
                            closed = all(y >= 0 for t in tables for y in t)
                            full = iv == 0
                            tags.append((name, label + ("" if full else f".subset{iv}"), b1, b2, N, len(tables), closed,
                                         tables if closed and full and label == "closed" else None))
                            ctx.count(f"corr.irr.{label}" + ("" if full else ".op_subset")
                                      + (".closed_set" if closed else ".partial_maps"))
    out = ctx.lean(lines)
    for l, o, e, t in zip(lines, out, expect, tags):
        if t[0] == "avg":
            ctx.case(signature=(t, len(l)), nontrivial=t[6] > 1)
            model = parse_ratss(o)
            ok = len(model) == len(e) and all(len(r) == len(c) for r, c in zip(model, e))
            dmax = max((abs(complex(float(x)) - y) for r, c in zip(model, e) for x, y in zip(r, c)), default=0.0) if ok else 1.0
            if not ok or dmax > 1e-12:
                ctx.mismatch(f"average_XX_block {t[1:]}: model and code differ by {dmax:.3e}", dict(tag=t, line=l[:500]))
            continue
        ctx.case(signature=(t[:6], o), nontrivial=t[5] > 2)
        model = parse_ints(o)
        if model != e:
            ctx.mismatch(f"find_irreducible_Rab {t[:6]}: model keeps {model[:20]}..., code keeps {e[:20]}...",
                         dict(structure=t[0], set=t[1], blocks=t[2:4], N=t[4], nops=t[5]))
        elif t[7] is not None:
            # hypotheses of the theorem hold (full group, closed set): the code's answer is one minimum per orbit
            ref = orbit_minima(t[7], t[4])
            if ref != e:
                ctx.fail(f"find_irreducible_Rab on a closed set with the full group does not keep exactly the first "
                         f"point of every orbit ({t[0]}, blocks {t[2:4]}): kept {len(e)}, orbits {len(ref)}",
                         dict(structure=t[0], blocks=t[2:4], kept=e[:30], orbit_minima=ref[:30]))
            ctx.count("corr.irr.equals_orbit_minima")
    if lines:
        i = min(range(len(lines)), key=lambda j: len(lines[j]))
        ctx.sample(dict(protocol_line=lines[i][:400], model=out[i][:200], code=str(expect[i])[:200], tag=str(tags[i][:7])))


def replay(ctx, rec):
    done = set()
    for fl in rec.get("failures", []):
        c = fl.get("case", {})
        if "structure" in c and "sub_seed" in c and (c["structure"], c["sub_seed"], c.get("route")) not in done:
            done.add((c["structure"], c["sub_seed"], c.get("route")))
            # the catalogue's free parameters are part of the recorded case
            st = dict(lat=np.array(c["lattice"]), pos=c["positions"], proj=c["proj"], soc=c["soc"], magmom=c.get("magmom"),
                      names=None)
            S = structures(random.Random(0))
            st["names"] = S[c["structure"]]["names"]
            print(f"replaying {c['structure']} sub_seed={c['sub_seed']} proj={c['proj']} soc={c['soc']} magmom={c.get('magmom')}")
            check_structure(ctx, c["structure"], st, int(c["sub_seed"]), n_k=2, max_g=200, n_sub=4,
                            route=c.get("route", "symmetrize"), include_TR=bool(c.get("include_TR", True)))
    if not done:
        oracle(ctx, 1)
