"""C17 - energy smoothing applies every axis smoother."""
import math
import numpy as np
from fractions import Fraction as Fr

from ..common import F, rat, rats, ints, parse_rats, quiet

PID = "C17"
CLAIM = dict(
    design="3/C17",
    technique="Lean 4 proof over a field-polymorphic model of AbstractSmoother.__call__ / EnergyResult.dataSmooth "
              "(arrays = functions of the multi-index) + differential correspondence (bit-exact on integer kernels, "
              "within rounding on the code's own Fermi-Dirac/Gaussian kernels) + property oracle on the real code",
    text="Theorems (any field, any number of axes, any sizes/kernels/half-widths): one smoothing pass is linear; maps a "
         "constant to itself when the window sum is non-zero, which is proved for every positive kernel; reads only the "
         "window on the line through the output point and is linear over functions of the other axes; passes along "
         "different axes commute; dataSmooth equals the composition of the smoothers of all energy axes in ANY order "
         "(explicitly for two axes), is linear and homogeneous for data of ANY magnitude, preserves constants and is the identity when all smoothers are void; "
         "get_smoother returns void exactly for missing energy/smear, smear<=0 or <2 energies; after ANY history of "
         "reads of the memoised dataSmooth, in-place add() calls and derivations of new results from old ones (* / mul_array "
         "+ - transform, loaded copies: anything built by the constructor) EVERY live result's dataSmooth is the smoothing of "
         "its own current data (read, add(B), read gives dataSmooth(A)+dataSmooth(B)); inheriting parent.dataSmooth*factor is "
         "proved sound for scalars and unsound for an array varying along a smoothed axis (counterexample).  The pre-fix loop is proved to smooth axis 0 only (finding F1) and the "
         "pre-fix add() to keep a stale memoised value.",
    note="Trusted: Lean kernel + Mathlib; the harness; numpy tensordot/sum/transpose; cosh/exp values of the kernels "
         "(the model receives the code's smt array; the oracle recomputes the kernels from the formulas).",
)
TRUSTED = [
    "modelled: AbstractSmoother.__call__ (window bounds, kernel offsets, row normalisation, axis handling), "
    "VoidSmoother.__call__, EnergyResult.dataSmooth (loop over axes; memoisation by cached_property and its invalidation by "
    "the in-place EnergyResult.add as a state machine), NE1 = int(maxdE*smear/dE), get_smoother dispatch",
    "kernel values smt (1/cosh^2, exp) are a parameter of the model: the code's own array is passed to it; the oracle "
    "checks them against the closed formulas (k_B/e = 1.380649e-23/1.602176634e-19 eV/K)",
    "not modelled (oracle only): EnergyResult constructor/set_smoother, propagation of smoothers through + * transform, "
    "StaticCalculator passing its smoother to the result",
    "numpy transpose/tensordot/sum by their mathematical contract; floating point compared within derived rounding bounds",
]
RULE = ("data of every magnitude from 2^-100 to 2^60 (results in any units; no absolute threshold), arrays of 1-4 dimensions with odd/even/size-1/size-2 axes, real and complex, smoothed along every axis by "
        "Fermi-Dirac, Gaussian, void and asymmetric integer-table kernels with half-widths 0..NE+2 (windows truncated on "
        "both sides); EnergyResults with 1-3 energy axes and ranks 0-3; non-trivial = at least one non-void smoother "
        "with NE1 >= 1 acts on an axis of length >= 2; distinct = distinct (operation, shape, data, kernels)")

KB_EV = 1.380649e-23 / 1.602176634e-19  # Boltzmann / elementary charge, eV/K (both exact by definition of the SI)


# --------------------------------------------------------------------------------------------
# smoother construction from the repository's own classes

def table_smoother_cls():
    """a smoother with an arbitrary (asymmetric, integer valued) kernel that goes through the REAL
    AbstractSmoother.__init__ and __call__ (only `_broaden` is ours)"""
    from wannierberri.smoother import AbstractSmoother

    class TableSmoother(AbstractSmoother):
        _params = ['smear', 'E', 'maxdE', 'NE1']

        def __init__(self, E, table_fn, NE1):
            # dE is a power of two, smear = dE, maxdE = NE1 (+1/2 so that int() is far from a tie)
            self.table_fn = table_fn
            dE = E[1] - E[0]
            super().__init__(E, dE, NE1 + 0.5)

        def _broaden(self, E):
            off = np.rint(E / self.dE).astype(int)
            return np.array([self.table_fn(int(o)) for o in off], dtype=float) / self.dE

    return TableSmoother


def dyadic_grid(rng, n):
    """evenly spaced energies with a power-of-two step (all floats exact)"""
    dE = 2.0 ** rng.choice([-6, -5, -4, -3, -2])
    e0 = rng.randint(-8, 8) * dE * rng.choice([1, 4, 16])
    return e0 + dE * np.arange(n)


def rand_table(rng):
    """an asymmetric positive integer kernel as a function of the offset"""
    a, b, c = rng.randint(1, 9), rng.randint(0, 5), rng.randint(0, 3)
    kind = rng.choice(["asym", "asym", "sym", "flat"])
    if kind == "flat":
        return lambda o: 1
    if kind == "sym":
        return lambda o: a + b * abs(o) % 7 + 1
    return lambda o: 1 + (a + b * o + c * o * o) % 11


def make_smoother(rng, n, kinds=("FD", "G", "T", "V"), allow_big=True):
    """returns (smoother object, description dict).  n = axis length"""
    from wannierberri.smoother import FermiDiracSmoother, GaussianSmoother, VoidSmoother, get_smoother
    kind = rng.choice(kinds)
    if n < 2 and kind != "V":
        kind = "V"
    if kind == "V":
        how = rng.choice(["cls", "get_none", "get_zero", "none"])
        if how == "cls":
            return VoidSmoother(), dict(kind="V")
        if how == "get_none":
            return get_smoother(None, 10., "Gaussian"), dict(kind="V")
        if how == "get_zero":
            return get_smoother(dyadic_grid(rng, max(n, 2)), rng.choice([0., -1., None]), "Fermi-Dirac"), dict(kind="V")
        return None, dict(kind="V")
    E = dyadic_grid(rng, n)
    dE = E[1] - E[0]
    if kind == "T":
        ne1 = rng.choice([0, 1, 1, 2, 2, 3, n, n + 2] if allow_big else [0, 1, 2, 3])
        tab = rand_table(rng)
        s = table_smoother_cls()(E, tab, ne1)
        return s, dict(kind="T", E=E, NE1=ne1)
    # target half width in grid steps (non-integer so that int() is far from a tie)
    w = rng.choice([0.5, 1.5, 2.5, 3.5, 4.5, n + 0.5] if allow_big else [0.5, 1.5, 2.5, 3.5])
    maxdE = rng.choice([8, 8, 8, 4, 6, 3])
    smear = w * dE / maxdE
    via_get = (maxdE == 8) and rng.random() < 0.5
    if kind == "FD":
        T = smear / KB_EV
        s = get_smoother(E, T, "Fermi-Dirac") if via_get else FermiDiracSmoother(E, T, maxdE=maxdE)
        return s, dict(kind="FD", E=E, T=T, maxdE=maxdE)
    s = get_smoother(E, smear, "Gaussian") if via_get else GaussianSmoother(E, smear, maxdE=maxdE)
    return s, dict(kind="G", E=E, smear=smear, maxdE=maxdE)


def make_smoother_safe(ctx, rng, n, **kw):
    """an exception while constructing a smoother for a valid grid is a failure of the code, not of the harness"""
    try:
        return make_smoother(rng, n, **kw)
    except Exception as e:  # noqa
        ctx.fail(f"constructing a smoother for {n} energies raised {type(e).__name__}: {str(e)[:200]}", dict(n=n, kw=kw))
        return None, dict(kind="V")


def rand_shape(rng, ndim, mandatory=None):
    sh = [rng.choice([1, 2, 3, 3, 4, 5, 6, 7]) for _ in range(ndim)]
    return sh


MAGNITUDES = [0, 0, 0, 0, 0, -27, -30, -34, -40, -60, -100, 20, 60]   # powers of two: 1e-8 ~ 2^-26.6


def rand_data(rng, shape, cplx, integer=False, mag=None):
    """dyadic data of a random overall magnitude 2^mag (from 1e-30 to 1e18): smoothing is homogeneous, so the
    property must hold for results in any units; scaling by a power of two keeps every comparison exact"""
    out = _rand_data(rng, shape, cplx, integer)
    mag = rng.choice(MAGNITUDES) if mag is None else mag
    return out * 2.0 ** mag


def _rand_data(rng, shape, cplx, integer=False):
    n = int(np.prod(shape))
    if integer:
        re = np.array([rng.randint(-9, 9) for _ in range(n)], dtype=float)
        im = np.array([rng.randint(-9, 9) for _ in range(n)], dtype=float)
    else:
        re = np.array([rng.randint(-2 ** 12, 2 ** 12) / 2 ** 8 for _ in range(n)])
        im = np.array([rng.randint(-2 ** 12, 2 ** 12) / 2 ** 8 for _ in range(n)])
    if cplx:
        return (re + 1j * im).reshape(shape)
    return re.reshape(shape)


def slot_tokens(s):
    """protocol tokens of one smoother slot"""
    from wannierberri.smoother import VoidSmoother
    if s is None or isinstance(s, VoidSmoother):
        return "v _"
    return f"{int(s.NE1)} {rats(s.smt)}"


def parts(A):
    return [A.real, A.imag] if np.iscomplexobj(A) else [A]


# --------------------------------------------------------------------------------------------
def corr(ctx):
    from wannierberri.smoother import get_smoother, VoidSmoother, FermiDiracSmoother, GaussianSmoother
    from wannierberri.result import EnergyResult
    rng = ctx.rng
    lines, checks = [], []   # checks: (what, expected ndarray(float), exact?, tol, case)
    eps = 2.0 ** -52

    # ---- A. one pass, AbstractSmoother.__call__ -------------------------------------------------
    for it in range(ctx.n(60, 500)):
        ndim = rng.choice([1, 2, 2, 3, 3, 4])
        shape = rand_shape(rng, ndim)
        axis = rng.randrange(ndim)
        exact = rng.random() < 0.5
        s, desc = make_smoother_safe(ctx, rng, shape[axis], kinds=("T",) if exact else ("FD", "G", "T"))
        if desc["kind"] == "V":
            continue
        cplx = rng.random() < 0.4
        integer = exact
        exact = exact and not cplx     # numpy's complex/real division is not the correctly rounded real one
        A = rand_data(rng, shape, cplx, integer=integer)
        case = dict(op="smoother(A, axis)", shape=shape, axis=axis, smoother=desc, A=A)
        with ctx.attempt("AbstractSmoother.__call__", case):
            got = s(A, axis=axis)
            ctx.count(f"corr.call.kind={desc['kind']}")
            ctx.count(f"corr.call.ndim={ndim}")
            ctx.count("corr.call.bit-exact" if exact else "corr.call.rounding")
            ctx.count(f"corr.call.NE1={'>=NE' if s.NE1 >= s.NE else s.NE1}")
            tol = 0 if exact else 16 * (2 * s.NE1 + 3) * eps * np.abs(A).max()
            for Ap, gp in zip(parts(A), parts(got)):
                lines.append(f"smooth {ints(shape)} {rats(Ap.reshape(-1))} {axis} {int(s.NE1)} {rats(s.smt)}")
                checks.append(("AbstractSmoother.__call__", gp.reshape(-1), exact, tol, case))

    # ---- B. EnergyResult.dataSmooth -----------------------------------------------------------
    for it in range(ctx.n(50, 400)):
        nE = rng.choice([1, 2, 2, 2, 3])
        rank = rng.choice([0, 0, 1, 2]) if nE < 3 else rng.choice([0, 1])
        shape = [rng.choice([2, 3, 4, 5, 6]) for _ in range(nE)] + [3] * rank
        sms, descs = [], []
        for a in range(nE):
            s, d = make_smoother_safe(ctx, rng, shape[a], allow_big=False)
            sms.append(s)
            descs.append(d)
        nonvoid = [d for d in descs if d["kind"] != "V"]
        exact = len(nonvoid) <= 1 and all(d["kind"] == "T" for d in nonvoid)
        cplx = rng.random() < 0.4
        integer = exact
        exact = exact and not cplx
        A = rand_data(rng, shape, cplx, integer=integer)
        Es = [d.get("E", dyadic_grid(rng, shape[a])) for a, d in enumerate(descs)]
        case = dict(op="EnergyResult.dataSmooth", shape=shape, nE=nE, smoothers=descs, A=A)
        with ctx.attempt("EnergyResult.dataSmooth", case):
            res = EnergyResult(Es, A.copy(), smoothers=sms, rank=rank)
            got = res.dataSmooth
            ctx.count(f"corr.dataSmooth.nE={nE}")
            ctx.count("corr.dataSmooth.bit-exact" if exact else "corr.dataSmooth.rounding")
            ctx.count(f"corr.dataSmooth.nonvoid={len(nonvoid)}")
            width = sum(2 * int(s.NE1) + 3 for s in sms if s is not None and not isinstance(s, VoidSmoother))
            tol = 0 if exact else 16 * (width + 2) * eps * np.abs(A).max()
            slots = " ".join(slot_tokens(s) for s in sms)
            for Ap, gp in zip(parts(A), parts(got)):
                lines.append(f"datasmooth {ints(shape)} {rats(Ap.reshape(-1))} {nE} {slots}")
                checks.append(("EnergyResult.dataSmooth", gp.reshape(-1), exact, tol, case))

    # ---- B'. histories over several live results (memoised dataSmooth, derived and mutated results) -----------
    import os
    from wannierberri.symmetry.point_symmetry import Transform
    tmpdir = os.path.join(ctx.work, "corr-hist")
    os.makedirs(tmpdir, exist_ok=True)
    for it in range(ctx.n(30, 200)):
        nE = rng.choice([1, 2])
        shape = [rng.choice([2, 3, 4]) for _ in range(nE)]
        sms, descs = [], []
        for a in range(nE):
            s, d = make_smoother_safe(ctx, rng, shape[a], kinds=("T", "G", "T", "V"), allow_big=False)
            sms.append(s)
            descs.append(d)
        A = rand_data(rng, shape, False, integer=True)
        Es = [d.get("E", dyadic_grid(rng, shape[a])) for a, d in enumerate(descs)]
        case = dict(op="history", shape=shape, smoothers=descs, A=A)
        with ctx.attempt("history of derived / mutated results", case):
            objs = [(EnergyResult(Es, A.copy(), smoothers=sms, transformTR=Transform(), transformInv=Transform()), "orig")]
            toks = []
            for step in range(rng.randint(2, 7)):
                i = rng.randrange(len(objs))
                o, grp = objs[i]
                same = [k for k in range(len(objs)) if objs[k][1] == grp]
                op = rng.choice("rrraAmwwpsc") if len(objs) < 6 else rng.choice("rraA")
                if op == "r":
                    _ = rng.choice([lambda: o.dataSmooth, lambda: o.max, lambda: o._norm])()
                    toks.append(f"r{i}")
                elif op == "a":
                    B = rand_data(rng, shape, False, integer=True)
                    o.add(EnergyResult(Es, B, smoothers=o.smoothers))
                    toks.append(f"a{i}:" + rats(B.reshape(-1)))
                elif op == "A":
                    j = rng.choice(same)
                    o.add(objs[j][0])
                    toks.append(f"A{i}:{j}")
                elif op == "m":
                    c = rng.choice([2, -1, 0.5, 3, -0.25])
                    objs.append((o * c if rng.random() < 0.5 else c * o, grp))
                    toks.append(f"m{i}:{rats([c])}")
                elif op == "w":
                    axes = tuple(sorted(rng.sample(range(nE), rng.randint(1, nE))))
                    w = np.array([float(rng.randint(-4, 4)) for _ in range(int(np.prod([shape[a] for a in axes])))])
                    w = w.reshape([shape[a] for a in axes])
                    objs.append((o.mul_array(w, axes=axes), grp))
                    full = np.broadcast_to(w.reshape([shape[a] if a in axes else 1 for a in range(nE)]), shape)
                    toks.append(f"w{i}:" + rats(full.reshape(-1)))
                elif op in "ps":
                    j = rng.choice(same)
                    objs.append((o + objs[j][0] if op == "p" else o - objs[j][0], grp))
                    toks.append(f"{op}{i}:{j}")
                else:
                    name = os.path.join(tmpdir, f"c{it}_{step}")
                    o.save(name)
                    with quiet():
                        objs.append((EnergyResult.from_npz(name + ".npz"), "loaded"))
                    os.remove(name + ".npz")
                    toks.append(f"c{i}")
            got = np.concatenate([np.asarray(o.dataSmooth).reshape(-1) for o, _ in objs])
            ctx.count("corr.history")
            ctx.count(f"corr.history.objects={len(objs)}")
            width = sum(2 * int(s.NE1) + 3 for s in sms if s is not None and not isinstance(s, VoidSmoother))
            tol = 16 * (width + 2) * eps * float(max(np.abs(got).max(), max(np.abs(o.data).max() for o, _ in objs))) * 4
            slots = " ".join(slot_tokens(s) for s in sms)
            lines.append(f"heap {ints(shape)} {rats(A.reshape(-1))} {';'.join(toks)} {nE} {slots}")
            checks.append(("dataSmooth of every live object after a history", got, False, tol, case))

    out = ctx.lean(lines)
    for l, o, (what, exp, exact, tol, case) in zip(lines, out, checks):
        ctx.case(signature=l, nontrivial=True)
        try:
            model = parse_rats(o.replace("|", ","))
        except Exception:
            ctx.mismatch(f"{what}: model output not parsable: {o[:80]}", dict(line=l[:400], case=case))
            continue
        if len(model) != len(exp):
            ctx.mismatch(f"{what}: length {len(model)} vs {len(exp)}", dict(line=l[:400], case=case))
            continue
        if not np.isfinite(exp).all():
            ctx.fail(f"{what}: the code returned non-finite values for finite input", case)
            continue
        if exact:
            bad = [i for i, (m, e) in enumerate(zip(model, exp)) if float(m) != float(e)]
        else:
            bad = [i for i, (m, e) in enumerate(zip(model, exp)) if abs(float(m - F(e))) > tol]
        if bad:
            i = bad[0]
            ctx.mismatch(f"{what}: element {i}: model={float(model[i])!r} code={float(exp[i])!r} "
                         f"({'bit-exact' if exact else f'tol {tol:.2e}'})", dict(line=l[:600], case=case))
    if lines:
        ctx.sample(dict(protocol_line=lines[0][:300], model=out[0][:200], code=checks[0][1][:6]))

    # ---- C. construction: NE1 and get_smoother dispatch ------------------------------------------
    lines, expect, cases = [], [], []
    for it in range(ctx.n(80, 600)):
        n = rng.choice([2, 3, 5, 8, 13])
        E = dyadic_grid(rng, n)
        dE = E[1] - E[0]
        maxdE = rng.choice([8, 4, 6, 3, 2.5])
        s = None
        with ctx.attempt("smoother construction", dict(E=E, maxdE=maxdE)):
            if rng.random() < 0.5:
                # Gaussian, dyadic smear: maxdE*smear/dE is exact in floating point (ties included: exact integers)
                smear = rng.randint(1, 64) * dE / rng.choice([1, 2, 4, 8, 16])
                s = GaussianSmoother(E, smear, maxdE=maxdE)
            else:
                T = rng.uniform(5, 3000)
                s = FermiDiracSmoother(E, T, maxdE=maxdE)
                smear = s.smear
        if s is None:
            continue
        q = Fr(maxdE) * F(smear) / F(dE)
        if abs(q - round(q)) < Fr(1, 10 ** 9) and isinstance(s, FermiDiracSmoother):
            continue  # float rounding could decide the truncation: not a model-vs-code case
        lines.append(f"ne1 {rat(maxdE)} {rat(smear)} {rat(dE)}")
        expect.append(str(int(s.NE1)))
        cases.append(dict(op="NE1", maxdE=maxdE, smear=smear, dE=dE))
        ctx.count("corr.ne1")
        if len(s.smt) != 2 * s.NE1 + 1:
            ctx.fail("kernel length is not 2*NE1+1", cases[-1])
    for it in range(ctx.n(80, 400)):
        hasE = rng.random() < 0.85
        n = rng.choice([0, 1, 1, 2, 3, 7])
        smear = rng.choice([None, 0., -1., -0.25, 0.5, 2., 300.])
        mode = rng.choice([0, 0, 1, 1, 2])
        modestr = {0: "Fermi-Dirac", 1: "Gaussian", 2: rng.choice([None, "Lorentz", "gaussian"])}[mode]
        E = dyadic_grid(rng, n) if hasE else None
        try:
            s = get_smoother(E, smear, modestr)
            kind = {VoidSmoother: "void", FermiDiracSmoother: "FD", GaussianSmoother: "G"}.get(type(s), type(s).__name__)
        except ValueError:
            kind = "error"
        except Exception as e:  # noqa
            kind = f"raised:{type(e).__name__}"
        lines.append(f"getsmoother {int(hasE)} {n} {'none' if smear is None else rat(smear)} {mode}")
        expect.append(kind)
        cases.append(dict(op="get_smoother", hasE=hasE, n=n, smear=smear, mode=modestr))
        ctx.count(f"corr.get_smoother->{kind}")
    out = ctx.lean(lines)
    for l, o, e, c in zip(lines, out, expect, cases):
        ctx.case(signature=l, nontrivial=True)
        if o != e:
            ctx.mismatch(f"{c['op']}: model={o} code={e}", dict(line=l, case=c))


# --------------------------------------------------------------------------------------------
# property-level oracle on the real code (independent reference: dense row-normalised band matrices)

def ref_kernel(desc, n):
    """(NE1, kernel[0..2NE1]) recomputed from the documentation formulas, not from the object"""
    if desc["kind"] == "T":
        raise ValueError
    E = desc["E"]
    dE = E[1] - E[0]
    if desc["kind"] == "FD":
        smear = desc["T"] * KB_EV
        ne1 = int(desc["maxdE"] * smear / dE)
        x = np.arange(-ne1, ne1 + 1) * dE
        return ne1, 1.0 / (4 * smear * np.cosh(x / (2 * smear)) ** 2)
    smear = desc["smear"]
    ne1 = int(desc["maxdE"] * smear / dE)
    x = np.arange(-ne1, ne1 + 1) * dE
    return ne1, np.exp(-x ** 2 / smear ** 2) / (smear * math.sqrt(math.pi))


def ref_matrix(s, desc, n):
    """M[i,j] = weight of input j in output i: kernel centred at i, truncated at the ends, rows sum to one"""
    if s is None or desc["kind"] == "V":
        return np.eye(n)
    if desc["kind"] == "T":
        ne1 = desc["NE1"]
        ker = np.array([s.table_fn(o) for o in range(-ne1, ne1 + 1)], dtype=float)
    else:
        ne1, ker = ref_kernel(desc, n)
    M = np.zeros((n, n))
    for i in range(n):
        for j in range(n):
            if abs(j - i) <= ne1:
                M[i, j] = ker[ne1 + j - i]
        M[i] /= M[i].sum()
    return M


def ref_apply(M, A, axis):
    return np.moveaxis(np.tensordot(M, A, axes=(1, axis)), 0, axis)


def close(a, b, scale, n_ops):
    tol = 64 * (n_ops + 4) * 2.0 ** -52 * scale      # relative to the magnitude of the data, no absolute floor
    return a.shape == b.shape and (a.size == 0 or np.abs(a - b).max() <= tol), tol


def oracle(ctx, scale):
    from wannierberri.smoother import VoidSmoother
    from wannierberri.result import EnergyResult
    rng = ctx.rng

    # ---- single smoothers ---------------------------------------------------------------------
    for it in range(ctx.n(120, 1200) * scale):
        ndim = rng.choice([1, 2, 2, 3, 3, 4])
        shape = rand_shape(rng, ndim)
        axis = rng.randrange(ndim)
        s, desc = make_smoother_safe(ctx, rng, shape[axis], kinds=("FD", "G", "T", "FD", "G", "V"))
        if s is None:
            s = VoidSmoother()
        cplx = rng.random() < 0.4
        A = rand_data(rng, shape, cplx)
        B = rand_data(rng, shape, cplx)
        n = shape[axis]
        case = dict(shape=shape, axis=axis, smoother=desc, complex=cplx, A=A)
        with ctx.attempt("smoother(A, axis)", case):
            M = ref_matrix(s, desc, n)
            width = 2 * getattr(s, "NE1", 0) + 1
            nontriv = desc["kind"] != "V" and getattr(s, "NE1", 0) >= 1 and n >= 2
            ctx.case(signature=("one", tuple(shape), axis, repr(desc.get("kind")), A.tobytes()), nontrivial=nontriv)
            ctx.count(f"oracle.one.kind={desc['kind']}")
            ctx.count(f"oracle.one.axis={axis}/{ndim}")
            ctx.count("oracle.one.complex" if cplx else "oracle.one.real")
            amax = max(np.abs(A).max(), np.abs(B).max())
            got = s(A, axis=axis)
            # (a) equals the convolution with the documented kernel along that axis
            ok, tol = close(got, ref_apply(M, A, axis), amax, width)
            if not ok:
                ctx.fail(f"smoother output differs from the row-normalised convolution along axis {axis} "
                         f"(max diff {np.abs(got - ref_apply(M, A, axis)).max() if got.shape == A.shape else 'shape'}, tol {tol:.1e})",
                         dict(case, got=got))
                continue
            if desc["kind"] == "V":
                if not np.array_equal(got, A):
                    ctx.fail("void smoother changed the array", case)
                continue
            # (b) linear
            c, d = rng.choice([2.0, -0.5, 3.25]), rng.choice([-1.0, 0.75, 4.0])
            if cplx:
                c = c + 0.5j
            lin = s(c * A + d * B, axis=axis)
            ok, tol = close(lin, c * got + d * s(B, axis=axis), amax * 8, width)
            if not ok:
                ctx.fail("smoother is not linear", dict(case, B=B, c=c, d=d))
            # (b') homogeneous: scaling the data by a power of two (any units) scales the output exactly
            for e2 in (-35, -50, 40):
                if not np.array_equal(s(A * 2.0 ** e2, axis=axis), got * 2.0 ** e2):
                    ctx.fail(f"smoother is not homogeneous: s(A*2^{e2}) != s(A)*2^{e2}", dict(case, exponent=e2))
                    break
            # (c) constants
            cst = rng.choice([1.0, -2.5, 7.0]) * 2.0 ** rng.choice(MAGNITUDES)
            C = np.full(shape, cst, dtype=A.dtype)
            ok, tol = close(s(C, axis=axis), C, abs(cst), width)
            if not ok:
                ctx.fail("a constant array is not mapped to the same constant", dict(case, const=cst))
            # (d) acts along the requested axis only: perturb one fibre, only that fibre may change;
            #     and slicing another axis commutes with smoothing
            if ndim >= 2:
                idx = [rng.randrange(k) for k in shape]
                P = A.copy()
                sl = tuple(slice(None) if a == axis else idx[a] for a in range(ndim))
                P[sl] += 1.0 + np.arange(n)
                diff = s(P, axis=axis) - got
                mask = np.ones(shape, dtype=bool)
                mask[sl] = False
                if np.abs(diff[mask]).max(initial=0) != 0:
                    ctx.fail("changing one line along the axis changed outputs outside that line", dict(case, line=idx))
                other = rng.choice([a for a in range(ndim) if a != axis])
                j = rng.randrange(shape[other])
                sub = np.take(A, j, axis=other)
                ok, tol = close(np.take(got, j, axis=other), s(sub, axis=axis - (1 if other < axis else 0)), amax, width)
                if not ok:
                    ctx.fail("smoothing a slice differs from the slice of the smoothed array", dict(case, other=other, j=j))
            # (e) two different axes commute
            if ndim >= 2:
                b = rng.choice([a for a in range(ndim) if a != axis])
                t, tdesc = make_smoother_safe(ctx, rng, shape[b], kinds=("FD", "G", "T"))
                if t is not None and tdesc["kind"] != "V":
                    x = s(t(A, axis=b), axis=axis)
                    y = t(s(A, axis=axis), axis=b)
                    ok, tol = close(x, y, amax, width + 2 * t.NE1 + 1)
                    if not ok:
                        ctx.fail("smoothers along different axes do not commute", dict(case, axis2=b, smoother2=tdesc))

    # ---- EnergyResult.dataSmooth ----------------------------------------------------------------
    for it in range(ctx.n(120, 1200) * scale):
        nE = rng.choice([1, 2, 2, 2, 3, 3])
        rank = rng.choice([0, 1, 2, 3]) if nE < 3 else rng.choice([0, 1, 2])
        shape = [rng.choice([1, 2, 3, 4, 5, 6, 7]) for _ in range(nE)] + [3] * rank
        allvoid = rng.random() < 0.12
        sms, descs = [], []
        for a in range(nE):
            s, d = make_smoother_safe(ctx, rng, shape[a], kinds=("V",) if allvoid else ("FD", "G", "T", "V", "FD", "G"))
            sms.append(s)
            descs.append(d)
        cplx = rng.random() < 0.4
        A = rand_data(rng, shape, cplx)
        Es = [d.get("E", dyadic_grid(rng, shape[a])) for a, d in enumerate(descs)]
        case = dict(shape=shape, nE=nE, rank=rank, smoothers=descs, complex=cplx, A=A)
        with ctx.attempt("EnergyResult.dataSmooth", case):
            how = rng.choice(["list", "tuple", "single", "none"]) if nE == 1 else rng.choice(["list", "tuple"])
            if allvoid and rng.random() < 0.5:
                res = EnergyResult(Es, A.copy(), rank=rank)           # "a result without smoothers"
            elif how == "single":
                res = EnergyResult(Es[0], A.copy(), smoothers=sms[0], rank=rank)
            elif how == "none" and descs[0]["kind"] == "V":
                res = EnergyResult(Es, A.copy(), smoothers=None, rank=rank)
            else:
                res = EnergyResult(Es, A.copy(), smoothers=(tuple(sms) if how == "tuple" else list(sms)), rank=rank)
            Ms = [ref_matrix(s, d, shape[a]) for a, (s, d) in enumerate(zip(sms, descs))]
            order = list(range(nE))
            rng.shuffle(order)
            ref = A
            for a in order:
                ref = ref_apply(Ms[a], ref, a)
            width = sum(2 * getattr(s, "NE1", 0) + 1 for s in sms if s is not None)
            nonvoid = sum(1 for a, d in enumerate(descs) if d["kind"] != "V" and sms[a].NE1 >= 1)
            ctx.case(signature=("ds", tuple(shape), nE, A.tobytes(), tuple(d["kind"] for d in descs)), nontrivial=nonvoid >= 1)
            ctx.count(f"oracle.dataSmooth.nE={nE}.active_smoothers={nonvoid}")
            ctx.count(f"oracle.dataSmooth.rank={rank}")
            got = res.dataSmooth
            ok, tol = close(got, ref, np.abs(A).max(), width)
            if not ok:
                only = [a for a in range(nE) if close(got, ref_apply(Ms[a], A, a), np.abs(A).max(), width)[0]]
                which = f" (it equals smoothing axis {only[0]} only)" if only else ""
                ctx.fail(f"dataSmooth differs from the composition of all {nE} axis smoothers{which}; "
                         f"max diff {np.abs(got - ref).max():.3e}, tol {tol:.1e}", dict(case, got=got))
                continue
            if all(d["kind"] == "V" for d in descs) and not np.array_equal(got, A):
                ctx.fail("a result without smoothers is changed by dataSmooth", case)
            if not np.array_equal(res.data, A):
                ctx.fail("dataSmooth modified the raw data", case)
            # smoothers survive arithmetic and the smoothed sum is the sum of the smoothed parts
            B = rand_data(rng, shape, cplx)
            res2 = EnergyResult(Es, B.copy(), smoothers=list(sms), rank=rank)
            if rng.random() < 0.5:
                comb, want = res * 2.0 + res2, 2.0 * got + res2.dataSmooth
            else:
                comb, want = res - res2 * 0.5, got - 0.5 * res2.dataSmooth
            for e2 in (-35, -60, 30):
                sc = res * 2.0 ** e2
                if not np.array_equal(sc.dataSmooth, got * 2.0 ** e2):
                    ctx.fail(f"dataSmooth is not homogeneous: (res*2^{e2}).dataSmooth != res.dataSmooth*2^{e2}",
                             dict(case, exponent=e2))
                    break
            ok, tol = close(comb.dataSmooth, want, 4 * max(np.abs(A).max(), np.abs(B).max()), width)
            if not ok:
                ctx.fail("dataSmooth of a linear combination of results is not the combination of their dataSmooth",
                         dict(case, B=B))

    history_oracle(ctx, scale)
    calc_oracle(ctx, scale)


def smooth_ref(data, Ms):
    ref = data
    for a, M in enumerate(Ms):
        ref = ref_apply(M, ref, a)
    return ref


def history_oracle(ctx, scale):
    """hidden state through histories: several live results; every operation that derives a result from old ones
    (*, reflected *, /, mul_array along energy and tensor axes, +, -, transform, copy through save/from_npz) or
    mutates one (add), interleaved with reads of dataSmooth / max / _norm / _maxval / _normder on parents and
    children in random order.  After EVERY step every live object whose smoothed data are memoised, and at the end
    every live object, must have dataSmooth == its CURRENT data convolved with its own smoothers."""
    import os
    from wannierberri.result import EnergyResult
    from wannierberri.symmetry.point_symmetry import Transform, PointSymmetry
    rng = ctx.rng
    tmp = os.path.join(ctx.work, "hist")
    os.makedirs(tmp, exist_ok=True)
    for it in range(ctx.n(60, 500) * scale):
        nE = rng.choice([1, 1, 2, 2, 2, 3])
        rank = rng.choice([0, 1, 1, 2]) if nE < 3 else rng.choice([0, 1])
        shape = [rng.choice([2, 3, 4, 5, 6]) for _ in range(nE)] + [3] * rank
        sms, descs = [], []
        for a in range(nE):
            s, d = make_smoother_safe(ctx, rng, shape[a], kinds=("FD", "G", "T", "G", "FD", "V"), allow_big=False)
            sms.append(s)
            descs.append(d)
        cplx = rng.random() < 0.3
        Es = [d.get("E", dyadic_grid(rng, shape[a])) for a, d in enumerate(descs)]
        tTR = Transform(factor=rng.choice([1, -1]), conj=rng.random() < 0.3)
        tInv = Transform(factor=rng.choice([1, -1]))
        Ms0 = [ref_matrix(s, d, shape[a]) for a, (s, d) in enumerate(zip(sms, descs))]
        MsVoid = [np.eye(shape[a]) for a in range(nE)]
        width = sum(2 * getattr(s, "NE1", 0) + 1 for s in sms if s is not None) + 2
        hist = []
        case = dict(shape=shape, nE=nE, rank=rank, smoothers=descs, complex=cplx, history=hist)
        ctx.count("oracle.history")

        def fresh():
            return EnergyResult(Es, rand_data(rng, shape, cplx), smoothers=list(sms), rank=rank, transformTR=tTR,
                                transformInv=tInv, comment="h")
        with ctx.attempt("history of derived / mutated results", case):
            objs = [[fresh(), Ms0]]          # [object, reference matrices of its own smoothers]
            if rng.random() < 0.5:
                objs.append([fresh(), Ms0])
                hist.append("o1 = fresh")
            bad = False

            def check(k, via_property):
                o, Ms = objs[k]
                if not via_property and "dataSmooth" not in o.__dict__:
                    return True
                got = o.dataSmooth if via_property else o.__dict__["dataSmooth"]
                ref = smooth_ref(o.data, Ms)
                ok, tol = close(np.asarray(got), ref, np.abs(o.data).max(), width)
                if not ok:
                    ctx.fail(f"after the history {hist}: dataSmooth of object o{k} is not its current data convolved with "
                             f"its smoothers (max diff {np.abs(np.asarray(got) - ref).max():.3e}, tol {tol:.1e})",
                             dict(case, object=k, history=list(hist)))
                return ok
            for step in range(rng.randint(3, 9)):
                i = rng.randrange(len(objs))
                o, Ms = objs[i]
                same = [k for k in range(len(objs)) if objs[k][1] is Ms]
                op = rng.choice(["read", "read", "read", "mul", "rmul", "div", "mul_array", "mul_array", "mul_array",
                                 "plus", "minus", "transform", "add", "copy"])
                if len(objs) >= 8 and op not in ("read", "add"):
                    op = "read"
                new = None
                if op == "read":
                    what = rng.choice(["dataSmooth", "dataSmooth", "max", "_norm", "_maxval", "_normder"])
                    hist.append(f"o{i}.{what}")
                    val = getattr(o, what)
                    ref = smooth_ref(o.data, Ms)
                    want = {"dataSmooth": ref, "max": None, "_norm": np.linalg.norm(ref), "_maxval": np.abs(ref).max(),
                            "_normder": np.linalg.norm(ref[1:] - ref[:-1])}[what]
                    if what == "max":
                        want = np.array([np.abs(ref).max(), np.linalg.norm(ref), np.linalg.norm(ref[1:] - ref[:-1])])
                    ok, tol = close(np.asarray(val), np.asarray(want), np.abs(o.data).max() * np.sqrt(o.data.size), width)
                    if not ok:
                        ctx.fail(f"after the history {hist}: o{i}.{what} is not computed from the current data convolved "
                                 f"with the smoothers", dict(case, object=i, history=list(hist)))
                        bad = True
                elif op == "mul":
                    c = rng.choice([2, -3, 0.5, 2.5, np.float64(1.25), np.int64(3)])
                    hist.append(f"o{len(objs)} = o{i} * {c}")
                    new = [o * c, Ms]
                elif op == "rmul":
                    c = rng.choice([-1, 4, 0.25])
                    hist.append(f"o{len(objs)} = {c} * o{i}")
                    new = [c * o, Ms]
                elif op == "div":
                    c = rng.choice([2, -4.0, 3.0])
                    hist.append(f"o{len(objs)} = o{i} / {c}")
                    new = [o / c, Ms]
                elif op == "mul_array":
                    nd = len(shape)
                    k = rng.choice(["energy", "energy", "several", "tensor"]) if rank else rng.choice(["energy", "several"])
                    if k == "energy":
                        axes = (rng.randrange(nE),)
                    elif k == "tensor":
                        axes = (rng.randrange(nE, nd),)
                    else:
                        axes = tuple(sorted(rng.sample(range(nd), rng.randint(1, min(nd, 3)))))
                    w = np.array([rng.randint(-12, 12) / 4 + 0.125 for _ in range(int(np.prod([shape[a] for a in axes])))])
                    w = w.reshape([shape[a] for a in axes])
                    arg = axes[0] if len(axes) == 1 and rng.random() < 0.5 else axes
                    hist.append(f"o{len(objs)} = o{i}.mul_array(w{list(w.shape)}, axes={arg})")
                    new = [o.mul_array(w, axes=arg), Ms]
                elif op in ("plus", "minus"):
                    j = rng.choice(same)
                    hist.append(f"o{len(objs)} = o{i} {'+' if op == 'plus' else '-'} o{j}")
                    new = [o + objs[j][0] if op == "plus" else o - objs[j][0], Ms]
                elif op == "transform":
                    M = np.zeros((3, 3))
                    perm = list(range(3))
                    rng.shuffle(perm)
                    for r_ in range(3):
                        M[r_, perm[r_]] = rng.choice([1., -1.])
                    g = PointSymmetry(M, TR=rng.random() < 0.5)
                    hist.append(f"o{len(objs)} = o{i}.transform(signed permutation, TR={g.TR})")
                    new = [o.transform(g), Ms]
                elif op == "add":
                    j = rng.choice(same)
                    hist.append(f"o{i}.add(o{j})")
                    before = o.data.copy()
                    other = objs[j][0].data.copy()
                    o.add(objs[j][0])
                    if not np.array_equal(o.data, before + other):
                        ctx.fail("EnergyResult.add is not the element-wise in-place sum", dict(case, history=list(hist)))
                        bad = True
                elif op == "copy":
                    hist.append(f"o{len(objs)} = from_npz(save(o{i}))")
                    name = os.path.join(tmp, f"h{it}_{step}")
                    o.save(name)
                    with quiet():
                        new = [EnergyResult.from_npz(name + ".npz"), MsVoid]
                    os.remove(name + ".npz")
                    if not np.array_equal(new[0].data, o.data):
                        ctx.fail("a saved and loaded copy has different data", dict(case, history=list(hist)))
                if new is not None:
                    objs.append(new)
                # nobody may carry a stale memoised value, parents and children alike
                if not all(check(k, via_property=False) for k in range(len(objs))) or bad:
                    bad = True
                    break
            if not bad:
                order = list(range(len(objs)))
                rng.shuffle(order)
                hist.append("read every live object")
                for k in order:
                    if not check(k, via_property=True):
                        break
            ctx.case(signature=("hist", tuple(shape), tuple(hist)), nontrivial=True)
            ctx.count(f"oracle.history.objects={min(len(objs), 8)}")


def calc_oracle(ctx, scale):
    """glue: a static calculator hands its smoother to the result; dataSmooth = smoother applied to data"""
    from ..wbsys import rand_system, wb
    from wannierberri.smoother import get_smoother
    rs = np.random.RandomState(ctx.rng.getrandbits(31))
    for it in range(ctx.n(2, 8) * min(scale, 2)):
        nef = int(rs.choice([7, 12, 21]))
        Ef = np.linspace(-1.0, 1.0, nef)
        mode = ["Fermi-Dirac", "Gaussian"][it % 2]
        dE = Ef[1] - Ef[0]
        smear = float(rs.uniform(0.2, 0.6) * dE)       # eV; half width 1.6 .. 4.8 steps
        par = smear / KB_EV if mode == "Fermi-Dirac" else smear
        desc = dict(kind="FD", E=Ef, T=par, maxdE=8) if mode == "Fermi-Dirac" else dict(kind="G", E=Ef, smear=par, maxdE=8)
        case = dict(what="static calculators with smoother", mode=mode, Efermi=Ef, param=par)
        with ctx.attempt("calculator with smoother", case):
            with quiet():
                s = rand_system(rs, num_wann=3, nR=6, matrices=("Ham", "AA"))
                sm = get_smoother(Ef, par, mode)
                calcs = {"dos": wb.calculators.static.DOS(Efermi=Ef, smoother=sm),
                         "ahc": wb.calculators.static.AHC(Efermi=Ef, smoother=sm)}
                res = wb.evaluate_k(s, k=rs.uniform(0, 1, 3), calculators=calcs, return_single_as_dict=True)
            M = ref_matrix(sm, desc, nef)
            for key, r in res.items():
                ctx.case(signature=("calc", key, nef, mode, par), nontrivial=True)
                ctx.count("oracle.calculator_glue")
                ok, tol = close(r.dataSmooth, ref_apply(M, r.data, 0), np.abs(r.data).max(), 2 * sm.NE1 + 1)
                if not ok:
                    ctx.fail(f"{key}: dataSmooth of a calculator result is not its smoother applied to the data",
                             dict(case, key=key))


def replay(ctx, case):
    oracle(ctx, 1)
