"""C05 - results are invariant under relabelling or co-centred rotation of the Wannier basis."""
import copy
import numpy as np
from fractions import Fraction as Fr

from ..common import rats, ratss, ints, quiet, F
from .c04 import tabulators, integrators, compare, gmat, to_np, parse_gm, ALLMAT

PID = "C05"
CLAIM = dict(
    design="3/C05",
    technique="Lean 4 proofs over an executable model of System_R.reorder / Rvectors.reorder / cRvec_shifted / "
              "Rvectors.derivative and of the rotation X(R) -> U^H X(R) U (Mathlib matrices for spectrum and "
              "Hamiltonian-gauge statements) + exact differential correspondence with the real System_R.reorder on dyadic "
              "systems + property oracle on the real code (run() and evaluate_k before/after the transformation)",
    text="Proved for every size, lattice, lattice vector, derivative order and scalar field: reorder is conjugation by a "
         "permutation matrix (P P^T = 1) and commutes with the derivative factor i(R+t_j-t_i) of every order because "
         "matrices, centres and shifts are permuted by the same index list, and with the Fourier sum; a k-independent "
         "unitary that mixes only co-centred Wannier functions commutes with the derivative operator at every order, "
         "and a rotation mixing non-co-centred functions does not (explicit counterexample); the characteristic "
         "polynomial of H(k) and every Hamiltonian-gauge matrix (U^H V)^H (U^H X U)(U^H V) = V^H X V are unchanged.  "
         "That every calculator is a function of Hamiltonian-gauge matrices and energies only is the structure of the "
         "code, not a theorem: it is exercised by the oracle (10 integrated calculators, 16 band-resolved tabulators).",
    note="Trusted: Lean kernel + Mathlib; harness; numpy eigh/einsum/FFT.  Theorems over exact fields; oracle tolerance "
         "1e-8 relative to the size of the quantity (observed 1e-14).  The gauge freedom of eigh inside degenerate "
         "subspaces is C04.",
)
TRUSTED = [
    "modelled: System_R.reorder and spin_block2interlace (EVERY stored matrix - the systems carry all keys known to "
    "system.num_cart_dim: Ham, AA, BB, CC, SS, FF, GG, OO, SA, SHA, SR, SH, SHR, rotAA, rotAAab, overlap_up_down, dV_soc_* - "
    "and centres), Rvectors.reorder (left/right shifts), Rvectors.cRvec_shifted, "
    "Rvectors.derivative (any order); the rotation of a system is the harness helper rotate_system, itself checked "
    "against the model",
    "modelled as a state machine: the shift bookkeeping of Rvectors (separate left / right shift lists, aliasing, the "
    "has_shifts_right flag) under histories of double_spin and reorder (theorems shifts_follow_centres, "
    "flag_guarded_reorder_breaks_after_double_spin; correspondence lines `shist` on the real System_R after the history)",
    "not modelled (oracle only): eigh, R_to_k/FFT, the formulas and calculators, run(); double_spin and the index list "
    "of spin_block2interlace enter the correspondence as prehistory (their own output is the starting state, the model "
    "checks the reorder that follows)",
    "dyadic lattices/centres/matrices make numpy's arithmetic exact in the correspondence (cRvec_shifted within 1e-12 "
    "because wannier_centers_red passes through a matrix inverse)",
]
RULE = ("corr: dyadic systems with 2-5 Wannier functions, random permutations (identity and non-involutions included), "
        "EVERY matrix key known to the code (19 names, ranks 0-2) compared after reorder and after "
        "spin_block2interlace (both directions), derivative orders 1 and 2; oracle: Hermitian systems with Ham, AA, "
        "BB, CC, SS whose Wannier functions share centres in groups of sizes 1-3, random permutation, random block "
        "unitary on the co-centred groups, and both composed (permutations preferably not involutions); the systems carry "
        "every matrix key and the integrated calculators include those consuming OO (AHC OO_uIu), FF (AHC_test, quantum "
        "metric), SA/SHA (SHC ryoo), SR/SH/SHR (SHC qiao); run() on FFT grids and evaluate_k at random k; the system "
        "is always USED in a calculation before it is deep-copied and transformed (history: caches populated); "
        "multi-step histories: before the transformation under test the system passes through random sequences of the "
        "other structural operations of the API (double_spin of a spinless system, earlier reorder, spin_block2interlace "
        "in both directions, use in a calculation), in the correspondence (left AND right shifts, centres, every matrix "
        "compared with the model after the history) and in the oracle (tabulated quantities, AHC, Morb, Ohmic at a random "
        "k; the transformation is applied to a deep copy or in place).  "
        "non-trivial = permutation is not the identity / some group has >= 2 functions; distinct = distinct "
        "(kind, seed, parameters)")

LATTICES = [np.eye(3), np.diag([1.0, 2.0, 0.5]), np.array([[1, 0, 0], [0.5, 1, 0], [0, 0, 2.0]]),
            np.array([[2.0, 0, 0], [0, 1, 0.5], [0.25, 0, 1]])]


def all_matrix_keys():
    """every real-space matrix name the code knows (read from system.num_cart_dim) with its number of Cartesian indices"""
    import re
    import inspect
    from wannierberri.system.system import num_cart_dim
    keys = sorted(set(re.findall(r'"([A-Za-z_0-9]+)"', inspect.getsource(num_cart_dim))))
    return {k: num_cart_dim(k) for k in keys}


def add_all_matrices(rs, s, dyadic=False):
    """store a random matrix (X(-R) = X(R)^dagger) under every known key the system does not have yet"""
    nw = s.num_wann
    for key, rank in all_matrix_keys().items():
        if s.has_R_mat(key):
            continue
        shape = (s.rvec.nRvec, nw, nw) + (3,) * rank
        X = rs.uniform(-1, 1, shape) + 1j * rs.uniform(-1, 1, shape)
        X = 0.5 * (X + s.rvec.conj_XX_R(X))
        if dyadic:
            X = np.round(X.real * 8) / 8 + 1j * np.round(X.imag * 8) / 8
        s.set_R_mat(key, X)
    return s


def rotate_system(s, U):
    """apply X(R) -> U^H X(R) U to every real-space matrix of a System_R (centres are kept)"""
    for key in list(s._XX_R):
        X = s.get_R_mat(key)
        s.set_R_mat(key, np.einsum("ba,rbc...,cd->rad...", U.conj(), X, U), reset=True)


SPIN_KEYS = ("SS", "SHR", "SHA", "SH", "SA", "SR")


def strip_spin(s):
    """make a system spinless again (double_spin refuses systems that carry spin matrices)"""
    for key in list(s._XX_R):
        if key in SPIN_KEYS or key.startswith("dV_soc") or key == "overlap_up_down":
            del s._XX_R[key]
    return s


def spin_mapping(nw, backward):
    """the index list of spin_block2interlace, written from its docstring: block = all up then all down,
    interlace = up, down, up, down ..."""
    h = nw // 2
    if backward:
        return [2 * i for i in range(h)] + [2 * i + 1 for i in range(h)]
    return [i // 2 + (i % 2) * h for i in range(nw)]


def dyadic_system(rs, nw, lattice, centers):
    from ..wbsys import rand_system
    with quiet():
        s = rand_system(rs, num_wann=nw, nR=3, max_R=1, lattice=lattice, matrices=("Ham", "AA", "SS"), centers=centers)
        for key in list(s._XX_R):
            X = s.get_R_mat(key)
            s._XX_R[key] = np.round(X.real * 8) / 8 + 1j * np.round(X.imag * 8) / 8
        add_all_matrices(rs, s, dyadic=True)
    return s


def fr_mat(X):
    return [[F(x) for x in row] for row in np.real(X)], [[F(x) for x in row] for row in np.imag(X)]


def corr(ctx):
    rng = ctx.rng
    rs = np.random.RandomState(rng.getrandbits(31))
    lines, checks = [], []

    def add(line, kind, code, case):
        lines.append(line)
        checks.append((kind, np.asarray(code), case))

    for it in range(ctx.n(12, 100)):
        nw = rng.randint(2, 5)
        lat = LATTICES[rng.randrange(len(LATTICES))]
        cen = np.array([[rng.randint(0, 7) / 8 for _ in range(3)] for _ in range(nw)])
        if rng.random() < 0.5:
            cen[rng.randrange(nw)] = cen[0]
        s = dyadic_system(rs, nw, lat, cen)
        # prehistory: the system reaches reorder() after other structural operations of the API (the property
        # quantifies over systems, not over freshly constructed ones): an earlier reorder, double_spin (spinless copy),
        # spin_block2interlace in either direction
        pre = []
        cen0 = cen.copy()
        uniq = sorted({tuple(r) for r in cen0})
        labels0 = [uniq.index(tuple(r)) for r in cen0]
        hist = []                       # the history as the model's operations: d = double_spin, r:<index list>
        for _ in range(rng.choice([0, 0, 1, 1, 2, 3])):
            op = rng.choice(["reorder", "double_spin", "block2interlace", "interlace2block"])
            with quiet():
                if op == "reorder":
                    q = list(range(nw))
                    rng.shuffle(q)
                    s.reorder(q)
                    cen = cen[q]
                    hist.append("r:" + ints(q))
                elif op == "double_spin":
                    if getattr(s, "spinor", False) or nw > 4:
                        continue
                    strip_spin(s)
                    s.double_spin()
                    cen = np.repeat(cen, 2, axis=0)
                    nw = 2 * nw
                    hist.append("d")
                else:
                    if nw % 2:
                        continue
                    back = op == "interlace2block"
                    s.spin_block2interlace(backward=back)
                    cen = cen[spin_mapping(nw, back)]
                    hist.append("r:" + ints(spin_mapping(nw, back)))
            pre.append(op)
            ctx.count(f"corr.prehistory.{op}")
        p = list(range(nw))
        if rng.random() < 0.9:
            while p == sorted(p):
                rng.shuffle(p)
        case = dict(nw=nw, lattice=lat, centers=cen, perm=p, prehistory=pre)
        ctx.count(f"corr.nw={nw}")
        ctx.count("corr.identity_perm" if p == sorted(p) else "corr.nontrivial_perm")
        if rng.random() < 0.7:
            # history: derived quantities were already evaluated (and cached) before the reorder
            _ = s.rvec.cRvec_shifted, s.rvec.shifts_diff_red, s.wannier_centers_red
            ctx.count("corr.caches_populated_before_reorder")
        s2 = copy.deepcopy(s)
        with ctx.attempt("System_R.reorder", case):
            with quiet():
                s2.reorder(p)
            nR = s.rvec.nRvec
            if not np.array_equal(s.rvec.iRvec, s2.rvec.iRvec):
                ctx.fail("reorder changed the list of R vectors", case)
            cen_new = cen[p]
            # the shift bookkeeping after the WHOLE history (model: runShifts): centre labels of the left shifts, the
            # right shifts and the centres, function by function
            def labels_of(rows):
                return [min(range(len(uniq)), key=lambda g: np.abs(np.asarray(uniq[g]) - r).max()) for r in rows]
            lines.append(f"shist {ints(labels0)} {'|'.join(hist + ['r:' + ints(p)])}")
            checks.append(("labels", ";".join(ints(labels_of(a)) for a in (s2.rvec.shifts_left_red, s2.rvec.shifts_right_red,
                                                                            s2.wannier_centers_red)),
                           dict(case, what="shift bookkeeping after the history", history=hist + ['r:' + ints(p)])))
            add(f"reorderc {nw} {ints(p)} {ratss([[F(x) for x in r] for r in cen])}", "close",
                s2.wannier_centers_red, dict(case, what="wannier_centers_red"))
            add(f"reorderc {nw} {ints(p)} {ratss([[F(x) for x in r] for r in cen])}", "close",
                s2.rvec.shifts_left_red, dict(case, what="shifts_left_red"))
            add(f"reorderc {nw} {ints(p)} {ratss([[F(x) for x in r] for r in cen])}", "close",
                s2.rvec.shifts_right_red, dict(case, what="shifts_right_red"))
            add(f"reorderc {nw} {ints(p)} {ratss([[F(x) for x in r] for r in cen.dot(lat)])}", "close",
                s2.wannier_centers_cart, dict(case, what="wannier_centers_cart"))
            latF = ratss([[F(x) for x in r] for r in lat])
            cenF = ratss([[F(x) for x in r] for r in cen_new])
            for iR in rng.sample(range(nR), min(nR, 3)):
                R = [int(x) for x in s.rvec.iRvec[iR]]
                if sorted(s._XX_R) != sorted(s2._XX_R):
                    ctx.fail("reorder changed the set of stored matrices", dict(case, before=sorted(s._XX_R), after=sorted(s2._XX_R)))
                for key in sorted(s._XX_R):
                    X = s.get_R_mat(key)[iR]
                    X2 = s2.get_R_mat(key)[iR]
                    comps = [tuple(rng.randrange(3) for _ in range(X.ndim - 2))]
                    for cmp_ in comps:
                        a, b = fr_mat(X[(slice(None), slice(None)) + cmp_])
                        add(f"reorder {nw} {ints(p)} {ratss(a)} {ratss(b)}", "exact",
                            X2[(slice(None), slice(None)) + cmp_], dict(case, key=key, R=R, comp=cmp_))
                add(f"cshift {nw} {latF} {rats(R)} {cenF}", "closeflat", s2.rvec.cRvec_shifted[iR], dict(case, R=R))
                H2 = s2.get_R_mat("Ham")
                a, b = fr_mat(H2[iR])
                ax = [rng.randrange(3)]
                d1 = s2.rvec.derivative(H2)
                add(f"deriv {nw} {latF} {rats(R)} {cenF} {ratss(a)} {ratss(b)} {ints(ax)}", "close",
                    d1[iR][:, :, ax[0]], dict(case, R=R, axes=ax))
                ax2 = [rng.randrange(3), rng.randrange(3)]
                d2 = s2.rvec.derivative(d1)
                add(f"deriv {nw} {latF} {rats(R)} {cenF} {ratss(a)} {ratss(b)} {ints(ax2)}", "close",
                    d2[iR][:, :, ax2[0], ax2[1]], dict(case, R=R, axes=ax2))
        # spin_block2interlace / spin_interlace2block: the same treatment of every stored matrix
        if nw % 2 == 0:
            back = rng.random() < 0.5
            s4 = copy.deepcopy(s)
            with ctx.attempt("System_R.spin_block2interlace", dict(case, backward=back)):
                with quiet():
                    s4.spin_block2interlace(backward=back)
                h2 = nw // 2
                mp = [0] * nw
                if back:
                    mp[:h2] = [2 * i for i in range(h2)]
                    mp[h2:] = [2 * i + 1 for i in range(h2)]
                else:
                    mp[::2] = list(range(h2))
                    mp[1::2] = [i + h2 for i in range(h2)]
                iR = rng.randrange(s.rvec.nRvec)
                for key in sorted(s._XX_R):
                    X = s.get_R_mat(key)[iR]
                    cmp_ = tuple(rng.randrange(3) for _ in range(X.ndim - 2))
                    a, b = fr_mat(X[(slice(None), slice(None)) + cmp_])
                    add(f"reorder {nw} {ints(mp)} {ratss(a)} {ratss(b)}", "exact",
                        s4.get_R_mat(key)[iR][(slice(None), slice(None)) + cmp_], dict(case, key=key, op="spin_block2interlace", backward=back))
                add(f"reorderc {nw} {ints(mp)} {ratss([[F(x) for x in r] for r in cen])}", "close",
                    s4.rvec.shifts_left_red, dict(case, what="shifts after spin_block2interlace"))
            ctx.count("corr.spin_block2interlace")
        # the harness' own rotation helper against the model
        Ure, Uim = gmat(rng, nw)
        U = to_np(Ure, Uim)
        s3 = copy.deepcopy(s)
        with quiet():
            rotate_system(s3, U)
        iR = rng.randrange(s.rvec.nRvec)
        a, b = fr_mat(s.get_R_mat("Ham")[iR])
        add(f"rotsys {nw} {ratss(Ure)} {ratss(Uim)} {ratss(a)} {ratss(b)}", "exact", s3.get_R_mat("Ham")[iR], dict(case, U=U))
    out = ctx.lean(lines)
    for line, o, (kind, code, case) in zip(lines, out, checks):
        ctx.case(signature=line, nontrivial=True)
        if o == "bad-op":
            ctx.mismatch("model rejected the line", dict(line=line[:300]))
            continue
        if kind == "labels":
            if o != code:
                ctx.mismatch("shist: left;right;centre labels after the history differ", dict(case=case, line=line, model=o, code=code))
            continue
        if kind == "closeflat":
            n = code.shape[0]
            want = parse_gm(o, n * n, 3).reshape(n, n, 3)
            ok = np.abs(want - code).max() < 1e-12
        else:
            want = parse_gm(o, code.shape[0], code.shape[1])
            ok = np.array_equal(want, code) if kind == "exact" else np.abs(want - code).max() < 1e-12
        if not ok:
            ctx.mismatch(f"{line.split()[0]}: model and code differ", dict(case=case, line=line[:300], model=o[:300], code=code))
    ctx.sample(dict(protocol_line=lines[0][:200], model=out[0][:200]))
    ctx.sample(dict(protocol_line=lines[4][:300], model=out[4][:200]))


# ------------------------------------------------------------------------------------------------
# oracle

def grouped_system(rs, sizes):
    """Hermitian system whose Wannier functions sit on len(sizes) centres, sizes[g] functions on centre g"""
    from ..wbsys import rand_system
    c0 = rs.uniform(0, 1, (len(sizes), 3))
    centers = np.repeat(c0, sizes, axis=0)
    with quiet():
        s = rand_system(rs, num_wann=int(sum(sizes)), nR=int(rs.randint(3, 6)), max_R=1, matrices=ALLMAT, centers=centers)
        add_all_matrices(rs, s)
    return s


def extra_integrators(Ef):
    """calculators that consume the rarely used matrices (OO, GG/FF, SA, SHA, SR, SH, SHR)"""
    from wannierberri.calculators import static as S
    return {"ahc_OO_uIu": S.AHC(Efermi=Ef, kwargs_formula={"OO_uIu": True}),
            "shc_ryoo": S.SHC(Efermi=Ef, kwargs_formula={"spin_current_type": "ryoo"}),
            "shc_qiao": S.SHC(Efermi=Ef, kwargs_formula={"spin_current_type": "qiao"}),
            "shc_simple": S.SHC(Efermi=Ef, kwargs_formula={"spin_current_type": "simple"}),
            "quantum_metric": S.QuantumMetric_FermiSea(Efermi=Ef), "ahc_test_FF": S.AHC_test(Efermi=Ef)}


def block_unitary(rs, sizes):
    from scipy.stats import unitary_group
    n = int(sum(sizes))
    U = np.zeros((n, n), dtype=complex)
    pos = 0
    for m in sizes:
        U[pos:pos + m, pos:pos + m] = unitary_group.rvs(m, random_state=rs) if m > 1 else np.exp(2j * np.pi * rs.uniform())
        pos += m
    return U


def transformed(rs, s, sizes, how):
    """a transformed deep copy of s; returns (system, description)"""
    s2 = copy.deepcopy(s)
    n = s.num_wann
    desc = {}
    if how in ("rotate", "both"):
        U = block_unitary(rs, sizes)
        with quiet():
            rotate_system(s2, U)
        desc["U"] = U
    if how in ("reorder", "both"):
        p = [int(x) for x in rs.permutation(n)]
        for _ in range(20):
            # prefer permutations that are not involutions (p o p != id) and not the identity
            if n < 3 or any(p[p[i]] != i for i in range(n)):
                break
            p = [int(x) for x in rs.permutation(n)]
        with quiet():
            s2.reorder(p)
        desc["perm"] = p
    if how == "control":
        # a rotation mixing functions on DIFFERENT centres: outside the hypothesis, results must change
        from scipy.stats import unitary_group
        U = np.eye(n, dtype=complex)
        a, b = 0, n - 1
        W = unitary_group.rvs(2, random_state=rs)
        U[np.ix_([a, b], [a, b])] = W
        with quiet():
            rotate_system(s2, U)
        desc["U"] = U
    return s2, desc


def case_run(ctx, case):
    from ..wbsys import wb
    from wannierberri.calculators.tabulate import TabulatorAll
    rs = np.random.RandomState(case["seed"])
    sizes = case["sizes"]
    s = grouped_system(rs, sizes)
    H = s.get_R_mat("Ham")
    bound = float(sum(np.linalg.norm(H[i], 2) for i in range(H.shape[0])))
    Ef = np.linspace(-0.6 * bound, 0.6 * bound, 5)
    NKFFT = np.array(s.NKFFT_recommended)
    NK = NKFFT * np.array(case["NKdiv"])

    def run_on(sys_):
        calcs = integrators(Ef)
        calcs.update(extra_integrators(Ef))
        if case.get("tetra"):
            from wannierberri.calculators import static as S
            calcs["ahc_tetra"] = S.AHC(Efermi=Ef, tetra=True)
        tabs = {k_: v for k_, v in tabulators().items() if k_ in ("energy", "band_gradients", "berry_curvature", "spin",
                                                                  "orbital_moment", "der_berry_curvature", "inv_mass")}
        calcs["tabulate"] = TabulatorAll(tabs, mode="grid")
        with quiet():
            grid = wb.Grid(sys_, NK=NK, NKFFT=NKFFT)
            return wb.run(sys_, grid=grid, calculators=calcs, parallel=False, print_Kpoints=False, symmetrize=False)
    # history: the system is USED (and whatever it caches is cached) before it is copied and transformed
    res = [run_on(s)]
    s2, desc = transformed(rs, s, sizes, case["how"])
    res.append(run_on(s2))
    nontriv = (case["how"] != "reorder" and max(sizes) > 1) or (desc.get("perm") not in (None, sorted(desc.get("perm", []))))
    ctx.case(signature=("run", case["seed"], tuple(sizes), case["how"], tuple(case["NKdiv"])), nontrivial=bool(nontriv))
    info = dict(case, **{k: v for k, v in desc.items()})
    for name in res[0].results:
        if name == "tabulate":
            continue
        compare(ctx, f"integrated {name} from run() before/after '{case['how']}' of the Wannier basis (groups {sizes})",
                res[0].results[name].data, res[1].results[name].data, dict(info, calculator=name, NK=NK))
    ta, tb = res[0].results["tabulate"], res[1].results["tabulate"]
    for name in ta.results:
        compare(ctx, f"band-resolved tabulation of {name} from run() before/after '{case['how']}' (groups {sizes})",
                ta.results[name].data, tb.results[name].data, dict(info, quantity=name, NK=NK))


def case_k(ctx, case):
    from ..wbsys import wb
    from wannierberri.calculators.tabulate import TabulatorAll
    rs = np.random.RandomState(case["seed"])
    sizes = case["sizes"]
    s = grouped_system(rs, sizes)
    k = rs.uniform(0, 1, 3)
    tabs = tabulators()
    with quiet():
        ra = wb.evaluate_k(s, k=k, calculators={"tab": TabulatorAll(dict(tabs), mode="grid")})
    # history: the system has been used before it is copied and transformed
    s2, desc = transformed(rs, s, sizes, case["how"])
    with quiet():
        rb = wb.evaluate_k(s2, k=k, calculators={"tab": TabulatorAll(dict(tabs), mode="grid")})
    E = ra.results["energy"].data[0]
    gap = np.diff(E).min()
    if case["how"] == "control":
        d = np.abs(ra.results["berry_curvature"].data - rb.results["berry_curvature"].data).max()
        ctx.count("oracle.control.changed" if d > 1e-6 else "oracle.control.UNCHANGED")
        if d <= 1e-6:
            ctx.note(f"control rotation between different centres did not change the Berry curvature (seed {case['seed']})")
        return
    nontriv = (case["how"] != "reorder" and max(sizes) > 1) or (desc.get("perm") not in (None, sorted(desc.get("perm", []))))
    ctx.case(signature=("k", case["seed"], tuple(sizes), case["how"]), nontrivial=bool(nontriv))
    if gap < 1e-3:
        ctx.count("oracle.k.skipped_small_gap")
        return
    info = dict(case, k=k, **desc)
    for name in tabs:
        compare(ctx, f"{name} at k={k.tolist()} before/after '{case['how']}' of the Wannier basis (groups {sizes})",
                ra.results[name].data, rb.results[name].data, dict(info, quantity=name),
                tol=1e-8 * max(1.0, 1e-2 / gap ** 2))


def unitary_on_groups(rs, groups):
    """a unitary mixing only Wannier functions with the same centre label (arbitrary index sets)"""
    from scipy.stats import unitary_group
    n = len(groups)
    U = np.zeros((n, n), dtype=complex)
    for g in sorted(set(groups)):
        idx = [i for i in range(n) if groups[i] == g]
        U[np.ix_(idx, idx)] = unitary_group.rvs(len(idx), random_state=rs) if len(idx) > 1 else np.exp(2j * np.pi * rs.uniform())
    return U


def case_hist(ctx, case):
    """multi-step histories: the system goes through a sequence of structural operations of the public API
    (double_spin, reorder, spin_block2interlace / interlace2block, use in a calculation) BEFORE the relabelling /
    co-centred rotation under test; results before and after the transformation must agree"""
    from ..wbsys import rand_system, wb
    from wannierberri.calculators.tabulate import TabulatorAll
    from wannierberri.calculators import static as S
    rs = np.random.RandomState(case["seed"])
    sizes = case["sizes"]
    c0 = rs.uniform(0, 1, (len(sizes), 3))
    with quiet():
        s = rand_system(rs, num_wann=int(sum(sizes)), nR=int(rs.randint(3, 6)), max_R=1, matrices=("Ham", "AA", "BB", "CC"),
                        centers=np.repeat(c0, sizes, axis=0))
    groups = list(np.repeat(np.arange(len(sizes)), sizes))
    k = rs.uniform(0, 1, 3)
    names = ("energy", "band_gradients", "berry_curvature", "berry_curvature_internal", "berry_curvature_external",
             "orbital_moment", "der_berry_curvature", "inv_mass")

    def evaluate(sys_):
        tabs = {k_: v for k_, v in tabulators().items() if k_ in names}
        H = sys_.get_R_mat("Ham")
        bound = float(sum(np.linalg.norm(H[i], 2) for i in range(H.shape[0])))
        Ef = np.linspace(-0.6 * bound, 0.6 * bound, 5)
        with quiet():
            return wb.evaluate_k(sys_, k=k, calculators={"tab": TabulatorAll(tabs, mode="grid"), "ahc": S.AHC(Efermi=Ef),
                                                         "morb": S.Morb(Efermi=Ef), "ohmic": S.Ohmic_FermiSea(Efermi=Ef)})
    done = []
    for op in case["prehistory"]:
        n = s.num_wann
        with quiet():
            if op == "double_spin":
                if getattr(s, "spinor", False):
                    continue
                s.double_spin()
                groups = [g for g in groups for _ in range(2)]
            elif op == "reorder":
                q = [int(x) for x in rs.permutation(n)]
                s.reorder(q)
                groups = [groups[i] for i in q]
            elif op in ("block2interlace", "interlace2block"):
                if n % 2:
                    continue
                back = op == "interlace2block"
                s.spin_block2interlace(backward=back)
                groups = [groups[i] for i in spin_mapping(n, back)]
            elif op == "use":
                evaluate(s)
        done.append(op)
    ra = evaluate(s)
    s2 = copy.deepcopy(s) if case.get("copy", True) else s
    n = s2.num_wann
    desc = dict(prehistory_done=done)
    if case["how"] in ("rotate", "both"):
        U = unitary_on_groups(rs, groups)
        with quiet():
            rotate_system(s2, U)
        desc["U"] = U
    if case["how"] in ("reorder", "both"):
        p = [int(x) for x in rs.permutation(n)]
        for _ in range(20):
            if n < 3 or any(p[p[i]] != i for i in range(n)):
                break
            p = [int(x) for x in rs.permutation(n)]
        with quiet():
            s2.reorder(p)
        desc["perm"] = p
    rb = evaluate(s2)
    ctx.case(signature=("hist", case["seed"], tuple(sizes), case["how"], tuple(done)), nontrivial=len(done) > 0)
    for op in done:
        ctx.count(f"oracle.hist.prehistory.{op}")
    E = ra["tab"].results["energy"].data[0]
    gaps = np.diff(E)
    gap = min([g for g in gaps if g > 1e-6] + [1.0])      # exact Kramers-like pairs of a doubled system are grouped
    if gap < 1e-3:
        ctx.count("oracle.hist.skipped_small_gap")
        return
    info = dict(case, k=k, **desc)
    tol = 1e-8 * max(1.0, 1e-2 / gap ** 2)
    for name in ("ahc", "morb", "ohmic"):
        compare(ctx, f"{name} at one k before/after '{case['how']}' following the history {done} (groups {sizes})",
                ra[name].data, rb[name].data, dict(info, calculator=name), tol=tol)
    for name in ra["tab"].results:
        compare(ctx, f"{name} at k={k.tolist()} before/after '{case['how']}' following the history {done} (groups {sizes})",
                ra["tab"].results[name].data, rb["tab"].results[name].data, dict(info, quantity=name), tol=tol)


RUNNERS = {"run": case_run, "k": case_k, "hist": case_hist}
SIZES = [[2, 2], [2, 1], [1, 2, 1], [3, 1], [2, 3], [1, 1, 1], [3], [2, 2, 1], [1, 3]]


def oracle(ctx, scale):
    rng = ctx.rng
    cases = []
    for _ in range(ctx.n(12, 120) * scale):
        cases.append(dict(kind="k", seed=rng.getrandbits(31), sizes=rng.choice(SIZES), how=rng.choice(["reorder", "rotate", "both"])))
    for _ in range(ctx.n(1, 6)):
        cases.append(dict(kind="k", seed=rng.getrandbits(31), sizes=rng.choice([[1, 1], [2, 1], [1, 1, 1]]), how="control"))
    for _ in range(ctx.n(3, 24) * scale):
        cases.append(dict(kind="run", seed=rng.getrandbits(31), sizes=rng.choice(SIZES[:6]),
                          how=rng.choice(["reorder", "rotate", "both"]), NKdiv=[rng.randint(1, 2) for _ in range(3)],
                          tetra=(ctx.tier == "thorough" and rng.random() < 0.25)))
    OPS = ["double_spin", "reorder", "block2interlace", "interlace2block", "use"]
    for _ in range(ctx.n(8, 100) * scale):
        cases.append(dict(kind="hist", seed=rng.getrandbits(31), sizes=rng.choice([[1, 1], [2, 1], [1, 2], [1, 1, 1], [2, 2]]),
                          how=rng.choice(["reorder", "reorder", "rotate", "both"]),
                          prehistory=[rng.choice(OPS) for _ in range(rng.randint(1, 4))], copy=rng.random() < 0.7))
    for case in cases:
        ctx.count(f"oracle.{case['kind']}.{case['how']}")
        with ctx.attempt(f"{case['kind']} case", case):
            RUNNERS[case["kind"]](ctx, case)


def replay(ctx, case):
    fails = case.get("failures", [])
    done = set()
    for f in fails:
        c = f.get("case", {})
        if isinstance(c, dict) and c.get("kind") in RUNNERS:
            cc = {k: c[k] for k in ("kind", "seed", "sizes", "how", "NKdiv", "tetra", "prehistory", "copy") if k in c}
            key = repr(sorted(cc.items()))
            if key in done:
                continue
            done.add(key)
            print("replaying", cc)
            RUNNERS[c["kind"]](ctx, cc)
    if not fails:
        oracle(ctx, 1)
