"""C29 - paths are built and tabulated faithfully (Path.from_nodes / get_refined / getKline / get_K_list,
evaluate_k_path, TABresult.self_to_path)."""
import sys
import warnings
import numpy as np
from fractions import Fraction as Fr

from ..common import rat, rats, ratss, ints, quiet, F

PID = "C29"
CLAIM = dict(
    design="3/C29",
    technique="Lean 4 proof over exact-rational models of Path.from_nodes (node loop with label dict, breaks, per-segment "
              "linspace), get_refined, getKline (cumulative sum with zeroed breaks), get_K_list (batching) and the "
              "periodic nearest-point map of TABresult.self_to_path + differential correspondence against the real "
              "functions + property oracle: evaluate_k_path versus evaluate_k point by point, serial and with an "
              "adversarially scheduled stub of ray, for every batch size",
    text="Theorems (all node lists with breaks, all labels, all per-segment point numbers >= 2, all refinement factors "
         ">= 1, all batch sizes >= 1, all result orders): reading the path at the labelled indices gives exactly the "
         "non-None nodes with their labels in the given order, at strictly increasing indices; a segment of nk points "
         "contributes start + j/(nk-1)(end-start), j < nk-1, and is followed by its end node; a node before None is "
         "stored once and its index is a break; the refined path contains original point i at index phi(i) = sum of "
         "(1 at a break, factor otherwise), with the same label and break marks, nothing else is labelled, and the "
         "points between phi(i) and phi(i+1) are the uniform subdivision; the path coordinate is the ARC LENGTH: entry i is "
         "the sum of the first i step lengths (steps at breaks / above break_thresh count 0) whatever the labels are, so "
         "it starts at 0, is non-decreasing and constant across breaks (the chord-length rule is shown to be a "
         "different, non-monotone function on a two-segment path); concatenating the batches of get_K_list gives K_list for every "
         "batch size, every batch has at most k_batch points and none is empty; self_to_path maps every path point to a "
         "result point equal to it modulo a reciprocal lattice vector whenever one exists (the first such), so a "
         "result computed in ANY completion order is returned in path order; get_component with an index tuple (a,b,...) "
         "returns data[...,a,b,...] for every rank, hence get_data(component) along a path holds for every path point "
         "the requested entry of the single-point tensor (for k-periodic quantities); the forward-loop rule returns "
         "the reversed-tuple entry: equal on index-symmetric tensors, different on a non-symmetric one.",
    note="Trusted / not modelled: the number of points in dk/length mode (float norm, round) and the Cartesian lengths of "
         "getKline are inputs of the model; numpy linspace/vstack float rounding (compared within 1e-12); the tabulators "
         "themselves, Data_K, run()/process() scheduling and TABresult.__add__ are exercised by the oracle only.",
)
TRUSTED = [
    "modelled: Path.from_nodes (nk / nk-list modes exactly; dk / length modes with the per-segment count as input), "
    "get_refined, getKline (distances as input), get_K_list batching, the index map of TABresult.self_to_path, "
    "get_component for index tuples (peel-last-axis loop) and KBandResult.to_path + get_data along a path",
    "not modelled (oracle only): evaluate_k_path -> run() -> process() (serial / ray), TabulatorAll, TABresult.__add__, "
    "KBandResult.to_path, Data_K evaluation; periodicity of the tabulated quantities in k (C04); component extraction "
    "TABresult.get_data / KBandResult.get_component (tuple, string, trace, norm, sq) for ranks 0-3",
    "the 1e-5 tolerance of the self_to_path assertion is modelled as exact equality modulo 1 (generators use dyadic "
    "k-points; non-matching points are >= 1/64 away)",
]
RULE = ("corr: random node lists (2-6 nodes, None breaks, repeated nodes, coordinates outside [0,1)), nk scalar / list / "
        "dk / length; refinement factors 1-5; kline with and without break_thresh; batch sizes 1..len+2; result orders = "
        "random permutations with integer shifts and duplicates.  oracle: the same classes on the real code checked "
        "against the statement, plus evaluate_k_path vs evaluate_k on random Hermitian systems (energy, band gradients, "
        "Berry curvature), serial and stub-parallel with random completion order, k_batch from 1 to beyond the path "
        "length; getKline / get_refined additionally on every other public constructor: Path(k_list, labels full / "
        "partial / ends only / empty / None, breaks), Path.from_dict(as_dict), Path.sphere, Path.spheroid, Path.seekpath "
        "(increments compared with independently computed Cartesian step lengths, with and without break_thresh); "
        "tensor-valued tabulators of rank 2 and 3 (DerBerryCurvature - not symmetric in its indices -, InvMass, "
        "Der2BerryCurvature) along the path, and every way of reading a component from the result: "
        "TABresult.get_data(quantity, iband, component) with integer tuples, x/y/z strings (either case), None, trace, "
        "norm, sq and band selections, against the element of the single-point tensor; get_component directly on random "
        "arrays of rank 0-3 with 1-4 leading axes.  non-trivial = path with >= 2 segments or a break; distinct = distinct (op, inputs)")

TOL = 1e-12


# ------------------------------------------------------------------------------------------------
# generators

def rand_point(rng, den=8, lo=-1, hi=2):
    return tuple(Fr(rng.randint(lo * den, hi * den), den) for _ in range(3))


def rand_nodes(rng, allow_bad=False):
    """list of nodes (tuples of Fractions or None) with labels for the non-None ones"""
    n = rng.randint(2, 6)
    nodes = []
    for i in range(n):
        if nodes and rng.random() < 0.2:
            nodes.append(rng.choice([x for x in nodes if x is not None]))   # revisit a node (closed loops)
        else:
            nodes.append(rand_point(rng, den=rng.choice([2, 4, 8]), lo=rng.choice([0, 0, -1]), hi=rng.choice([1, 1, 2])))
    # consecutive identical nodes make a zero-length segment: allowed (dk mode gives nk=2)
    out = [nodes[0]]
    for x in nodes[1:]:
        if rng.random() < 0.25 and out[-1] is not None:
            out.append(None)
        out.append(x)
    if rng.random() < 0.1:
        out.insert(0, None)          # a leading None is skipped by the code
    if allow_bad and rng.random() < 0.05:
        out.append(None)             # None as the last node: the code raises
    labels = [f"L{i}" for i, x in enumerate([x for x in out if x is not None])]
    return out, labels


def nsegments(nodes):
    return sum(1 for a, b in zip(nodes, nodes[1:]) if a is not None and b is not None)


def to_f(nodes):
    return [None if x is None else [float(c) for c in x] for x in nodes]


def rand_recip(rng):
    d = [Fr(rng.randint(4, 12), 4) for _ in range(3)]
    sh = Fr(rng.choice([0, 0, 1, 2]), 4)
    return np.array([[float(d[0]), 0, 0], [float(sh), float(d[1]), 0], [0, float(sh), float(d[2])]])


def make_path(rng, nodes, labels, recip, mode=None):
    """build the real Path; returns (path, mode description, per segment counts or None)"""
    from wannierberri.grid.path import Path
    mode = mode or rng.choice(["nk", "nk", "nklist", "dk", "length"])
    nseg = nsegments(nodes)
    kw = {}
    counts = None
    if mode == "nk":
        nk = rng.randint(2, 7)
        kw["nk"] = nk
        counts = [nk] * nseg
    elif mode == "nklist":
        counts = [rng.randint(2, 7) for _ in range(nseg)]
        kw["nk"] = list(counts)
    else:
        dk = rng.choice([0.3, 0.45, 0.7, 1.1, 2.3])
        if mode == "dk":
            kw["dk"] = dk
        else:
            kw["length"] = 2 * np.pi / dk
    with quiet():
        p = Path.from_nodes(recip_lattice=recip, nodes=to_f(nodes), labels=list(labels) if labels is not None else None, **kw)
    return p, mode, counts, kw


def counts_from_dk(nodes, recip, kw):
    """independent evaluation of round(|dk_cart| / dk) + 1; None when a ratio is too close to a half-integer"""
    dk = kw["dk"] if "dk" in kw else 2 * np.pi / kw["length"]
    out = []
    for a, b in zip(nodes, nodes[1:]):
        if a is None or b is None:
            continue
        d = (np.array([float(c) for c in a]) - np.array([float(c) for c in b])).dot(recip)
        x = float(np.linalg.norm(d)) / dk
        if abs(x - np.floor(x) - 0.5) < 1e-6:
            return None
        n = int(round(x)) + 1
        out.append(2 if n == 1 else n)
    return out


def nodes_token(nodes):
    return ";".join("N" if x is None else ",".join(rat(c) for c in x) for x in nodes)


def close_K(model_tok, K):
    """model k list (exact) equals the code's float array within rounding"""
    if model_tok == "_":
        return len(K) == 0
    rows = model_tok.split(";")
    if len(rows) != len(K):
        return False
    M = np.array([[float(Fr(t)) for t in r.split(",")] for r in rows])
    return bool(np.abs(M - np.asarray(K, dtype=float)).max() <= TOL * (1 + np.abs(M).max()))


def path_tokens(p, labmap):
    K = ratss([[F(x) for x in k] for k in p.K_list])
    d = ",".join(f"{int(i)}:{labmap[l]}" for i, l in p.labels.items()) or "_"
    b = ints(p.breaks)
    return K, d, b


class FakeResult:
    """minimal stand-in for a KBandResult: records the mapping handed to to_path"""
    def __init__(self, nk):
        self.nk = nk
        self.nband = 1
        self.map = None

    def to_path(self, k_map):
        self.map = [int(i) for i in k_map]
        return self


def real_self_to_path(kres, kpath, recip):
    from wannierberri.result.tabresult import TABresult
    from wannierberri.grid.path import Path
    with quiet():
        path = Path(recip_lattice=recip, k_list=np.array(kpath, dtype=float))
        fr = FakeResult(len(kres))
        tab = TABresult(kpoints=np.array(kres, dtype=float), recip_lattice=recip, results={"Energy": fr}, mode="path")
        try:
            tab.self_to_path(path)
        except AssertionError:
            return "assert", None
    ok = bool(np.array_equal(tab.kpoints, np.array(kpath, dtype=float)))
    return "ok " + ints(fr.map), ok


def _corr_case_body(ctx, rng, add):
    nodes, labels = rand_nodes(rng, allow_bad=True)
    recip = rand_recip(rng)
    labmap = {l: i + 1 for i, l in enumerate(labels)}
    case = dict(nodes=to_f(nodes), labels=labels)
    try:
        p, mode, counts, kw = make_path(rng, nodes, labels, recip)
    except Exception as ex:  # noqa  (None as last node)
        if nodes[-1] is None:
            add(f"nodes {nodes_token(nodes)} {ints(labmap.values())} 2", "error", dict(case, fn="from_nodes"), "nodes")
            ctx.count("corr.nodes.last_is_None")
            return
        ctx.fail(f"Path.from_nodes raised {type(ex).__name__}: {str(ex)[:120]}", case)
        return
    ctx.count(f"corr.nodes.{mode}")
    if counts is None:
        counts = counts_from_dk(nodes, recip, kw)
        if counts is None:
            ctx.count("corr.nodes.skipped_round_tie")
            return
    case = dict(case, fn="from_nodes", mode=mode, kw=kw, counts=counts)
    add(f"nodes {nodes_token(nodes)} {ints(labmap.values())} {ints(counts)}", p, dict(case, labmap=labmap), "nodes")
    # ---- refinement
    factor = rng.choice([1, 2, 2, 3, 4, 5])
    with quiet():
        p2 = p.get_refined(factor)
    K, d, b = path_tokens(p, labmap)
    add(f"refine {K} {d} {b} {factor}", p2, dict(fn="get_refined", factor=factor, K=np.array(p.K_list).tolist(),
                                                 labels={int(k): v for k, v in p.labels.items()}, breaks=list(p.breaks),
                                                 labmap=labmap), "refine")
    # ---- getKline (the Cartesian distances are the external kernel: computed here with the same float formula)
    extra = [q for _, q, _ in other_paths(ctx, rng, recip)]
    for q in [p, p2] + extra:
        q_recip = q.recip_lattice
        kc = np.array(q.K_list).dot(q_recip)
        dist = np.linalg.norm(kc[1:] - kc[:-1], axis=1)
        th = rng.choice([None, None, 0.5, 1.0])
        with quiet():
            kl = q.getKline() if th is None else q.getKline(break_thresh=th)
        if th is not None and len(dist) and np.abs(dist - th).min() < 1e-9:
            continue
        add(f"kline {rats([F(x) for x in dist])} {ints(q.breaks)} {'inf' if th is None else rat(F(th))}", kl,
            dict(fn="getKline", K=np.array(q.K_list).tolist(), breaks=list(q.breaks), break_thresh=th), "kline")
    # ---- get_K_list
    kb = rng.randint(1, len(p.K_list) + 2)
    with quiet(), warnings.catch_warnings():
        warnings.simplefilter("ignore")
        KL = p.get_K_list(k_batch=kb)
    pos, idx = 0, []
    for kp in KL:
        m = len(kp.K)
        idx.append(list(range(pos, pos + m)) if np.array_equal(kp.K, p.K_list[pos:pos + m]) else [-1])
        pos += m
    add(f"chunks {len(p.K_list)} {kb}", ";".join(ints(x) for x in idx) or "_",
        dict(fn="get_K_list", n=len(p.K_list), k_batch=kb), "chunks")
    # ---- get_component for index tuples (rank 1-3, dyadic entries: exact)
    from wannierberri.result.kbandresult import get_component
    rank = rng.choice([1, 2, 2, 3])
    flat = [Fr(rng.randint(-64, 64), 16) for _ in range(3 ** rank)]
    comp = tuple(rng.randrange(3) for _ in range(rank))
    with quiet():
        val = get_component(np.array([float(x) for x in flat]).reshape((3,) * rank), rank, comp)
    ctx.count(f"corr.get_component.rank{rank}")
    add(f"comp {rats(flat)} {ints(comp)}", rat(F(float(val))),
        dict(fn="get_component", rank=rank, flat=[float(x) for x in flat], component=list(comp)), "comp")
    # ---- self_to_path
    # dyadic points (denominator 64) so that `k + integer`, `% 1` and the distances are exact in floats; the path
    # may visit a point twice, also shifted by a reciprocal lattice vector
    kpath = [rand_point(rng, den=64, lo=-1, hi=2) for _ in range(rng.randint(2, 12))]
    if rng.random() < 0.4:
        kpath.insert(rng.randrange(len(kpath) + 1), tuple(c + rng.choice([0, 1, -1]) for c in rng.choice(kpath)))
    perm = list(range(len(kpath)))
    rng.shuffle(perm)
    kres = [tuple(c + rng.choice([0, 0, 1, -1]) for c in kpath[i]) for i in perm]
    cls = rng.choice(["perm", "perm", "dup", "missing"])
    if cls == "dup":
        kres.insert(rng.randrange(len(kres) + 1), rng.choice(kres))
    if cls == "missing" and len(kres) > 1:
        kres.pop(rng.randrange(len(kres)))
    ctx.count(f"corr.topath.{cls}")
    kres_f = [[float(c) for c in k] for k in kres]
    got, kp_ok = real_self_to_path(kres_f, [[float(c) for c in k] for k in kpath], recip)
    if kp_ok is False:
        ctx.fail("self_to_path did not set kpoints to the path's k-points", dict(kres=kres_f))
    kres_mod = [tuple(c - (c.numerator // c.denominator) for c in k) for k in kres]    # TABresult stores k % 1
    add(f"topath {ratss(kres_mod)} {ratss(kpath)}", got,
        dict(fn="self_to_path", kpoints_result=kres_f, kpoints_path=[[float(c) for c in k] for k in kpath]), "topath")


def _one_corr_case(ctx, rng, add, it):
    """one correspondence case; an exception raised by the code under test on these valid inputs is a failure"""
    with ctx.attempt("path functions on correspondence inputs",
                     dict(seed=ctx.seed, tier=ctx.tier, corr_iteration=it, note="re-run ./check C29 with this seed")):
        _corr_case_body(ctx, rng, add)


def corr(ctx):
    rng = ctx.rng
    lines, expect, cases, kinds = [], [], [], []

    def add(line, exp, case, kind):
        lines.append(line); expect.append(exp); cases.append(case); kinds.append(kind)

    for it in range(ctx.n(80, 1000)):
        _one_corr_case(ctx, rng, add, it)

    out = ctx.lean(lines)
    for l, o, e, c, kind in zip(lines, out, expect, cases, kinds):
        ctx.case(signature=l[:3000], nontrivial=True)
        ok = True
        if kind in ("nodes", "refine"):
            if isinstance(e, str):
                ok = (o == e)
                shown = e
            else:
                labmap = c["labmap"]
                parts = o.split(" ")
                d = ",".join(f"{int(i)}:{labmap[lab]}" for i, lab in e.labels.items()) or "_"
                ok = (len(parts) == 3 and close_K(parts[0], e.K_list) and parts[1] == d and parts[2] == ints(e.breaks))
                shown = f"K({len(e.K_list)}) {d} {ints(e.breaks)}"
        elif kind == "kline":
            m = np.array([float(Fr(t)) for t in o.split(",")]) if o != "_" else np.zeros(0)
            ok = (len(m) == len(e)) and (len(m) == 0 or bool(np.abs(m - e).max() <= TOL * (1 + np.abs(e).max())))
            shown = str(list(np.round(e, 6)))[:200]
        else:
            ok = (o == e)
            shown = e
        if not ok:
            c = {k: v for k, v in c.items() if k != "labmap"}
            ctx.mismatch(f"{c['fn']}: model={o[:300]} code={str(shown)[:300]}", dict(line=l[:1500], case=c))
    for i in (0, len(lines) - 1):
        ctx.sample(dict(protocol_line=lines[i][:300], model=out[i][:200]))


# ------------------------------------------------------------------------------------------------
# oracle: the statement, on the real code

def check_from_nodes(ctx, p, nodes, labels, mode, counts, kw, recip, case):
    K = np.array(p.K_list)
    some = [x for x in nodes if x is not None]
    keys = list(p.labels.keys())
    if keys != sorted(keys) or len(set(keys)) != len(keys):
        ctx.fail("from_nodes: label indices are not strictly increasing", case); return False
    if len(keys) != len(some):
        ctx.fail(f"from_nodes: {len(some)} nodes but {len(keys)} labelled points", case); return False
    for i, x, l in zip(keys, some, labels):
        if not (0 <= i < len(K)) or np.abs(K[i] - np.array([float(c) for c in x])).max() > TOL:
            ctx.fail(f"from_nodes: the point at labelled index {i} is not the node {x}", case); return False
        if p.labels[i] != l:
            ctx.fail(f"from_nodes: node {x} carries label {p.labels[i]!r} instead of {l!r}", case); return False
    if keys[0] != 0 or keys[-1] != len(K) - 1:
        ctx.fail("from_nodes: the path does not start / end at a node", case); return False
    # which nodes are followed by None (and a later node)
    follows_none, iseg, t = [], 0, 0
    want_breaks, spans = [], []
    idx = {}
    j = 0
    for pos, x in enumerate(nodes):
        if x is not None:
            idx[pos] = keys[j]; j += 1
    for pos in range(len(nodes) - 1):
        a, b = nodes[pos], nodes[pos + 1]
        if a is not None and b is None:
            want_breaks.append(idx[pos])
        if a is not None and b is not None:
            spans.append((idx[pos], idx[pos + 1], a, b))
    if list(p.breaks) != want_breaks:
        ctx.fail(f"from_nodes: breaks {list(p.breaks)} but the nodes before None are at {want_breaks}", case); return False
    for bi in want_breaks:
        nxt = keys[keys.index(bi) + 1]
        if nxt != bi + 1:
            ctx.fail(f"from_nodes: after the break at {bi} the next node is at {nxt}, not {bi + 1}", case); return False
    for s, (i0, i1, a, b) in enumerate(spans):
        m = i1 - i0
        if m < 1:
            ctx.fail(f"from_nodes: segment {s} has no points", case); return False
        af, bf = np.array([float(c) for c in a]), np.array([float(c) for c in b])
        ref = af[None, :] + (np.arange(m + 1) / m)[:, None] * (bf - af)[None, :]
        if np.abs(K[i0:i1 + 1] - ref).max() > TOL * (1 + np.abs(ref).max()):
            ctx.fail(f"from_nodes: segment {s} ({a} -> {b}) is not sampled uniformly", case); return False
        if counts is not None and m != counts[s] - 1:
            ctx.fail(f"from_nodes: segment {s} has {m + 1} points including both ends, nk = {counts[s]} requested", case)
            return False
        if counts is None:
            dk = kw["dk"] if "dk" in kw else 2 * np.pi / kw["length"]
            Lc = float(np.linalg.norm((bf - af).dot(recip)))
            if abs(m - Lc / dk) > 0.5 + 1e-6 and not (m == 1 and Lc / dk < 0.5):
                ctx.fail(f"from_nodes: segment {s} of Cartesian length {Lc:.4f} got {m} steps for dk = {dk:.4f}", case)
                return False
    return True


def check_refined(ctx, p, p2, factor, case):
    K, K2 = np.array(p.K_list), np.array(p2.K_list)
    n = len(K)
    phi, pos = [], 0
    for i in range(n):
        phi.append(pos)
        pos += 1 if (i in p.breaks or i == n - 1) else factor
    if len(K2) != phi[-1] + 1:
        ctx.fail(f"get_refined({factor}): {len(K2)} points, expected {phi[-1] + 1}", case); return
    for i in range(n):
        if not np.array_equal(K2[phi[i]], K[i]):
            ctx.fail(f"get_refined({factor}): original point {i} is not at refined index {phi[i]}", case); return
    want_labels = {phi[i]: l for i, l in label_dict(p).items()}
    if label_dict(p2) != want_labels:
        ctx.fail(f"get_refined({factor}): labels {label_dict(p2)} expected {want_labels}", case); return
    if sorted(p2.breaks) != sorted(phi[i] for i in p.breaks):
        ctx.fail(f"get_refined({factor}): breaks {list(p2.breaks)} expected {[phi[i] for i in p.breaks]}", case); return
    for i in range(n - 1):
        if i in p.breaks:
            continue
        ref = K[i][None, :] + (np.arange(factor + 1) / factor)[:, None] * (K[i + 1] - K[i])[None, :]
        if np.abs(K2[phi[i]:phi[i] + factor + 1] - ref).max() > TOL * (1 + np.abs(ref).max()):
            ctx.fail(f"get_refined({factor}): points between original {i} and {i + 1} are not the uniform subdivision", case)
            return
    if not np.allclose(p2.recip_lattice, p.recip_lattice, atol=1e-12):
        ctx.fail(f"get_refined({factor}): the refined path has a different reciprocal lattice", case)


def check_kline(ctx, p, case, what, break_thresh=None):
    """the path coordinate is the ARC LENGTH: starts at 0, never decreases, advances from each point to the next by
    the Cartesian distance of the two points (independently computed), and not at all across a break / a jump
    larger than break_thresh"""
    with quiet():
        kl = p.getKline() if break_thresh is None else p.getKline(break_thresh=break_thresh)
    K = np.array(p.K_list)
    if len(kl) != len(K) or (len(kl) and kl[0] != 0):
        ctx.fail(f"getKline ({what}): wrong length or non-zero start", case); return
    if np.any(np.diff(kl) < 0):
        i = int(np.argmin(np.diff(kl)))
        ctx.fail(f"getKline ({what}): the path coordinate decreases between points {i} and {i + 1}: "
                 f"{kl[i]:.6f} -> {kl[i + 1]:.6f}", case); return
    kc = K.dot(p.recip_lattice)
    breaks = set(int(b) for b in p.breaks)
    for i in range(len(K) - 1):
        step = float(np.linalg.norm(kc[i + 1] - kc[i]))
        if break_thresh is not None and abs(step - break_thresh) < 1e-9:
            return
        want = 0.0 if (i in breaks or (break_thresh is not None and step > break_thresh)) else step
        if abs((kl[i + 1] - kl[i]) - want) > 1e-10 * (1 + kl[-1]):
            ctx.fail(f"getKline ({what}): the coordinate advances by {kl[i + 1] - kl[i]:.6g} from point {i} to {i + 1}, "
                     f"the distance of the two points is {want:.6g}", case); return


def label_dict(p):
    return dict(p.labels) if isinstance(p.labels, dict) else {}


def polyline(rng, nleg=None):
    """explicit k-list through random corners (legs may double back); returns (array, corner indices)"""
    nleg = nleg or rng.randint(1, 4)
    corners = [rand_point(rng, den=8, lo=-1, hi=1)]
    for _ in range(nleg):
        corners.append(rand_point(rng, den=8, lo=-1, hi=1) if rng.random() < 0.8 else corners[rng.randrange(len(corners))])
    pts, idx = [np.array([float(c) for c in corners[0]])], [0]
    for a, b in zip(corners, corners[1:]):
        m = rng.randint(1, 6)
        af, bf = np.array([float(c) for c in a]), np.array([float(c) for c in b])
        for j in range(1, m + 1):
            pts.append(af + (bf - af) * j / m)
        idx.append(len(pts) - 1)
    return np.array(pts), idx


def other_paths(ctx, rng, recip):
    """paths from the public constructors other than from_nodes: (description, path, case)"""
    from wannierberri.grid.path import Path
    out = []
    # ---- explicit k_list with full / partial / empty labels and optional breaks
    K, corners = polyline(rng)
    n = len(K)
    kind = rng.choice(["full", "partial", "partial", "ends", "empty", "random_points"])
    if kind == "random_points":
        K = np.array([[float(c) for c in rand_point(rng, den=16, lo=-1, hi=1)] for _ in range(rng.randint(2, 9))])
        n, corners = len(K), []
    if kind == "full":
        labels = {i: f"C{i}" for i in corners}
    elif kind == "ends":
        labels = {0: "start", n - 1: "end"}
    elif kind == "empty":
        labels = rng.choice([None, {}])
    else:
        labels = {i: f"P{i}" for i in sorted(rng.sample(range(n), rng.randint(1, min(n, 3))))}
    breaks = sorted(rng.sample(range(n - 1), rng.randint(1, min(2, n - 1)))) if (n > 2 and rng.random() < 0.4) else []
    with quiet():
        p = Path(recip_lattice=recip, k_list=K, labels=labels, breaks=list(breaks))
    out.append((f"Path(k_list, labels={kind}, breaks={breaks})", p,
                dict(constructor="Path(k_list=...)", k_list=K.tolist(), labels=labels, breaks=breaks,
                     recip_lattice=recip.tolist())))
    if isinstance(labels, dict) and rng.random() < 0.5:
        with quiet():
            p_rt = Path.from_dict(p.as_dict())
        out.append((f"Path.from_dict(as_dict) of a k_list path (labels={kind})", p_rt,
                    dict(constructor="Path.from_dict", k_list=K.tolist(), labels=labels, breaks=breaks,
                         recip_lattice=recip.tolist())))
    # ---- sphere / spheroid
    if rng.random() < 0.5:
        r1, r2 = rng.choice([0.05, 0.1, 0.3]), rng.choice([0.05, 0.2])
        nt, nph = rng.randint(2, 6), rng.randint(2, 7)
        origin = rng.choice([None, np.array([0.25, 0.0, 0.125])])
        with quiet():
            if rng.random() < 0.5:
                p = Path.sphere(recip_lattice=recip, r1=r1, ntheta=nt, nphi=nph, origin=origin)
                what = f"Path.sphere(r1={r1}, ntheta={nt}, nphi={nph})"
            else:
                p = Path.spheroid(recip_lattice=recip, r1=r1, r2=r2, ntheta=nt, nphi=nph, origin=origin)
                what = f"Path.spheroid(r1={r1}, r2={r2}, ntheta={nt}, nphi={nph})"
        out.append((what, p, dict(constructor=what, origin=None if origin is None else origin.tolist(),
                                  recip_lattice=recip.tolist())))
    return out


SEEK_CELLS = [
    ("fcc", [[0, 2.7, 2.7], [2.7, 0, 2.7], [2.7, 2.7, 0]], [[0, 0, 0], [0.25, 0.25, 0.25]], [14, 14]),
    ("hex", [[2.5, 0, 0], [-1.25, 2.1650635094610966, 0], [0, 0, 4.0]], [[1 / 3, 2 / 3, 0.25], [2 / 3, 1 / 3, 0.75]], [6, 6]),
    ("tet", [[3.0, 0, 0], [0, 3.0, 0], [0, 0, 4.5]], [[0, 0, 0]], [29]),
    ("ort", [[3.0, 0, 0], [0, 3.7, 0], [0, 0, 4.5]], [[0, 0, 0], [0.5, 0.5, 0.25]], [29, 8]),
]


def seekpath_paths(ctx, rng):
    from wannierberri.grid.path import Path
    name, lat, pos, num = rng.choice(SEEK_CELLS)
    dk = rng.choice([0.2, 0.35, 0.6])
    with quiet(), warnings.catch_warnings():
        warnings.simplefilter("ignore")
        p = Path.seekpath(lattice=np.array(lat), positions=np.array(pos), numbers=num, dk=dk)
    return [(f"Path.seekpath({name} cell, dk={dk})", p, dict(constructor="Path.seekpath", cell=name, dk=dk))]


class StubRay:
    """in-process stand-in for ray with an adversarial scheduler: every `wait` reports a random subset of the
    requested size as ready (real ray returns an arbitrary ready subset, in input order)"""

    class Ref:
        def __init__(self, val):
            self.val = val

    def __init__(self, rng, ncpu):
        self.rng, self.ncpu = rng, ncpu
        self.nwait = 0

    def is_initialized(self):
        return True

    def cluster_resources(self):
        return {"CPU": self.ncpu}

    def put(self, v):
        return StubRay.Ref(v)

    def remote(self, f):
        outer = self

        class Remote:
            def remote(self_, *a, **kw):
                un = lambda x: x.val if isinstance(x, StubRay.Ref) else x
                return StubRay.Ref(f(*[un(x) for x in a], **{k: un(v) for k, v in kw.items()}))
        return Remote()

    def wait(self, refs, num_returns=1, timeout=None):
        self.nwait += 1
        pick = set(self.rng.sample(range(len(refs)), min(num_returns, len(refs))))
        return [r for i, r in enumerate(refs) if i in pick], [r for i, r in enumerate(refs) if i not in pick]

    def get(self, x):
        if isinstance(x, (list, tuple)):
            return [r.val for r in x]
        return x.val


def run_path(system, path, quantities, parallel, k_batch, stub, tabulators=None):
    from wannierberri.evaluate_k import evaluate_k_path
    saved = sys.modules.get("ray", None)
    had = "ray" in sys.modules
    try:
        if parallel:
            sys.modules["ray"] = stub
        with quiet(), warnings.catch_warnings():
            warnings.simplefilter("ignore")
            return evaluate_k_path(system, path=path, quantities=quantities, tabulators=tabulators, parallel=parallel,
                                   k_batch=k_batch)
    finally:
        if parallel:
            if had:
                sys.modules["ray"] = saved
            else:
                sys.modules.pop("ray", None)



XYZ = "xyz"


def component_specs(rng, rank, nmax=8):
    """ways of asking for one Cartesian component of a rank-`rank` tensor, with the index tuple each one means:
    tuples of integers, strings of x/y/z (either case), and the derived components trace / norm / sq"""
    import itertools
    specs = []
    if rank == 0:
        return [(None, "full")]
    allidx = list(itertools.product(range(3), repeat=rank))
    for idx in (allidx if len(allidx) <= nmax else rng.sample(allidx, nmax)):
        specs.append((tuple(idx), idx))
        st = "".join(XYZ[i] for i in idx)
        specs.append((st.upper() if rng.random() < 0.3 else st, idx))
    specs.append((None, "full"))
    if rank == 1:
        specs += [("norm", "norm"), ("sq", "sq")]
    else:
        specs.append(("trace", "trace"))
    return specs


def component_reference(T, meaning):
    """T = full tensor with the Cartesian indices last (..., 3, 3, ...); independent evaluation of one component"""
    if meaning == "full":
        return T
    if meaning == "norm":
        return np.sqrt((T ** 2).sum(axis=-1))
    if meaning == "sq":
        return (T ** 2).sum(axis=-1)
    return T[(Ellipsis,) + tuple(meaning)]


def trace_reference(T, rank):
    return sum(T[(Ellipsis,) + (i,) * rank] for i in range(3))


def get_component_oracle(ctx, scale):
    """KBandResult-level: get_component(data, ndim, component) returns data[..., a, b, ...] for every way of naming
    the component (tuple or string), for every rank and every leading shape"""
    from wannierberri.result.kbandresult import get_component, NoComponentError
    rng = ctx.rng
    nprng = np.random.RandomState(rng.getrandbits(31))
    for it in range(ctx.n(60, 400) * scale):
        rank = rng.choice([0, 1, 1, 2, 2, 2, 3, 3])
        lead = rng.choice([(rng.randint(1, 4), rng.randint(1, 4)), (rng.randint(1, 5),), (2, 2, 3, rng.randint(1, 3))])
        T = nprng.uniform(-1, 1, lead + (3,) * rank)
        for comp, meaning in component_specs(rng, rank, nmax=6):
            if comp is None and rank >= 1:
                continue      # "no component" of a tensor is resolved by the callers (TABresult.get_data), see check_get_data
            case = dict(fn="get_component", shape=list(T.shape), rank=rank, component=comp, data=T.tolist())
            ctx.case(signature=("comp", T.shape, rank, comp, float(T.flat[0])), nontrivial=rank >= 2)
            ctx.count(f"oracle.get_component.rank{rank}.{'tuple' if isinstance(comp, tuple) else ('none' if comp is None else 'str')}")
            with ctx.attempt("get_component", case):
                with quiet():
                    got = get_component(T, rank, comp)
                want = trace_reference(T, rank) if meaning == "trace" else component_reference(T, meaning)
                if np.shape(got) != np.shape(want) or np.abs(np.asarray(got) - want).max() > 1e-14:
                    ctx.fail(f"get_component(rank {rank}, component={comp!r}) does not return data[..., "
                             f"{meaning}] (shape {np.shape(got)} vs {np.shape(want)})", case)
        # a component that does not exist must be refused, not silently mapped to something else
        if rank in (0, 1):
            bad = "xy" if rank == 1 else "x"
            try:
                with quiet():
                    get_component(T, rank, bad)
                ctx.fail(f"get_component(rank {rank}, component={bad!r}) did not raise NoComponentError",
                         dict(fn="get_component", rank=rank, component=bad))
            except NoComponentError:
                pass
            except Exception as ex:  # noqa
                ctx.fail(f"get_component(rank {rank}, component={bad!r}) raised {type(ex).__name__} instead of "
                         f"NoComponentError", dict(fn="get_component", rank=rank, component=bad))


def check_get_data(ctx, rng, res, ref, names, nk, case, scale_q):
    """TABresult.get_data(quantity, iband, component): every component of every tabulated quantity, named by tuple or
    by string, with band selections, equals the corresponding element of the single-point tensor - per path point"""
    nband = res.nband
    for q in names:
        full = np.array([ref[j][q] for j in range(nk)])          # (nk, nband, 3, 3, ...)
        rank = full.ndim - 2
        for comp, meaning in component_specs(rng, rank, nmax=9):
            ib = rng.choice([None, None, sorted(rng.sample(range(nband), rng.randint(1, nband)))])
            c2 = dict(case, fn="TABresult.get_data", quantity=q, component=comp, iband=ib)
            ctx.case(signature=("get_data", q, comp, str(ib), float(full.flat[0])), nontrivial=rank >= 1)
            ctx.count(f"oracle.get_data.rank{rank}.{'tuple' if isinstance(comp, tuple) else ('none' if comp is None else 'str')}")
            with ctx.attempt(f"TABresult.get_data({q}, component={comp!r})", c2):
                with quiet():
                    got = np.asarray(res.get_data(quantity=q, iband=ib, component=comp))
                want = trace_reference(full, rank) if meaning == "trace" else component_reference(full, meaning)
                if ib is not None:
                    want = want[:, ib]
                if got.shape != want.shape:
                    ctx.fail(f"get_data({q}, component={comp!r}, iband={ib}): shape {got.shape}, expected {want.shape}", c2)
                    continue
                err = np.abs(got - want).reshape(nk, -1).max(axis=1)
                j = int(np.argmax(err))
                tolq = 1e-9 * (scale_q[q] ** (2 if meaning == "sq" else 1))
                if err[j] > tolq:
                    ctx.fail(f"get_data({q}, component={comp!r}) at path point {j} differs from the {meaning} element of "
                             f"the single-point value by {err[j]:.3e}", c2)


def eval_oracle(ctx, scale):
    """evaluate_k_path returns, for every path point and in path order, what evaluate_k returns at that point"""
    from ..wbsys import rand_system
    from wannierberri.evaluate_k import evaluate_k
    from wannierberri.grid.path import Path
    rng = ctx.rng
    rs = np.random.RandomState(rng.getrandbits(31))
    from wannierberri.calculators import tabulate as caltab
    quantities = ["energy", "band_gradients", "berry_curvature"]

    def make_tabs(with_rank3):
        # tensor-valued tabulators of rank 2 (not symmetric in its two indices: [a,b] = d_b Omega_a) and rank 3
        t = {"Der_berry": caltab.DerBerryCurvature(print_comment=False), "InvMass": caltab.InvMass(print_comment=False)}
        if with_rank3:
            t["Der2_berry"] = caltab.Der2BerryCurvature(print_comment=False)
        return t
    for isys in range(ctx.n(2, 24) * scale):
        with quiet():
            system = rand_system(rs, num_wann=int(rs.randint(2, 5)), nR=6, matrices=("Ham", "AA"))
        for ipath in range(ctx.n(1, 2)):
            nodes, labels = rand_nodes(rng)
            mode = rng.choice(["nk", "nklist", "dk"])
            nseg = nsegments(nodes)
            kw = {"nk": rng.randint(2, 4)} if mode == "nk" else (
                {"nk": [rng.randint(2, 4) for _ in range(nseg)]} if mode == "nklist" else {"dk": rng.choice([1.5, 2.5, 4.0])})
            with quiet():
                path = Path.from_nodes(system, nodes=to_f(nodes), labels=labels, **kw)
                if rng.random() < 0.3 and len(path.K_list) <= 8:
                    path = path.get_refined(2)
            K = np.array(path.K_list)
            nk = len(K)
            case0 = dict(nodes=to_f(nodes), labels=labels, kw=kw, K_list=K.tolist(), num_wann=system.num_wann)
            ref = None
            with_rank3 = (isys % 3 == 0)
            tabnames = list(make_tabs(with_rank3))
            names = quantities + tabnames
            with ctx.attempt("evaluate_k (reference)", case0):
                with quiet():
                    ref = []
                    for j in range(nk):
                        r = dict(evaluate_k(system, k=K[j], quantities=quantities, return_single_as_dict=True))
                        rt = evaluate_k(system, k=K[j], calculators=make_tabs(with_rank3), return_single_as_dict=True)
                        for t in tabnames:
                            r[t] = np.array(rt[t].data[0])
                        ref.append(r)
            if ref is None:
                continue
            scale_q = {q: 1 + max(np.abs(r[q]).max() for r in ref) for q in names}
            configs = [(False, nk + 3), (False, 1), (True, rng.randint(1, max(1, nk // 2))), (True, 1)]
            configs += [(rng.random() < 0.5, rng.randint(1, nk + 1)) for _ in range(ctx.n(1, 3))]
            if ctx.tier == "thorough" and isys == 0 and ipath == 0:
                configs += [(True, b) for b in range(1, nk + 1)]
            for parallel, kb in configs:
                stub = StubRay(rng, ncpu=rng.choice([2, 3, 8]))
                case = dict(case0, parallel=parallel, k_batch=kb)
                ctx.case(signature=("eval", tuple(map(tuple, K.round(9).tolist())), parallel, kb, system.num_wann),
                         nontrivial=True)
                ctx.count("oracle.eval.parallel_stub" if parallel else "oracle.eval.serial")
                ctx.count(f"oracle.eval.k_batch{'=1' if kb == 1 else ('>=len' if kb >= nk else '<len')}")
                with ctx.attempt("evaluate_k_path", case):
                    res = run_path(system, path, quantities, parallel, kb, stub, tabulators=make_tabs(with_rank3))
                    if parallel and stub.nwait == 0:
                        ctx.fail("parallel=True did not go through ray.wait (stub not used)", case)
                    if not np.array_equal(np.array(res.kpoints), K):
                        ctx.fail("evaluate_k_path: result.kpoints are not the path's k-points in path order", case)
                        continue
                    for q in names:
                        data = res.results[q].data
                        if data.shape[0] != nk:
                            ctx.fail(f"evaluate_k_path: {q} has {data.shape[0]} rows for {nk} path points", case)
                            break
                        err = [float(np.abs(data[j] - ref[j][q]).max()) for j in range(nk)]
                        jbad = int(np.argmax(err))
                        if err[jbad] > 1e-9 * scale_q[q]:
                            # is it a permutation problem? find where the value of point jbad went
                            where = [j2 for j2 in range(nk) if np.abs(data[jbad] - ref[j2][q]).max() <= 1e-9 * scale_q[q]]
                            ctx.fail(f"evaluate_k_path(parallel={parallel}, k_batch={kb}): {q} at path point {jbad} "
                                     f"differs from evaluate_k at that point by {err[jbad]:.3e}"
                                     + (f" (it equals the value of point {where[0]})" if where else ""), case)
                            break
                    else:
                        if (parallel, kb) in configs[:2] or rng.random() < 0.3:
                            check_get_data(ctx, rng, res, ref, names, nk, case, scale_q)


def oracle(ctx, scale):
    rng = ctx.rng
    for it in range(ctx.n(150, 1500) * scale):
        nodes, labels = rand_nodes(rng)
        recip = rand_recip(rng)
        if rng.random() < 0.15:
            labels_arg = None          # default labels '1','2',...
            labels = [str(i + 1) for i in range(len([x for x in nodes if x is not None]))]
        else:
            labels_arg = labels
        case = dict(nodes=to_f(nodes), labels=labels_arg, recip_lattice=recip.tolist())
        with ctx.attempt("Path.from_nodes", case):
            p, mode, counts, kw = make_path(rng, nodes, labels_arg, recip)
            case = dict(case, mode=mode, kw=kw)
            ctx.case(signature=("nodes", tuple(nodes), mode, str(kw)), nontrivial=(nsegments(nodes) >= 2 or None in nodes))
            ctx.count(f"oracle.nodes.{mode}")
            ctx.count("oracle.nodes.with_break" if None in nodes else "oracle.nodes.no_break")
            if not check_from_nodes(ctx, p, nodes, labels, mode, counts, kw, recip, case):
                continue
            check_kline(ctx, p, case, "from_nodes")
            factor = rng.choice([1, 2, 3, 4, 7])
            with quiet():
                p2 = p.get_refined(factor)
            check_refined(ctx, p, p2, factor, dict(case, factor=factor))
            check_kline(ctx, p2, dict(case, factor=factor), "refined")
            if rng.random() < 0.3:
                f2 = rng.choice([2, 3])
                with quiet():
                    p3 = p2.get_refined(f2)
                check_refined(ctx, p2, p3, f2, dict(case, factor=[factor, f2]))
            # batches
            kb = rng.randint(1, len(p.K_list) + 2)
            with quiet(), warnings.catch_warnings():
                warnings.simplefilter("ignore")
                KL = p2.get_K_list(k_batch=kb)
            cat = np.vstack([kp.K for kp in KL]) if KL else np.zeros((0, 3))
            if not np.array_equal(cat, np.array(p2.K_list)) or any(len(kp.K) == 0 or len(kp.K) > kb for kp in KL):
                ctx.fail(f"get_K_list(k_batch={kb}): the batches do not concatenate to K_list / wrong batch sizes "
                         f"{[len(kp.K) for kp in KL]}", dict(case, k_batch=kb))
    # ---- every other public way of building a path: the coordinate must be the arc length there too
    for it in range(ctx.n(120, 1200) * scale):
        recip = rand_recip(rng)
        with ctx.attempt("Path constructors / getKline / get_refined", dict(seed=ctx.seed, iteration=it)):
            plist = other_paths(ctx, rng, recip)
            if it % ctx.n(30, 30) == 0:
                plist += seekpath_paths(ctx, rng)
            for what, p, case in plist:
                ctx.case(signature=("kline", what, np.array(p.K_list).round(9).tobytes()), nontrivial=len(p.K_list) > 2)
                ctx.count("oracle.constructor." + what.split("(")[0] + ("" if "labels=" not in what else
                                                                        "." + what.split("labels=")[1].split(",")[0].rstrip(")")))
                check_kline(ctx, p, case, what)
                if len(p.K_list) > 1:
                    kc = np.array(p.K_list).dot(p.recip_lattice)
                    steps = np.linalg.norm(kc[1:] - kc[:-1], axis=1)
                    check_kline(ctx, p, dict(case, break_thresh=float(np.median(steps)) * 1.5), what + " with break_thresh",
                                break_thresh=float(np.median(steps)) * 1.5)
                factor = rng.choice([1, 2, 3, 5])
                with quiet():
                    p2 = p.get_refined(factor)
                check_refined(ctx, p, p2, factor, dict(case, factor=factor))
                check_kline(ctx, p2, dict(case, factor=factor), f"get_refined({factor}) of " + what)
    get_component_oracle(ctx, scale)
    eval_oracle(ctx, scale)


def replay(ctx, case):
    print("replay of C29 cases: re-running the oracle with the recorded seed")
    oracle(ctx, 1)
