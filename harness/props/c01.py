"""C01 - Wannier interpolation reproduces the input on the ab-initio mesh (q -> R -> k round trip,
Wigner-Seitz / MDRS replica selection, X(-R) = X(R)^dagger, replica weights)."""
import math
import numpy as np
from fractions import Fraction as Fr

from ..common import rat, rats, ratss, ints, intss, F, quiet

PID = "C01"
CLAIM = dict(
    design="3/C01",
    technique="Lean 4 proof over an exact-rational model of WignerSeitz / set_Rvec / remapper / set_fft_q_to_R / q_to_R "
              "(Fourier part over an abstract mesh-periodic character in any field, FFT inversion as a named hypothesis) "
              "+ exact differential correspondence against the real Rvectors class + round-trip oracle on the real code",
    text="Theorems (every Gram matrix, mesh, search size, non-zero tolerance, shift and centres): the replica weights "
         "1/Ndegen of every grid class sum to 1, hence the weights of every pair of Wannier functions sum to the number "
         "of mesh points; every selected replica is congruent to its grid point modulo the mesh; under the DFT-inversion "
         "contract the q->R->k round trip returns the input at every mesh point for every ordering of the mesh points, "
         "any centres, any duplicate-free R list containing the selected replicas and data in any field (no Hermiticity "
         "needed); the contract itself is PROVED for the exact DFT on every mesh in every field with the needed primitive "
         "roots of unity (roundtrip_exact_dft), so only 'numpy/FFTW compute the DFT' is assumed; the code's tolerance test |d-dmin|<tol is decided exactly in Q; if every selected replica and its "
         "mirror image lie inside the replica search box (both directions, all grid points), then for Hermitian mesh data "
         "and the exact DFT the matrices produced by q_to_R satisfy X_ba(-R) = conj X_ab(R) for EVERY R (hermitian_of_mirror: "
         "mirror selection per class with equal Ndegen, sum over classes, conjugation of the DFT, symmetric rounding of the "
         "shifts of (a,b) and (b,a)) - and a proved counterexample shows that the hypothesis is needed (finding F12); "
         "remap_XX_R / do_ws_dist (fold an existing R-space matrix onto the mesh, redistribute over the replicas) keeps every "
         "k-space sum at the mesh points (ws_dist_preserves_mesh_values); exclude_zeros (last step of do_ws_dist) keeps exactly the R vectors with some "
         "|element| > tolerance and splits every k-space sum into kept + dropped (no sum changes when only zeros are dropped), "
         "with a proved counterexample for the rule 'largest element > tolerance' without abs.  The model is tied to the code by running both on the same exact inputs "
         "(iRvec lists in code order, Ndegen, shift classes, remap tables and weights as exact rationals, mesh slots and "
         "error kinds, q_to_R values exactly over Gaussian rationals on meshes dividing 4).",
    note="Trusted: Lean kernel + Mathlib; the harness; the FFT libraries compute the DFT (inversion itself is proved; the "
         "round trip is checked numerically by the oracle on every run); numpy float distances vs exact rational distances (cases closer than 1e-7 to the "
         "tolerance threshold are excluded from the model-vs-code comparison and used for the oracle only). "
         "get_system_w90 glue and do_ws_dist are checked on the real code, not modelled.",
)
TRUSTED = [
    "modelled: WignerSeitz.__init__/__call__, Rvectors.set_Rvec (rounding, np.unique order, shift_index, union), "
    "get_remapper_XX_from_grid_to_list_R, set_fft_q_to_R (slots and error kinds), q_to_R/remap_XX_from_grid_to_list_R "
    "for one matrix element with the FFT as a parameter",
    "FFTContract (DFT inversion on the mesh box) is proved for the exact DFT (dft_FFTContract, from Mathlib's primitive roots); "
    "trusted: numpy.fft / FFTW compute that DFT up to rounding - the oracle checks the resulting round trip numerically with "
    "both libraries on every run",
    "modelled: Rvectors.exclude_zeros (kept R vectors, exact on Gaussian-rational blocks incl. negative real, purely "
    "imaginary, tiny and at-tolerance entries)",
    "modelled: remap_XX_R / System_R.do_ws_dist for every matrix element (exact comparison of the new R list and all new "
    "matrix elements on Gaussian-integer data, old R lists that collide on the mesh included)",
    "not modelled (oracle only): conj_XX_R/reverseR, from_sparse, get_system_w90 glue, select_left/select_right sub-blocks",
    "the code computes distances in doubles; the model uses exact rationals from the Gram matrix; for hexagonal/Gram-defined "
    "lattices the code receives a float Cholesky factor of the rational Gram matrix",
]
RULE = ("lattices: cubic, orthorhombic, fcc, bcc, hexagonal-by-Gram, rhombohedral-by-Gram, rational triclinic; mesh in [1,5]^3; "
        "1-4 centres on special positions (exact Wigner-Seitz boundary ties), dyadic/decimal generic positions, inside and up to "
        "several cells outside the home cell, coinciding or not; tolerances 1e-5..0.5 and the legacy negative tolerance; "
        "sparse models (from_sparse -> do_ws_dist) with few blocks of negative real / purely imaginary / tiny / complex entries, "
        "scalar and vector valued; "
        "non-trivial = at least one replica class with Ndegen >= 2 (corr) / at least 2 mesh points or 2 centres (oracle); "
        "distinct = distinct (lattice, mesh, tolerance, centres, k order)")

TOLS = [(1e-3, Fr(1, 1000)), (1e-3, Fr(1, 1000)), (1e-5, Fr(1, 100000)), (1e-2, Fr(1, 100)), (0.25, Fr(1, 4)),
        (0.0625, Fr(1, 16)), (0.5, Fr(1, 2)), (-1e-3, Fr(-1, 1000)), (0.03, Fr(3, 100))]


# ------------------------------------------------------------------------------------------------
# generators

def gen_lattice(rng, kind=None):
    """returns (kind, G as 6 Fractions (g11,g12,g13,g22,g23,g33), float lattice L with L L^T = G up to rounding)"""
    kind = kind or rng.choice(["cubic", "ortho", "fcc", "bcc", "hex", "rhombo", "triclinic", "triclinic"])
    a = Fr(rng.choice([4, 5, 6, 8, 10, 12]), 8)
    if kind == "cubic":
        Lq = [[a, 0, 0], [0, a, 0], [0, 0, a]]
    elif kind == "ortho":
        b, c = Fr(rng.choice([4, 6, 7, 9, 11]), 8), Fr(rng.choice([5, 8, 10, 13]), 8)
        Lq = [[a, 0, 0], [0, b, 0], [0, 0, c]]
    elif kind == "fcc":
        h = a / 2
        Lq = [[0, h, h], [h, 0, h], [h, h, 0]]
    elif kind == "bcc":
        h = a / 2
        Lq = [[-h, h, h], [h, -h, h], [h, h, -h]]
    elif kind == "triclinic":
        while True:
            Lq = [[Fr(8 if i == j else 0, 8) + Fr(rng.randint(-3, 3), 8) for j in range(3)] for i in range(3)]
            M = np.array([[float(x) for x in r] for r in Lq])
            if np.linalg.det(M) > 0.4:
                break
    else:
        Lq = None
    if Lq is not None:
        Lq = [[Fr(x) for x in r] for r in Lq]
        G = [[sum(Lq[i][k] * Lq[j][k] for k in range(3)) for j in range(3)] for i in range(3)]
        L = np.array([[float(x) for x in r] for r in Lq])
    else:
        if kind == "hex":
            c2 = Fr(rng.choice([4, 9, 16, 25, 10]), 8)
            a2 = a * a
            G = [[a2, -a2 / 2, 0], [-a2 / 2, a2, 0], [0, 0, c2]]
        else:  # rhombohedral: equal lengths, equal angles with rational cosine
            cosa = Fr(rng.choice([-1, 1, 2, 3]), 8)
            a2 = a * a
            G = [[a2 if i == j else a2 * cosa for j in range(3)] for i in range(3)]
        G = [[Fr(x) for x in r] for r in G]
        L = np.linalg.cholesky(np.array([[float(x) for x in r] for r in G]))
        if np.linalg.det(L) < 0:
            L[2] *= -1
    g6 = [G[0][0], G[0][1], G[0][2], G[1][1], G[1][2], G[2][2]]
    return kind, g6, L


def gen_mesh(rng, maxnk):
    while True:
        mp = [rng.choice([1, 1, 2, 2, 3, 3, 4, 5]) for _ in range(3)]
        if mp[0] * mp[1] * mp[2] <= maxnk:
            return mp


SPECIAL = [Fr(0), Fr(1, 2), Fr(1, 4), Fr(3, 4), Fr(1, 3), Fr(2, 3), Fr(1, 8), Fr(-1, 2), Fr(1), Fr(-1, 4)]


def gen_centres(rng, far=0.2):
    """1-4 centres in reduced coordinates (Fractions, also given to the code as the nearest doubles)"""
    n = rng.choice([1, 2, 2, 3, 3, 4])
    cs = []
    for i in range(n):
        mode = rng.random()
        if cs and mode < 0.15:
            c = list(rng.choice(cs))                       # coinciding centres
        elif mode < 0.55:
            c = [rng.choice(SPECIAL) for _ in range(3)]    # special positions: exact WS-boundary ties
        elif mode < 0.8:
            c = [Fr(rng.randint(-16, 32), 16) for _ in range(3)]   # dyadic, inside / just outside the home cell
        else:
            c = [Fr(rng.randint(-150, 250), 100) for _ in range(3)]  # decimal (not exactly representable)
        if rng.random() < far:
            ax = rng.randrange(3)
            c[ax] = c[ax] + rng.choice([-3, -2, 2, 3, 4])
        cs.append(c)
    # the code sees doubles; the model sees exactly those doubles
    cf = np.array([[float(x) for x in c] for c in cs])
    return cf


def exact_rows(A):
    return ratss([[F(x) for x in row] for row in A])


def near_threshold(L, mp, tol, shifts):
    """True when some candidate distance is closer than 1e-7 to the selection threshold (float rounding could then
    decide differently from exact arithmetic): such cases go to the oracle only"""
    from wannierberri.fourier.rvectors import WignerSeitz
    w = WignerSeitz(L, mp_grid=mp, tolerance=abs(tol))
    for s in shifts:
        dist = np.linalg.norm(w.cRvec_search + np.asarray(s).dot(L), axis=2)
        gap = np.abs(np.abs(dist - dist.min(axis=1)[:, None]) - abs(tol))
        if gap.min() < 1e-7:
            return True
    return False


def rounding_near_half(cf, tolf):
    """True when some component of a centre difference, scaled by 10^ndigits, is closer than 1e-6 to a half-integer
    without being exactly one: np.round on the double then may go the other way than exact arithmetic"""
    nd = int(np.ceil(-np.log10(tolf))) + 1 if tolf > 0 else 8
    for a in cf:
        for b in cf:
            for x, y in zip(a, b):
                v = (F(y) - F(x)) * 10 ** nd
                fr = v - math.floor(v)
                if fr != Fr(1, 2) and abs(fr - Fr(1, 2)) < Fr(1, 10 ** 6):
                    return True
    return False


class Recorder:
    """records the shifts that set_Rvec passes to WignerSeitz.__call__ (they are local variables of set_Rvec)"""

    def __init__(self):
        self.shifts = []

    def __enter__(self):
        from wannierberri.fourier import rvectors
        self.mod = rvectors
        self.orig = rvectors.WignerSeitz
        rec = self

        class WS(self.orig):
            def __call__(self, shift_reduced):
                rec.shifts.append(np.array(shift_reduced, dtype=float))
                return super().__call__(shift_reduced)
        rvectors.WignerSeitz = WS
        return self

    def __exit__(self, *a):
        self.mod.WignerSeitz = self.orig


def sel_str(iRvec, Ndegen):
    return ";".join(f"{int(R[0])},{int(R[1])},{int(R[2])},{int(n)}" for R, n in zip(iRvec, Ndegen)) if len(iRvec) else "_"


def build_rvec(L, mp, tolf, cf, record=True):
    from wannierberri.fourier.rvectors import Rvectors
    with quiet():
        rv = Rvectors(lattice=L, shifts_left_red=cf)
        if record:
            with Recorder() as rec:
                rv.set_Rvec(np.array(mp), ws_tolerance=tolf)
            return rv, rec.shifts
        rv.set_Rvec(np.array(mp), ws_tolerance=tolf)
        return rv, None


# ------------------------------------------------------------------------------------------------
# correspondence

def run_batched(ctx, gens):
    """each correspondence part is a generator: it yields its protocol lines and receives the model's output lines;
    all parts go through ONE run of the Lean driver (start-up dominates the cost)"""
    gens = [g(ctx) for g in gens]
    chunks = [list(next(g)) for g in gens]
    out = ctx.lean([l for ch in chunks for l in ch])
    pos = 0
    for g, ch in zip(gens, chunks):
        try:
            g.send(out[pos:pos + len(ch)])
        except StopIteration:
            pass
        pos += len(ch)


def corr(ctx):
    run_batched(ctx, [corr_ws, corr_rvec, corr_placek, corr_qtor, corr_exclz, corr_wsdist])


def corr_ws(ctx):
    """WignerSeitz.__call__ on arbitrary shifts (not only differences of centres), all tolerances"""
    from wannierberri.fourier.rvectors import WignerSeitz
    rng = ctx.rng
    lines, expect, cases = [], [], []
    for it in range(ctx.n(25, 300)):
        kind, g6, L = gen_lattice(rng)
        mp = gen_mesh(rng, ctx.n(18, 60))
        tolf, tolq = rng.choice(TOLS)
        tolf, tolq = abs(tolf), abs(tolq)
        s = [rng.choice(SPECIAL + [Fr(rng.randint(-40, 40), 16), Fr(rng.randint(-300, 300), 100)]) for _ in range(3)]
        sf = np.array([float(x) for x in s])
        case = dict(kind=kind, lattice=L, mp=mp, tol=tolf, shift=sf)
        if near_threshold(L, mp, tolf, [sf]):
            ctx.count("corr.ws.skipped_near_threshold")
            continue
        with ctx.attempt("WignerSeitz.__call__", case):
            with quiet():
                iR, nd, iRm = WignerSeitz(L, mp_grid=np.array(mp), tolerance=tolf)(sf)
            if not np.array_equal(iRm, iR % np.array(mp)):
                ctx.fail("WignerSeitz: returned iRvec_mod is not iRvec % mp_grid", case)
            lines.append(f"ws {rats(g6)} {ints(mp)} {rat(tolq)} {rats(F(x) for x in sf)}")
            expect.append(sel_str(iR, nd))
            cases.append(case)
            ctx.count(f"corr.ws.kind={kind}")
            ctx.count("corr.ws.ties" if nd.max() > 1 else "corr.ws.no_ties")
            ctx.count(f"corr.ws.maxNdegen={min(int(nd.max()), 9)}")
    out = yield lines
    for l, o, e, c in zip(lines, out, expect, cases):
        ctx.case(signature=l, nontrivial=(";" in e and any(int(t.split(",")[3]) > 1 for t in e.split(";"))))
        if o != e:
            ctx.mismatch(f"WignerSeitz: model and code select different replicas / Ndegen: model={o[:200]} code={e[:200]}",
                         dict(line=l, case=c))
    if lines:
        ctx.sample(dict(protocol_line=lines[0][:300], model=out[0][:300], code=expect[0][:300]))


def corr_rvec(ctx):
    """Rvectors.set_Rvec + get_remapper_XX_from_grid_to_list_R: shift classes, union, selections, remap tables, weights"""
    rng = ctx.rng
    lines, expect, cases = [], [], []
    one = [Fr(1), Fr(0), Fr(0), Fr(1), Fr(0), Fr(1)]
    fcc = [Fr(1, 2), Fr(1, 4), Fr(1, 4), Fr(1, 2), Fr(1, 4), Fr(1, 2)]
    fixed = [
        # the witness of finding F12 (model at the code's search size 3): iRvec = {-6,-5,6,7}
        ("cubic", one, np.eye(3), [2, 1, 1], 1e-3, Fr(1, 1000), np.array([[0, 0, 0], [6.2, 0.1, 0]])),
        # DESIGN example: fcc, mesh (2,2,2), centres (0,0,0),(1/4,1/4,1/4): boundary ties
        ("fcc", fcc, np.array([[0, .5, .5], [.5, 0, .5], [.5, .5, 0]]), [2, 2, 2], 1e-3, Fr(1, 1000),
         np.array([[0, 0, 0], [.25, .25, .25]])),
        # simple cubic, centre at the cell corner/edge/face midpoints: 8-, 4- and 2-fold ties
        ("cubic", one, np.eye(3), [3, 2, 1], 1e-5, Fr(1, 100000), np.array([[0, 0, 0], [.5, .5, .5], [.5, .5, 0], [.5, 0, 0]])),
    ]
    for it in range(ctx.n(20, 220)):
        if it < len(fixed):
            kind, g6, L, mp, tolf, tolq, cf = fixed[it]
            L = np.array(L, dtype=float)
            cf = np.array(cf, dtype=float)
        else:
            kind, g6, L = gen_lattice(rng)
            mp = gen_mesh(rng, ctx.n(12, 45))
            tolf, tolq = rng.choice(TOLS)
            cf = gen_centres(rng)
        case = dict(kind=kind, lattice=L, mp=mp, tol=tolf, centres=cf)
        if rounding_near_half(cf, tolf):
            ctx.count("corr.rvec.skipped_rounding_near_half")
            continue
        with ctx.attempt("Rvectors.set_Rvec", case):
            rv, shifts = build_rvec(L, mp, tolf, cf)
            if near_threshold(L, mp, tolf, shifts):
                ctx.count("corr.rvec.skipped_near_threshold")
                continue
            with quiet():
                mapx, mapy, mapz, weights = rv.get_remapper_XX_from_grid_to_list_R
            order = sorted(range(rv.nRvec), key=lambda i: tuple(int(x) for x in rv.iRvec[i]))
            n = len(cf)
            e_uniq = [[float(x) for x in s] for s in shifts]
            e_idx = [[int(rv.shift_index[a, b]) for b in range(n)] for a in range(n)]
            e_iR = [tuple(int(x) for x in rv.iRvec[i]) for i in order]
            e_sel = [sel_str(iR, nd) for iR, nd in zip(rv.iRvec_list, rv.Ndegen_list)]
            e_pairs = [[(int(mapx[i, a, b]), int(mapy[i, a, b]), int(mapz[i, a, b]), float(weights[i, a, b])) for i in order]
                       for a in range(n) for b in range(n)]
            lines.append(f"rvec {rats(g6)} {ints(mp)} {rat(tolq)} {exact_rows(cf)}")
            expect.append((e_uniq, e_idx, e_iR, e_sel, e_pairs))
            cases.append(case)
            ctx.count(f"corr.rvec.kind={kind}")
            ctx.count(f"corr.rvec.ncentres={n}")
            ctx.count(f"corr.rvec.nshifts={len(shifts)}")
            ctx.count(f"corr.rvec.Nk={mp[0] * mp[1] * mp[2]}")
            ctx.count("corr.rvec.tol=" + str(tolf))
            ctx.count("corr.rvec.ties" if max(int(nd.max()) for nd in rv.Ndegen_list) > 1 else "corr.rvec.no_ties")
    out = yield lines
    for l, o, e, c in zip(lines, out, expect, cases):
        e_uniq, e_idx, e_iR, e_sel, e_pairs = e
        ties = any(int(t.split(",")[3]) > 1 for s in e_sel for t in s.split(";"))
        ctx.case(signature=l, nontrivial=ties)
        parts = o.split(" | ")
        if len(parts) != 6:
            ctx.mismatch("set_Rvec: model output malformed: " + o[:200], dict(line=l, case=c))
            continue
        m_uniq = [[float(Fr(t)) for t in s.split(",")] for s in parts[1].split(";")]
        if len(m_uniq) != len(e_uniq) or np.abs(np.array(m_uniq) - np.array(e_uniq)).max() > 1e-12:
            ctx.mismatch(f"set_Rvec: distinct shifts differ: model={m_uniq} code={e_uniq}", dict(line=l, case=c))
            continue
        m_idx = [[int(t) for t in r.split(",")] for r in parts[2].split(";")]
        if m_idx != e_idx:
            ctx.mismatch(f"set_Rvec: shift_index differs: model={m_idx} code={e_idx}", dict(line=l, case=c))
        m_iR = [tuple(int(t) for t in s.split(",")) for s in parts[3].split(";")]
        if m_iR != e_iR:
            ctx.mismatch(f"set_Rvec: iRvec (sorted) differs: model has {len(m_iR)} code has {len(e_iR)}: "
                         f"only-model={sorted(set(m_iR) - set(e_iR))[:5]} only-code={sorted(set(e_iR) - set(m_iR))[:5]}",
                         dict(line=l, case=c))
            continue
        m_sel = parts[4].split("#")
        if m_sel != e_sel:
            k = next((i for i, (x, y) in enumerate(zip(m_sel, e_sel)) if x != y), -1)
            ctx.mismatch(f"set_Rvec: iRvec_list/Ndegen_list differ for shift #{k}: model={m_sel[k][:150] if k >= 0 else len(m_sel)} "
                         f"code={e_sel[k][:150] if k >= 0 else len(e_sel)}", dict(line=l, case=c))
        m_pairs = parts[5].split("#")
        bad = None
        for ip, (mrow, erow) in enumerate(zip(m_pairs, e_pairs)):
            mrow = mrow.split(";")
            for mt, et in zip(mrow, erow):
                t = mt.split(",")
                if (int(t[0]), int(t[1]), int(t[2])) != et[:3] or abs(float(Fr(t[3])) - et[3]) > 1e-12:
                    bad = (ip, mt, et)
                    break
            if bad or len(mrow) != len(erow):
                bad = bad or (ip, len(mrow), len(erow))
                break
        if bad or len(m_pairs) != len(e_pairs):
            ctx.mismatch(f"remapper/weights differ (pair index, model entry 'mod,weight', code entry): {bad}", dict(line=l, case=c))
    if lines:
        ctx.sample(dict(protocol_line=lines[0][:300], model=out[0][:400]))


def gen_kpts(rng, mp, kind):
    """k-points in reduced coordinates for set_fft_q_to_R; returns (float array, expected error or None)"""
    pts = [(i, j, k) for i in range(mp[0]) for j in range(mp[1]) for k in range(mp[2])]
    rng.shuffle(pts)
    ks = []
    for p in pts:
        off = [rng.choice([0, 0, 0, 1, -1, 2, -3]) for _ in range(3)]
        ks.append([Fr(p[i], mp[i]) + off[i] for i in range(3)])
    if kind == "count" and len(ks) > 1:
        ks = ks[:-1]
    elif kind == "count":
        ks = ks + ks
    elif kind == "shifted":          # not Gamma centred: half-step shift on an axis
        ax = rng.randrange(3)
        for k in ks:
            k[ax] += Fr(1, 2 * mp[ax])
    elif kind == "notgamma" and len(ks) > 1:   # the Gamma point replaced by a copy of another point
        ig = next(i for i, p in enumerate(pts) if p == (0, 0, 0))
        ks[ig] = list(ks[(ig + 1) % len(ks)])
    elif kind == "dup" and len(ks) > 2:   # a non-Gamma point duplicated over another non-Gamma point
        idx = [i for i, p in enumerate(pts) if p != (0, 0, 0)]
        ks[idx[0]] = [x + rng.choice([0, 1, -2]) for x in ks[idx[1]]]
    elif kind == "offgrid":
        i = rng.randrange(len(ks))
        ks[i][rng.randrange(3)] += Fr(1, 7 * 8)
    return np.array([[float(x) for x in k] for k in ks]).reshape(-1, 3)


def placek_real(mp, kf):
    from wannierberri.fourier.rvectors import Rvectors
    rv = Rvectors(lattice=np.eye(3), shifts_left_red=np.zeros((1, 3)))
    rv.mp_grid = np.array(mp)
    try:
        with quiet():
            rv.set_fft_q_to_R(kpt_red=kf, fftlib="numpy")
    except ValueError as e:
        return "err-notgamma" if "Gamma-centered" in str(e) else "err-other:" + str(e)[:60]
    except AssertionError as e:
        msg = str(e)
        if "should be an array of shape" in msg:
            return "err-count"
        if "should be a uniform grid" in msg:
            return "err-notgrid"
        if "has duplicates" in msg:
            return "err-duplicates"
        return "err-other:" + msg[:60]
    return ";".join(f"{k[0]},{k[1]},{k[2]}" for k in rv.kpt_mp_grid)


def corr_placek(ctx):
    rng = ctx.rng
    lines, expect, cases = [], [], []
    for it in range(ctx.n(50, 600)):
        mp = gen_mesh(rng, 40)
        kind = rng.choice(["ok", "ok", "ok", "count", "shifted", "notgamma", "dup", "offgrid"])
        kf = gen_kpts(rng, mp, kind)
        case = dict(mp=mp, kpt_red=kf, kind=kind)
        with ctx.attempt("set_fft_q_to_R", case):
            e = placek_real(mp, kf)
            lines.append(f"placek {ints(mp)} {exact_rows(kf)}")
            expect.append(e)
            cases.append(case)
            ctx.count("corr.placek." + (e if e.startswith("err") else "ok"))
    out = yield lines
    for l, o, e, c in zip(lines, out, expect, cases):
        ctx.case(signature=l, nontrivial=True)
        if o != e:
            ctx.mismatch(f"set_fft_q_to_R: model={o[:120]} code={e[:120]}", dict(line=l, case=c))


def corr_qtor(ctx):
    """q_to_R on meshes whose sizes divide 4, Gaussian-integer data: exact values over Gaussian rationals"""
    rng = ctx.rng
    lines, expect, cases = [], [], []
    for it in range(ctx.n(5, 80)):
        kind, g6, L = gen_lattice(rng)
        while True:
            mp = [rng.choice([1, 2, 2, 4]) for _ in range(3)]
            if mp[0] * mp[1] * mp[2] <= ctx.n(8, 16):
                break
        tolf, tolq = rng.choice(TOLS)
        cf = gen_centres(rng, far=0.1)
        if len(cf) > 2:
            cf = cf[:rng.choice([2, 2, 3])]
        n = len(cf)
        kf = gen_kpts(rng, mp, "ok")
        nk = len(kf)
        X = np.array([[[complex(rng.randint(-5, 5), rng.randint(-5, 5)) for b in range(n)] for a in range(n)] for i in range(nk)])
        case = dict(kind=kind, lattice=L, mp=mp, tol=tolf, centres=cf, kpt_red=kf, X=X)
        if rounding_near_half(cf, tolf):
            ctx.count("corr.qtor.skipped_rounding_near_half")
            continue
        with ctx.attempt("q_to_R", case):
            rv, shifts = build_rvec(L, mp, tolf, cf)
            if near_threshold(L, mp, tolf, shifts):
                ctx.count("corr.qtor.skipped_near_threshold")
                continue
            with quiet():
                rv.set_fft_q_to_R(kpt_red=kf, fftlib=rng.choice(["numpy", "fftw"]))
                XR = rv.q_to_R(X.copy())
            order = sorted(range(rv.nRvec), key=lambda i: tuple(int(x) for x in rv.iRvec[i]))
            slots = rv.kpt_mp_grid
            xs = "#".join(";".join(f"{int(z.real)},{int(z.imag)}" for z in X[:, a, b]) for a in range(n) for b in range(n))
            lines.append(f"qtor {rats(g6)} {ints(mp)} {rat(tolq)} {exact_rows(cf)} {intss(slots)} {xs}")
            expect.append([(np.array([XR[i, a, b] for i in order]), X[:, a, b]) for a in range(n) for b in range(n)])
            cases.append(case)
            ctx.count(f"corr.qtor.mesh={mp[0]}x{mp[1]}x{mp[2]}")
    out = yield lines
    for l, o, e, c in zip(lines, out, expect, cases):
        ctx.case(signature=l, nontrivial=True)
        def cplx(s):
            return np.array([complex(float(Fr(t.split(",")[0])), float(Fr(t.split(",")[1]))) for t in s.split(";")])
        blocks = o.split("#")
        if len(blocks) != len(e) or any(len(b.split(" | ")) != 2 for b in blocks):
            ctx.mismatch("q_to_R: model output malformed " + o[:100], dict(line=l[:300], case=c))
            continue
        for ip, (blk, (eXR, eX)) in enumerate(zip(blocks, e)):
            parts = blk.split(" | ")
            mXR, mback = cplx(parts[0]), cplx(parts[1])
            if mXR.shape != eXR.shape or np.abs(mXR - eXR).max() > 1e-12 * 8:
                ctx.mismatch(f"q_to_R: X(R) differs between model and code for pair #{ip}", dict(line=l[:300], case=c))
                break
            if np.abs(mback - eX).max() > 0:
                ctx.mismatch("q_to_R model: exact round trip of the MODEL does not return the input (model broken)",
                             dict(line=l[:300]))
                break



# ------------------------------------------------------------------------------------------------
# exclude_zeros / sparse models (the last step of System_R.do_ws_dist)

TINY = 2.0 ** -40      # far below every tolerance used, exactly representable


def sparse_value(rng, kind=None):
    """one matrix element of a structured sparse model: the sign / phase classes that dense random data never isolates"""
    kind = kind or rng.choice(["neg", "neg", "imag", "imag-", "pos", "complex", "tiny", "negcomplex"])
    m = rng.choice([1.0, 0.5, 0.25, 2.0, 0.125])
    return {"neg": -m, "imag": 1j * m, "imag-": -1j * m, "pos": m, "complex": m * (1 - 0.5j),
            "tiny": rng.choice([TINY, -TINY, 1j * TINY]), "negcomplex": m * (-1 - 0.5j)}[kind], kind


def corr_exclz(ctx):
    """Rvectors.exclude_zeros(dict of matrices, tolerance): kept R vectors (in order) vs the model, on sparse blocks whose
    entries are negative real, purely imaginary, tiny, exactly at the tolerance, or zero"""
    from wannierberri.fourier.rvectors import Rvectors
    rng = ctx.rng
    lines, expect, cases = [], [], []
    for it in range(ctx.n(40, 300)):
        nR = rng.randint(1, 9)
        iR = set()
        while len(iR) < nR:
            iR.add(tuple(rng.randint(-2, 2) for _ in range(3)))
        iR = sorted(iR)
        rng.shuffle(iR)
        iR = np.array(iR)
        nw = rng.randint(1, 2)
        tolf, tolq = rng.choice([(1e-8, Fr(1, 10 ** 8)), (1e-8, Fr(1, 10 ** 8)), (0.25, Fr(1, 4)), (2.0 ** -30, Fr(1, 2 ** 30))])
        mats = {"Ham": np.zeros((nR, nw, nw), dtype=complex)}
        if rng.random() < 0.5:
            mats["AA"] = np.zeros((nR, nw, nw, 3), dtype=complex)
        kinds = set()
        for i in range(nR):
            for X in mats.values():
                r = rng.random()
                if r < 0.35:
                    continue                                    # all-zero block in this matrix
                nel = 1 if r < 0.8 else 2
                for _ in range(nel):
                    idx = tuple(rng.randrange(d) for d in X.shape[1:])
                    if rng.random() < 0.2:
                        v, k = rng.choice([(tolf, "at-tol"), (-tolf, "at-tol"), (1j * tolf, "at-tol"), (-2 * tolf, "2tol")])
                    else:
                        v, k = sparse_value(rng)
                    X[(i,) + idx] = v
                    kinds.add(k)
        case = dict(iRvec=iR, tolerance=tolf, matrices={k: v for k, v in mats.items()})
        with ctx.attempt("Rvectors.exclude_zeros", case):
            with quiet():
                rv = Rvectors(lattice=np.eye(3), iRvec=iR, shifts_left_red=np.zeros((nw, 3)))
                new, rvn = rv.exclude_zeros({k: v.copy() for k, v in mats.items()}, tolerance=tolf)
            kept = [tuple(int(x) for x in R) for R in rvn.iRvec]
            # kept blocks must be the original blocks
            index = {tuple(int(x) for x in R): i for i, R in enumerate(iR)}
            for k in mats:
                if new[k].shape[0] != len(kept) or any(not np.array_equal(new[k][j], mats[k][index[R]]) for j, R in enumerate(kept)):
                    ctx.fail(f"exclude_zeros changed or misplaced the kept blocks of {k}", case)
            blocks = []
            for i, R in enumerate(iR):
                els = np.concatenate([X[i].reshape(-1) for X in mats.values()])
                blocks.append(f"{int(R[0])},{int(R[1])},{int(R[2])}:" + ";".join(f"{rat(F(z.real))},{rat(F(z.imag))}" for z in els))
            lines.append(f"exclz {rat(F(tolf))} " + "#".join(blocks))
            expect.append(";".join(f"{R[0]},{R[1]},{R[2]}" for R in kept) if kept else "_")
            cases.append(case)
            for k in kinds:
                ctx.count(f"corr.exclz.has_{k}")
            ctx.count("corr.exclz.dropped_some" if len(kept) < nR else "corr.exclz.kept_all")
    out = yield lines
    for l, o, e, c in zip(lines, out, expect, cases):
        ctx.case(signature=l, nontrivial=True)
        if o != e:
            ctx.mismatch(f"exclude_zeros: kept R vectors differ: model={o[:150]} code={e[:150]}", dict(line=l[:400], case=c))


def corr_wsdist(ctx):
    """System_R.do_ws_dist (new Rvectors + remap_XX_R of every matrix + exclude_zeros) on Gaussian-integer matrices over an
    arbitrary old R list vs the model's remapXXR: the new R list and every new matrix element, exactly"""
    from wannierberri.system.system_R import System_R
    rng = ctx.rng
    lines, expect, cases = [], [], []
    for it in range(ctx.n(8, 80)):
        kind, g6, L = gen_lattice(rng)
        mp = gen_mesh(rng, ctx.n(8, 18))
        tolf, tolq = rng.choice([t for t in TOLS if t[0] > 0])
        cf = gen_centres(rng, far=0.1)[:rng.choice([1, 2, 2, 3])]
        nw = len(cf)
        nold = rng.randint(1, 8)
        Rold = {(0, 0, 0)}
        while len(Rold) < nold:
            m = rng.choice([1, 2, 3])
            Rold.add(tuple(rng.randint(-m, m) for _ in range(3)))
        ham = {R: {(a, b): complex(rng.randint(-5, 5), rng.randint(-5, 5)) for a in range(nw) for b in range(nw)} for R in Rold}
        case = dict(kind=kind, lattice=L, mp=mp, tol=tolf, centres=cf, Ham={str(R): {str(k): v for k, v in d.items()} for R, d in ham.items()})
        if rounding_near_half(cf, tolf):
            ctx.count("corr.wsdist.skipped_rounding_near_half")
            continue
        with ctx.attempt("System_R.do_ws_dist", case):
            rv0, shifts = build_rvec(L, mp, tolf, cf)
            if near_threshold(L, mp, tolf, shifts):
                ctx.count("corr.wsdist.skipped_near_threshold")
                continue
            with quiet():
                s = System_R.from_sparse(real_lattice=L, wannier_centers_red=cf, matrices={"Ham": ham})
                # the system recomputes the reduced centres from the Cartesian ones; feed the model those
                cred = np.array(s.wannier_centers_red)
                iR_old = s.rvec.iRvec.copy()
                X_old = s.get_R_mat("Ham").copy()
                s.do_ws_dist(mp_grid=mp, ws_dist_tol=tolf)
            if np.abs(cred - cf).max() > 0:
                if rounding_near_half(cred, tolf):
                    continue
                rv0, shifts = build_rvec(L, mp, tolf, cred)
                if near_threshold(L, mp, tolf, shifts):
                    continue
            pairs = "#".join(f"{a},{b}:" + ";".join(f"{int(z.real)},{int(z.imag)}" for z in X_old[:, a, b])
                             for a in range(nw) for b in range(nw))
            lines.append(f"wsdist {rats(g6)} {ints(mp)} {rat(tolq)} {exact_rows(cred)} {intss(iR_old)} {pairs}")
            new = {tuple(int(x) for x in R): s.get_R_mat("Ham")[i] for i, R in enumerate(s.rvec.iRvec)}
            expect.append((new, nw))
            cases.append(case)
            ctx.count(f"corr.wsdist.nRold={len(iR_old)}")
            ncoll = len(iR_old) - len({tuple(r) for r in (iR_old % np.array(mp))})
            ctx.count("corr.wsdist.old_R_collide_on_mesh" if ncoll else "corr.wsdist.no_collision")
    out = yield lines
    for l, o, e, c in zip(lines, out, expect, cases):
        ctx.case(signature=l, nontrivial=True)
        new, nw = e
        parts = o.split(" | ")
        if len(parts) != 2:
            ctx.mismatch("do_ws_dist: malformed model output " + o[:100], dict(line=l[:300]))
            continue
        mR = [tuple(int(t) for t in x.split(",")) for x in parts[0].split(";")]
        blocks = parts[1].split("#")

        def cplx(sx):
            return np.array([complex(float(Fr(t.split(",")[0])), float(Fr(t.split(",")[1]))) for t in sx.split(";")])
        M = np.array([cplx(b) for b in blocks]).reshape(nw, nw, len(mR))      # [a,b,iR]
        missing = [R for R in new if R not in mR]
        if missing:
            ctx.mismatch(f"do_ws_dist: the code keeps R vectors that the model does not select: {missing[:4]}", dict(line=l[:300], case=c))
            continue
        bad = None
        for i, R in enumerate(mR):
            if R in new:
                d = np.abs(M[:, :, i] - new[R]).max()
                if d > 1e-12 * (1 + np.abs(M).max()):
                    bad = f"X({R}) differs by {d:.3e}"
                    break
            elif np.abs(M[:, :, i]).max() > 1e-8:
                bad = f"the code dropped R={R} although the model has |X(R)| = {np.abs(M[:, :, i]).max():.3e} > 1e-8 there"
                break
        if bad:
            ctx.mismatch("do_ws_dist vs model remapXXR: " + bad, dict(line=l[:300], case=c))


# ------------------------------------------------------------------------------------------------
# property oracle on the real code

def rand_lattice_float(rng, nprng):
    kind = rng.choice(["cubic", "ortho", "hex", "fcc", "bcc", "triclinic", "triclinic", "flat", "random"])
    if kind == "cubic":
        return kind, np.eye(3) * nprng.uniform(0.7, 2.5)
    if kind == "ortho":
        return kind, np.diag(nprng.uniform(0.6, 2.5, 3))
    if kind == "hex":
        a, c = nprng.uniform(0.8, 2.0, 2)
        return kind, np.array([[a, 0, 0], [-a / 2, a * math.sqrt(3) / 2, 0], [0, 0, c]])
    if kind == "fcc":
        a = nprng.uniform(0.8, 3)
        return kind, a / 2 * np.array([[0., 1, 1], [1, 0, 1], [1, 1, 0]])
    if kind == "bcc":
        a = nprng.uniform(0.8, 3)
        return kind, a / 2 * np.array([[-1., 1, 1], [1, -1, 1], [1, 1, -1]])
    if kind == "flat":   # strongly anisotropic cell
        return kind, np.diag([1.0, nprng.uniform(2.5, 4), nprng.uniform(0.3, 0.5)]) + nprng.uniform(-0.1, 0.1, (3, 3))
    while True:
        L = (np.eye(3) + nprng.uniform(-0.45, 0.45, (3, 3))) if kind == "triclinic" else nprng.uniform(-1, 1, (3, 3))
        d = np.linalg.det(L)
        if abs(d) > 0.25:
            return kind, (L if d > 0 else -L)


def mirror_outside_box(rv, mp, ws=3):
    """input class of finding F12: some selected replica R whose mirror image -R is not among the 7^3 searched
    replicas of its own grid point (the search box is not inversion symmetric as a set of replicas)"""
    mp = np.array(mp)
    for iR in rv.iRvec_list:
        m = -iR
        t = (m - m % mp) // mp
        if np.any(t < -ws) or np.any(t > ws):
            return True
    return False


def explicit_sum(kpts, iRvec, XR):
    ph = np.exp(2j * np.pi * (np.asarray(kpts) @ iRvec.T))
    return np.tensordot(ph, XR, axes=(1, 0))


def oracle(ctx, scale):
    oracle_roundtrip(ctx, scale)
    oracle_do_ws_dist(ctx, scale)
    oracle_sparse(ctx, scale)


def oracle_roundtrip(ctx, scale):
    rng = ctx.rng
    nprng = ctx.nprng()
    for it in range(ctx.n(150, 1500) * scale):
        kind, L = rand_lattice_float(rng, nprng)
        mp = gen_mesh(rng, ctx.n(30, 80))
        nk = mp[0] * mp[1] * mp[2]
        tolf = rng.choice([1e-3, 1e-3, 1e-5, 1e-2, 0.1, 0.3, -1e-3, 1e-8])
        mode = rng.random()
        if mode < 0.5:
            cf = nprng.uniform(-0.5, 1.5, (rng.randint(1, 4), 3))
        elif mode < 0.75:
            cf = gen_centres(rng, far=0.3)
        else:
            # near-tolerance stream: one centre within [0.1,10] x tol of a Wigner-Seitz face (special position + eps)
            cf = gen_centres(rng, far=0.0)
            i = rng.randrange(len(cf))
            cf[i] = cf[i] + nprng.normal(0, 1, 3) * abs(tolf) * rng.choice([0.1, 1, 10]) / np.linalg.norm(L, axis=1).max()
        if rng.random() < 0.12:
            # the witness class of finding F12: centres more than ~3 mesh periods apart
            cf = np.vstack([cf[:1], cf[:1] + np.array([rng.choice([-1, 1]) * (3.1 * mp[0] + nprng.uniform(0, 1)), 0.1, 0])])
        n = len(cf)
        trailing = rng.choice([(), (), (3,), (3, 3), (2,)])
        fftlib = rng.choice(["fftw", "numpy"])
        kf = gen_kpts(rng, mp, "ok")
        Xq = nprng.normal(size=(nk, n, n) + trailing) + 1j * nprng.normal(size=(nk, n, n) + trailing)
        Xq = 0.5 * (Xq + Xq.swapaxes(1, 2).conj()) * rng.choice([1.0, 1e3, 1e-3])
        case = dict(kind=kind, lattice=L, mp=mp, tol=tolf, centres=cf, kpt_red=kf, trailing=trailing, fftlib=fftlib,
                    seed_note="X_q = hermitised normal complex data, see oracle_roundtrip")
        ctx.count(f"oracle.kind={kind}")
        ctx.count(f"oracle.trailing={trailing}")
        ctx.count(f"oracle.ncentres={n}")
        ctx.count(f"oracle.fftlib={fftlib}")
        with ctx.attempt("set_Rvec/q_to_R", case):
            rv, _ = build_rvec(L, mp, tolf, cf, record=False)
            with quiet():
                rv.set_fft_q_to_R(kpt_red=kf, fftlib=fftlib)
                Xin = Xq.copy()
                XR = rv.q_to_R(Xin)
            ctx.case(signature=("rt", kind, tuple(mp), tolf, cf.tobytes(), kf.tobytes()), nontrivial=(nk > 1 or n > 1))
            scale_x = np.abs(Xq).max()
            if not np.array_equal(Xin, Xq):
                ctx.fail("q_to_R modified its input array", case)
            # 1. round trip at every mesh point (explicit sum, the k-points as they were listed)
            back = explicit_sum(kf, rv.iRvec, XR)
            err = np.abs(back - Xq).max()
            tol_rt = 1e-11 * scale_x * max(1, rv.nRvec / 50)
            if err > tol_rt:
                ctx.fail(f"round trip q->R->k not exact: max|X_back - X_q| = {err:.3e} (allowed {tol_rt:.1e})",
                         dict(case, err=err))
            # 2. weights of every pair sum to the number of mesh points
            with quiet():
                w = rv.get_remapper_XX_from_grid_to_list_R[3]
            if np.abs(w.sum(axis=0) - nk).max() > 1e-10 * nk:
                ctx.fail(f"replica weights of a pair do not sum to Nk={nk}: {w.sum(axis=0)}", case)
            if w.min() < 0 or np.abs(w.sum(axis=0).shape[0] - n) != 0:
                ctx.fail("negative weight or wrong weight shape", case)
            # 3. X(-R) = X(R)^dagger
            far = mirror_outside_box(rv, mp)
            ctx.count("oracle.mirror_outside_search_box" if far else "oracle.mirror_inside_search_box")
            mset = set(tuple(int(x) for x in R) for R in rv.iRvec)
            missing = [R for R in mset if (-R[0], -R[1], -R[2]) not in mset]
            with quiet():
                import warnings
                with warnings.catch_warnings():
                    warnings.simplefilter("ignore")
                    herm = np.abs(rv.conj_XX_R(XR, ignore_mR_not_found=True) - XR).max()
            if herm > 1e-11 * scale_x or missing:
                ctx.fail(f"X(-R) != X(R)^dagger: max difference {herm:.3e}; R without -R partner: {missing[:4]}"
                         + (" [a selected replica has its mirror image outside the 7^3 search box]" if far else ""),
                         dict(case, herm=herm), kf="F12-hermiticity-far-centres" if far else None)
            # 4. sub-block selection gives the same numbers
            if n >= 2 and not trailing and rng.random() < 0.3:
                sl = sorted(rng.sample(range(n), rng.randint(1, n)))
                sr = sorted(rng.sample(range(n), rng.randint(1, n)))
                with quiet():
                    XRs = rv.q_to_R(Xq[:, sl][:, :, sr].copy(), select_left=sl, select_right=sr)
                if np.abs(XRs - XR[:, sl][:, :, sr]).max() > 1e-12 * scale_x:
                    ctx.fail("q_to_R with select_left/select_right differs from the sub-block of the full transform",
                             dict(case, select_left=sl, select_right=sr))


def oracle_do_ws_dist(ctx, scale):
    """System_R.do_ws_dist (remap_XX_R): re-mapping an existing model with MDRS keeps every matrix at the mesh points"""
    from ..wbsys import rand_system
    rng = ctx.rng
    for it in range(ctx.n(20, 150) * scale):
        rs = np.random.RandomState(rng.getrandbits(31))
        nw = rng.randint(1, 3)
        mp = gen_mesh(rng, 27)
        kind, L = rand_lattice_float(rng, ctx.nprng())
        cent = rs.uniform(-0.5, 1.5, (nw, 3))
        case = dict(kind=kind, lattice=L, mp=mp, num_wann=nw, centres=cent, what="rand_system + do_ws_dist")
        with ctx.attempt("System_R.do_ws_dist", case):
            with quiet():
                s = rand_system(rs, num_wann=nw, nR=rng.randint(3, 12), max_R=rng.choice([1, 2, 4]), lattice=L,
                                matrices=("Ham", "AA"), centers=cent)
                iR_old = s.rvec.iRvec.copy()
                old = {k: s.get_R_mat(k).copy() for k in ("Ham", "AA")}
                wtol = rng.choice([1e-5, 1e-3])
                s.do_ws_dist(mp_grid=mp, ws_dist_tol=wtol)
            # the same Rvectors object as do_ws_dist builds (before exclude_zeros), to classify the input
            rv0, _ = build_rvec(L, mp, wtol, np.array(s.wannier_centers_red), record=False)
            far = mirror_outside_box(rv0, mp)
            ctx.count("oracle.wsdist.mirror_outside_search_box" if far else "oracle.wsdist.mirror_inside_search_box")
            kpts = np.array([[i / mp[0], j / mp[1], k / mp[2]] for i in range(mp[0]) for j in range(mp[1]) for k in range(mp[2])])
            ctx.case(signature=("wsd", tuple(mp), nw, cent.tobytes()), nontrivial=True)
            for key in ("Ham", "AA"):
                a = explicit_sum(kpts, iR_old, old[key])
                b = explicit_sum(kpts, s.rvec.iRvec, s.get_R_mat(key))
                if np.abs(a - b).max() > 1e-11 * (1 + np.abs(a).max()):
                    ctx.fail(f"do_ws_dist changed {key}(k) at a mesh point by {np.abs(a - b).max():.3e}", case)
                with quiet():
                    h = np.abs(s.rvec.conj_XX_R(s.get_R_mat(key), ignore_mR_not_found=True) - s.get_R_mat(key)).max()
                if h > 1e-11 * (1 + np.abs(a).max()):
                    ctx.fail(f"do_ws_dist: {key}(-R) != {key}(R)^dagger after re-mapping ({h:.3e})"
                             + (" [a selected replica has its mirror image outside the 7^3 search box]" if far else ""),
                             case, kf="F12-hermiticity-far-centres" if far else None)


def gen_sparse_model(rng, nprng):
    """structured sparse tight-binding model for System_R.from_sparse: few non-zero blocks, each with ONE or two elements
    that are negative real, purely imaginary, complex with negative real part, tiny, ... ; scalar 'Ham' and (sometimes)
    vector-valued 'AA'; Hermitian by construction (every hopping is entered with its -R partner)"""
    kind, L = rand_lattice_float(rng, nprng)
    nw = rng.randint(1, 3)
    cent = nprng.uniform(0, 1, (nw, 3))
    style = rng.choice(["mixed", "all-negative", "all-imaginary", "mixed", "one-hop"])
    ham = {(0, 0, 0): {}}
    for a in range(nw):
        ham[(0, 0, 0)][(a, a)] = rng.choice([-0.5, 0.25, -1.0, 0.0]) if style != "all-imaginary" else 0.0
    mats = {"Ham": ham}
    vec = rng.random() < 0.5
    if vec:
        mats["AA"] = {(0, 0, 0): {(0, 0): np.zeros(3, dtype=complex)}}
    kinds = set()

    def add(dic, R, i, j, val):
        mR = tuple(-x for x in R)
        if R == mR and i == j:
            val = np.real(val) + 0j
        dic.setdefault(R, {})[(i, j)] = val
        dic.setdefault(mR, {})[(j, i)] = np.conj(val)
    nhop = 1 if style == "one-hop" else rng.randint(1, 6)
    for _ in range(nhop):
        m = rng.choice([1, 1, 2, 3])
        R = tuple(rng.randint(-m, m) for _ in range(3))
        i, j = rng.randrange(nw), rng.randrange(nw)
        forced = {"all-negative": "neg", "all-imaginary": rng.choice(["imag", "imag-"])}.get(style)
        v, k = sparse_value(rng, forced)
        if R == (0, 0, 0) and i == j:
            continue
        add(ham, R, i, j, v)
        kinds.add(k)
        if vec and rng.random() < 0.7:
            w = np.array([sparse_value(rng, forced)[0] if rng.random() < 0.7 else 0.0 for _ in range(3)], dtype=complex)
            R2 = R if rng.random() < 0.5 else tuple(rng.randint(-1, 1) for _ in range(3))
            if not (R2 == (0, 0, 0) and i == j):
                add(mats["AA"], R2, i, j, w)
    return kind, L, nw, cent, mats, style, kinds


def oracle_sparse(ctx, scale):
    """the whole pipeline on SPARSE structured models: System_R.from_sparse -> do_ws_dist(mp_grid) (remap, MDRS weights,
    exclude_zeros) -> explicit sum at every mesh point must reproduce the k-space matrices of the model; nothing of
    the model may be lost (total sum over R), X(-R) = X(R)^dagger"""
    from wannierberri.system.system_R import System_R
    rng = ctx.rng
    nprng = ctx.nprng()
    for it in range(ctx.n(60, 600) * scale):
        kind, L, nw, cent, mats, style, kinds = gen_sparse_model(rng, nprng)
        mp = gen_mesh(rng, 36)
        wtol = rng.choice([1e-5, 1e-5, 1e-3, 1e-8])
        case = dict(kind=kind, lattice=L, num_wann=nw, centres=cent, mp=mp, ws_dist_tol=wtol, style=style,
                    matrices={k: {str(R): {str(ij): np.array(v) for ij, v in d.items()} for R, d in m.items()} for k, m in mats.items()})
        ctx.count(f"oracle.sparse.style={style}")
        for k in kinds:
            ctx.count(f"oracle.sparse.has_{k}")
        with ctx.attempt("from_sparse + do_ws_dist", case):
            with quiet():
                s = System_R.from_sparse(real_lattice=L, wannier_centers_red=cent, matrices=mats)
                iR_old = s.rvec.iRvec.copy()
                old = {k: s.get_R_mat(k).copy() for k in mats}
                s.do_ws_dist(mp_grid=mp, ws_dist_tol=wtol)
                rv0, _ = build_rvec(L, mp, wtol, np.array(s.wannier_centers_red), record=False)
            far = mirror_outside_box(rv0, mp)
            kpts = np.array([[i / mp[0], j / mp[1], k / mp[2]] for i in range(mp[0]) for j in range(mp[1]) for k in range(mp[2])])
            ctx.case(signature=("sparse", kind, tuple(mp), repr(case["matrices"])), nontrivial=True)
            nR = len(iR_old) + s.rvec.nRvec
            for key in mats:
                a = explicit_sum(kpts, iR_old, old[key])
                b = explicit_sum(kpts, s.rvec.iRvec, s.get_R_mat(key))
                # blocks whose elements are all <= 1e-8 may be dropped by exclude_zeros: bounded loss
                has_tiny = bool(np.any((np.abs(old[key]) > 0) & (np.abs(old[key]) <= 1e-8)))
                allowed = 1e-12 * (1 + np.abs(a).max()) + (1.1e-8 * nR if has_tiny else 0.0)
                err = np.abs(a - b).max()
                if err > allowed:
                    ctx.fail(f"sparse model through do_ws_dist: {key}(k) at a mesh point changed by {err:.3e} "
                             f"(allowed {allowed:.1e}); R vectors before {len(iR_old)}, after {s.rvec.nRvec}", dict(case, err=err))
                tot_a, tot_b = old[key].sum(axis=0), s.get_R_mat(key).sum(axis=0)
                if np.abs(tot_a - tot_b).max() > allowed:
                    ctx.fail(f"sparse model through do_ws_dist: the total sum over R of {key} changed by "
                             f"{np.abs(tot_a - tot_b).max():.3e} (part of the model was lost)", case)
                if s.rvec.nRvec == 0:       # the folded model vanishes identically: every R vector was (rightly) dropped
                    ctx.count("oracle.sparse.everything_dropped")
                    continue
                with quiet():
                    h = np.abs(s.rvec.conj_XX_R(s.get_R_mat(key), ignore_mR_not_found=True) - s.get_R_mat(key)).max()
                if h > 1e-12 * (1 + np.abs(a).max()):
                    ctx.fail(f"sparse model through do_ws_dist: {key}(-R) != {key}(R)^dagger ({h:.3e})", case,
                             kf="F12-hermiticity-far-centres" if far else None)


def replay(ctx, case):
    oracle(ctx, 1)
