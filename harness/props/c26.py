"""C26 - system interpolation reproduces its endpoints (k-space matrices, centres, R-vector shifts) and is affine."""
import warnings

import numpy as np

from ..common import F, rat, rats, intss, quiet, parse_rats
from .c18 import make_system, rand_Rs, rand_mats, rand_lattice

PID = "C26"
CLAIM = dict(
    design="3/C26",
    technique="Lean 4 proof over a model of SystemInterpolator (union R list in arbitrary order, re-embedding with "
              "zeros, common-key filter, affine mix of matrices and centres, shifts rebuilt from the mixed centres) "
              "for an arbitrary field and Bloch character + exact differential correspondence + property oracle on "
              "the real code",
    text="Theorems, for every field K, every function chi of the lattice vector, every pair of R lists without "
         "repetitions and EVERY order of their union: re-embedding preserves every k-space sum; at alpha=0 / alpha=1 "
         "the interpolated centres, R-vector shifts and every common matrix (hence every k-space matrix and every "
         "k-derivative, which depends on R + t_j - t_i) are those of system0 / system1; centres, shifts and matrices "
         "at (1-t)a+tb are the same affine combination of their values at a and b; exactly the matrices present in "
         "both systems survive.  The pre-repair behaviour (shifts left at system0's, finding F14) is kept as a "
         "labelled model.  Model and code are compared exactly on the real union order; the oracle checks energies "
         "and Berry curvature at the endpoints against the original systems, affinity for alpha inside and outside "
         "[0,1], alphas within 1e-3 ... 1e-12 of the end points, accumulated alphas and finite differences with tiny steps "
         "(X(alpha) - X(1) = (alpha-1)(X1-X0) exactly in the model: no flat neighbourhood of an end point; the "
         "snap-to-endpoint rule is refuted by a counterexample), and the SOC interpolator's sub-systems; call histories on one "
         "interpolator (repeated and interleaved alphas with in-place modification of the returned systems): "
         "interpolate is a function of (system0, system1, alpha) only.",
    note="Trusted: Lean kernel + Mathlib; the harness; numpy arithmetic; evaluate_k as the observation channel.",
)
TRUSTED = [
    "modelled: SystemInterpolator.__init__ (union, iRvec_map, re-embedding, key filter) and interpolate (mix, shifts)",
    "not modelled (oracle only): copy.deepcopy, Rvectors construction, set_pointgroup, evaluate_k, SystemInterpolatorSOC "
    "(its three inherited interpolations are checked on the real code at the matrix level)",
    "the call-history state machine (runFresh: a fresh object per interpolate call; theorem interpolate_is_a_function, "
    "counterexample memoised_interpolate_is_aliased) is tied to the code by the call-history oracle only, not by a driver line",
    "Python set iteration order: arbitrary - the theorems hold for every order; the correspondence uses the order the code produced",
]
RULE = ("pairs of random Hermitian System_R on the same lattice: num_wann 1-4, 1-9 R-vectors each with equal, "
        "overlapping and disjoint (except 0) R sets, matrix sets {Ham}, {Ham,AA}, {Ham,AA,SS}, {Ham,SS} in all "
        "combinations, different centres; alpha in {0,1}, inside and outside [0,1], end point +- {1e-3,1e-5,8e-6,1e-7,1e-9,1e-12}, sum([0.1]*10), finite differences with h down to 1e-7; histories of 5-8 interpolate calls per interpolator with the returned systems modified in place between calls; use_pointgroup 0/1/-1; "
        "non-trivial = R sets differ or matrix sets differ; distinct = distinct (sizes, R sets, keys, seed)")


def gen_pair(rng, nprng, exact=False, nw=None, L=None):
    nw = nw or rng.randint(1, 4)
    if L is None:
        L = np.diag([1.0, 2.0, 0.5]) if exact else rand_lattice(nprng)
    mode = rng.choice(["equal", "overlap", "overlap", "disjoint"])
    R0 = rand_Rs(rng, rng.choice([1, 2, 3, 5, 9]))
    if mode == "equal":
        R1 = list(R0)
        rng.shuffle(R1)
    elif mode == "overlap":
        R1 = list({*rng.sample(R0, max(1, len(R0) // 2)), (0, 0, 0), *rand_Rs(rng, rng.choice([1, 3, 5]))})
        rng.shuffle(R1)
    else:
        R1 = [(0, 0, 0)] + [R for R in rand_Rs(rng, 5) if R not in R0]
        rng.shuffle(R1)
    keysets = [["Ham"], ["Ham", "AA"], ["Ham", "AA", "SS"], ["Ham", "SS"]]
    k0, k1 = rng.choice(keysets), rng.choice(keysets)
    if exact:
        val = lambda shape: nprng.integers(-64, 64, shape) / 16.0
        w0 = nprng.integers(-16, 16, (nw, 3)) / 8.0
        w1 = nprng.integers(-16, 16, (nw, 3)) / 8.0
    else:
        val = lambda shape: nprng.uniform(-1, 1, shape)
        w0 = nprng.uniform(-0.6, 0.6, (nw, 3))
        w1 = w0 + nprng.uniform(-0.4, 0.4, (nw, 3)) if rng.random() < 0.8 else w0.copy()
    s0 = make_system(nw, R0, L, w0, rand_mats(rng, nprng, nw, R0, k0, val))
    s1 = make_system(nw, R1, L, w1, rand_mats(rng, nprng, nw, R1, k1, val))
    return s0, s1, dict(num_wann=nw, lattice=L, R0=R0, R1=R1, keys0=k0, keys1=k1, centres0=w0, centres1=w1, mode=mode)


def corr(ctx):
    with quiet():
        from wannierberri.system.interpolate import SystemInterpolator
    rng, nprng = ctx.rng, ctx.nprng()
    lines, checks = [], []

    def add(line, check, what, case):
        lines.append(line)
        checks.append((check, what, case))

    def exact_list(x):
        return [F(v) for v in np.asarray(x).reshape(-1)]

    for it in range(ctx.n(12, 60)):
        s0, s1, spec = gen_pair(rng, nprng, exact=True)
        case = {k: spec[k] for k in ("num_wann", "R0", "R1", "keys0", "keys1", "mode")}
        ctx.count(f"corr.mode={spec['mode']}")
        with ctx.attempt("SystemInterpolator.__init__", case):
            with quiet(), warnings.catch_warnings():
                warnings.simplefilter("ignore")
                ip = SystemInterpolator(s0, s1, use_pointgroup=-1)
            Rn = [tuple(int(x) for x in R) for R in ip.system0.rvec.iRvec]
            common = sorted(set(spec["keys0"]) & set(spec["keys1"]))
            got_keys = (sorted(ip.system0._XX_R), sorted(ip.system1._XX_R))
            add(f"keys {','.join(spec['keys0'])} {','.join(spec['keys1'])}",
                (lambda out, g=got_keys: None if (sorted(out.split(',')), sorted(out.split(','))) == g else f"model {out} code {g}"),
                "matrices kept by __init__", case)
            for which, s, sp, Rold in ((0, s0, ip.system0, spec["R0"]), (1, s1, ip.system1, spec["R1"])):
                for key in common:
                    X = np.asarray(s.get_R_mat(key))
                    nc = int(np.prod(X.shape[1:]))
                    # real and imaginary parts are embedded the same way: send them as 2*nc components
                    Xf = np.concatenate([X.real.reshape(len(Rold), nc), X.imag.reshape(len(Rold), nc)], axis=1)
                    E = np.asarray(sp._XX_R[key])
                    Ef = np.concatenate([E.real.reshape(len(Rn), nc), E.imag.reshape(len(Rn), nc)], axis=1)
                    want = exact_list(Ef)
                    add(f"embed {intss(Rold)} {intss(Rn)} {2 * nc} {rats(exact_list(Xf))}",
                        (lambda out, want=want: None if parse_rats(out) == want else "embedded matrix differs"),
                        f"re-embedding of {key} of system{which} into the union list", dict(case, union=Rn, key=key))
            alpha = rng.choice([0.0, 1.0, 0.5, 0.25, -0.5, 1.75, 0.375])
            with quiet(), warnings.catch_warnings():
                warnings.simplefilter("ignore")
                sa = ip.interpolate(alpha)
            for key in common:
                a, b, c = (np.asarray(x._XX_R[key]) for x in (ip.system0, ip.system1, sa))
                fl = lambda z: exact_list(np.concatenate([z.real.reshape(-1), z.imag.reshape(-1)]))
                want = fl(c)
                add(f"mix {rat(F(alpha))} {rats(fl(a))} {rats(fl(b))}",
                    (lambda out, want=want: None if parse_rats(out) == want else "interpolated matrix differs"),
                    f"interpolate({alpha}) of {key}", dict(case, alpha=alpha, key=key))
            Li = np.linalg.inv(spec["lattice"])
            want = [float(x) for x in np.asarray(sa.rvec.shifts_left_red).reshape(-1)]
            wc = exact_list(sa.wannier_centers_cart)
            add(f"mix {rat(F(alpha))} {rats(exact_list(spec['centres0']))} {rats(exact_list(spec['centres1']))}",
                (lambda out, wc=wc: None if parse_rats(out) == wc else "interpolated centres differ"),
                f"interpolate({alpha}) centres", dict(case, alpha=alpha))
            add(f"shifts {rat(F(alpha))} {rats(exact_list(Li))} {rats(exact_list(spec['centres0']))} {rats(exact_list(spec['centres1']))}",
                (lambda out, want=want: None if all(abs(float(m) - w) <= 1e-15 * max(1, abs(w)) for m, w in zip(parse_rats(out), want))
                 and len(parse_rats(out)) == len(want) else f"model {out} code {want}"),
                f"interpolate({alpha}) R-vector shifts", dict(case, alpha=alpha))
    out = ctx.lean(lines)
    for l, o, (check, what, case) in zip(lines, out, checks):
        ctx.case(signature=l[:1500], nontrivial=True)
        msg = check(o) if o != "bad-op" else "model rejected the line"
        if msg:
            ctx.mismatch(f"{what}: {msg}", dict(case, line=l[:300]))
    if lines:
        ctx.sample(dict(protocol_line=lines[1][:300], model=out[1][:300]))


def kquant(s, k, with_aa):
    from ..wbsys import evalk
    q = ["energy", "berry_curvature" if with_aa else "berry_curvature_internal_terms"]
    r = evalk(s, k, q)
    return r["energy"], r[q[1]]


def strip(s, keys):
    """a copy of the system holding only the given matrices (what interpolation can reproduce)"""
    import copy
    t = copy.deepcopy(s)
    for k in list(t._XX_R):
        if k not in keys:
            del t._XX_R[k]
    return t



EPS = 2.3e-16


def fields(s, soc=False):
    """everything of an interpolated system that must be affine in alpha"""
    out = {f"matrix {k}": np.asarray(v) for k, v in s._XX_R.items()}
    out["Wannier centres"] = np.asarray(s.wannier_centers_cart)
    out["R-vector shifts"] = np.asarray(s.rvec.shifts_left_red)
    out["R + t_j - t_i"] = np.asarray(s.rvec.cRvec_shifted)
    if soc:
        for tag, sub in (("up", s.system_up), ("down", s.system_down)):
            for k, v in fields(sub).items():
                out[f"{tag}: {k}"] = v
    return out


def near_endpoints(ctx, ip, case, soc=False, quick=True):
    """alpha arbitrarily close to (but different from) an end point, accumulated alphas, and finite differences with
    tiny steps: X(alpha) = X(0) + alpha (X(1) - X(0)) to rounding, for matrices, centres and shifts"""
    rng = ctx.rng
    with quiet(), warnings.catch_warnings():
        warnings.simplefilter("ignore")
        F0, F1 = fields(ip.interpolate(0), soc), fields(ip.interpolate(1), soc)
    offs = [1e-3, 1e-5, 8e-6, 1e-7, 1e-9, 1e-12]
    alphas = [e + sg * d for e in (0.0, 1.0) for d in offs for sg in (1, -1)]
    alphas += [sum([0.1] * 10), sum([0.1] * 3), 1 - sum([0.1] * 10) + 0.0, 0.5 + 1e-9]
    if quick:
        alphas = [1 - 8e-6, 1 + 8e-6, 1e-5, sum([0.1] * 10)] + rng.sample(alphas, 2)
    for a in alphas:
        with quiet(), warnings.catch_warnings():
            warnings.simplefilter("ignore")
            Fa = fields(ip.interpolate(a), soc)
        for name in F0:
            sc = np.abs(F0[name]).max() + np.abs(F1[name]).max() + 1e-300
            want = F0[name] + a * (F1[name] - F0[name])
            d = np.abs(Fa[name] - want).max() if Fa[name].size else 0.0
            if d > 8 * EPS * sc * (1 + abs(a)):
                ctx.fail(f"{name} at alpha = {a!r} is not X(0) + alpha (X(1) - X(0)): deviation {d:.2e} "
                         f"(|X1 - X0| = {np.abs(F1[name] - F0[name]).max():.2e}) - not affine near the end point",
                         dict(case, alpha=a))
                return
    # finite differences with tiny steps around 0, 1/2 and 1
    for a in ((rng.choice([0.0, 0.5]), 1.0) if quick else (0.0, 0.5, 1.0)):
        for h in ([rng.choice([1e-5, 8e-6, 1e-7])] if quick else [1e-3, 1e-5, 8e-6, 1e-7]):
            with quiet(), warnings.catch_warnings():
                warnings.simplefilter("ignore")
                Fm, Fc, Fp = (fields(ip.interpolate(x), soc) for x in (a - h, a, a + h))
            for name in F0:
                if not Fc[name].size:
                    continue
                sc = np.abs(F0[name]).max() + np.abs(F1[name]).max() + 1e-300
                d2 = np.abs(Fp[name] - 2 * Fc[name] + Fm[name]).max()
                d1 = np.abs((Fp[name] - Fc[name]) / h - (F1[name] - F0[name])).max()
                if d2 > 16 * EPS * sc or d1 > 16 * EPS * sc / h:
                    ctx.fail(f"{name}: finite differences in alpha with step {h:g} around alpha = {a}: second difference "
                             f"{d2:.2e} (bound {16 * EPS * sc:.1e}), slope error {d1:.2e} (bound {16 * EPS * sc / h:.1e})",
                             dict(case, alpha=a, h=h))
                    return
    ctx.count("oracle.near_endpoints" + (".soc" if soc else ""))


def snapshot(s, soc=False):
    return {k: np.array(v, copy=True) for k, v in fields(s, soc).items()}


def same_fields(a, b):
    if sorted(a) != sorted(b):
        return f"fields {sorted(set(a) ^ set(b))}"
    for k in a:
        if a[k].shape != b[k].shape or not np.array_equal(a[k], b[k]):
            return k
    return None


def call_history(ctx, ip, s0, s1, case, soc=False):
    """histories on ONE interpolator: interpolate(alpha) is a function of (system0, system1, alpha) only - repeated
    calls with the same alpha, interleaved with other alphas and with in-place modifications of the systems that
    were returned earlier (a caller may do anything with a System_R it was given), give the same result; the
    interpolator's own systems and the input systems are not affected either"""
    rng, nprng = ctx.rng, ctx.nprng()
    ref, log = {}, []
    alphas = [0.0, 1.0, float(rng.choice([0.25, 0.5, 0.3])), float(nprng.uniform(-0.5, 1.5))]
    in0, in1 = snapshot(s0, soc), snapshot(s1, soc)
    for step in range(rng.randint(5, 8)):
        a = alphas[step] if step < 4 else rng.choice(alphas)
        with quiet(), warnings.catch_warnings():
            warnings.simplefilter("ignore")
            sa = ip.interpolate(a)
        now = snapshot(sa, soc)
        log.append(f"interpolate({a!r})")
        if a in ref:
            bad = same_fields(ref[a], now)
            if bad:
                ctx.fail(f"interpolate({a!r}) called again on the same interpolator differs in '{bad}' from its first result "
                         f"after {log}", dict(case, history=list(log)))
                return
        else:
            ref[a] = now
        # the caller modifies the system it was given, in place
        mod = rng.choice(["matrix", "matrix", "centres", "set_R_mat", "sub"])
        targets = [sa] + ([sa.system_up] if soc and mod == "sub" else [])
        t = targets[-1]
        with quiet(), warnings.catch_warnings():
            warnings.simplefilter("ignore")
            if mod in ("matrix", "sub") and t._XX_R:
                k = rng.choice(sorted(t._XX_R))
                t._XX_R[k] *= 3.0
                t._XX_R[k] += 1.0
                log.append(f"returned system: {k}_R modified in place")
            elif mod == "set_R_mat" and t._XX_R:
                k = rng.choice(sorted(t._XX_R))
                t.set_R_mat(k, np.zeros_like(t._XX_R[k]), reset=True)
                log.append(f"returned system: set_R_mat({k}, 0, reset=True)")
            else:
                t.wannier_centers_cart += 0.125
                t.rvec.shifts_left_red += 0.25
                log.append("returned system: centres and shifts moved in place")
    for name, s, snap in (("system0", s0, in0), ("system1", s1, in1)):
        bad = same_fields(snap, snapshot(s, soc))
        if bad:
            ctx.fail(f"the input {name} handed to the interpolator was changed ('{bad}') by {log}", dict(case, history=list(log)))
    ctx.count("oracle.call_history" + (".soc" if soc else ""))

def oracle(ctx, scale):
    with quiet():
        from wannierberri.system.interpolate import SystemInterpolator, SystemInterpolatorSOC
        from wannierberri.system.system_soc import SystemSOC
        from wannierberri.fourier.rvectors import Rvectors
    rng, nprng = ctx.rng, ctx.nprng()
    for it in range(ctx.n(14, 90) * scale):
        s0, s1, spec = gen_pair(rng, nprng)
        common = sorted(set(spec["keys0"]) & set(spec["keys1"]))
        upg = rng.choice([1, 0, -1])
        case = dict({k: spec[k] for k in ("num_wann", "lattice", "R0", "R1", "keys0", "keys1", "centres0", "centres1")},
                    use_pointgroup=upg)
        ctx.count(f"oracle.mode={spec['mode']}")
        ctx.count(f"oracle.keys={'same' if spec['keys0'] == spec['keys1'] else 'different'}")
        ctx.case(signature=("pair", repr(spec["R0"]), repr(spec["R1"]), tuple(spec["keys0"]), tuple(spec["keys1"]), it),
                 nontrivial=(spec["mode"] != "equal" or spec["keys0"] != spec["keys1"]))
        with ctx.attempt("SystemInterpolator", case):
            with quiet(), warnings.catch_warnings():
                warnings.simplefilter("ignore")
                ip = SystemInterpolator(s0, s1, use_pointgroup=upg)
                e0, e1 = ip.interpolate(0), ip.interpolate(1)
            with_aa = "AA" in common
            # ---- endpoints: same k-space matrices and k-derivatives as the original systems
            for name, end, orig in (("alpha=0", e0, s0), ("alpha=1", e1, s1)):
                k = nprng.uniform(-0.5, 0.5, 3)
                ref = strip(orig, common)
                E, O = kquant(end, k, with_aa)
                Er, Or = kquant(ref, k, with_aa)
                gap = np.min(np.diff(np.sort(Er))) if len(Er) > 1 else 1.0
                sc = 1 + np.abs(Er).max()
                if np.abs(E - Er).max() > 1e-12 * sc:
                    ctx.fail(f"{name}: band energies differ from the end system by {np.abs(E - Er).max():.2e}", dict(case, k=k))
                elif gap > 1e-3 and np.abs(O - Or).max() > 1e-10 * (1 + np.abs(Or).max()) * (sc / gap) ** 2:
                    ctx.fail(f"{name}: Berry curvature differs from the end system by {np.abs(O - Or).max():.2e} "
                             f"(values up to {np.abs(Or).max():.2e})", dict(case, k=k, with_AA=with_aa))
                if not np.allclose(end.wannier_centers_cart, orig.wannier_centers_cart, rtol=0, atol=1e-15):
                    ctx.fail(f"{name}: Wannier centres differ from the end system", case)
                if np.abs(end.rvec.shifts_left_red - orig.rvec.shifts_left_red).max() > 1e-14 or \
                        np.abs(end.rvec.shifts_right_red - orig.rvec.shifts_right_red).max() > 1e-14:
                    ctx.fail(f"{name}: the R-vector shifts are not those of the end system "
                             f"(difference {np.abs(end.rvec.shifts_left_red - orig.rvec.shifts_left_red).max():.2e})", case)
                if sorted(end._XX_R) != common:
                    ctx.fail(f"{name}: matrices {sorted(end._XX_R)} instead of the common ones {common}", case)
            # ---- affinity for alpha inside and outside [0, 1]
            a, b, t = nprng.uniform(-1, 2), nprng.uniform(-1, 2), nprng.uniform(-0.5, 1.5)
            if rng.random() < 0.3:
                a, b, t = 0.0, 1.0, float(rng.choice([0.25, 0.5, 0.75]))
            g = (1 - t) * a + t * b
            with quiet(), warnings.catch_warnings():
                warnings.simplefilter("ignore")
                sa, sb, sg = ip.interpolate(a), ip.interpolate(b), ip.interpolate(g)
            acase = dict(case, alpha=a, beta=b, t=t)
            for key in common:
                d = np.abs(sg._XX_R[key] - ((1 - t) * sa._XX_R[key] + t * sb._XX_R[key])).max()
                if d > 2e-14 * (1 + abs(a) + abs(b)) * (1 + abs(t)):
                    ctx.fail(f"matrix {key} is not affine in alpha: deviation {d:.2e}", acase)
            for name, f in (("Wannier centres", lambda s: s.wannier_centers_cart), ("R-vector shifts", lambda s: s.rvec.shifts_left_red),
                            ("R + t_j - t_i", lambda s: s.rvec.cRvec_shifted)):
                d = np.abs(f(sg) - ((1 - t) * f(sa) + t * f(sb))).max()
                if d > 2e-14 * (1 + abs(a) + abs(b)) * (1 + abs(t)) * (1 + np.abs(f(sg)).max()):
                    ctx.fail(f"{name} are not affine in alpha: deviation {d:.2e}", acase)
            if np.abs(sg.rvec.shifts_left_red - sg.wannier_centers_red).max() > 1e-14:
                ctx.fail("the R-vector shifts of the interpolated system are not its Wannier centres", acase)
            if not np.array_equal(sg.rvec.iRvec, ip.system0.rvec.iRvec):
                ctx.fail("the interpolated system does not live on the union R-vector list", acase)
            if it % 2 == 1 or ctx.tier != "quick":
                with quiet(), warnings.catch_warnings():
                    warnings.simplefilter("ignore")
                    ip2 = SystemInterpolator(s0, s1, use_pointgroup=upg)
                call_history(ctx, ip2, s0, s1, case)
            if it % 3 == 0 or ctx.tier != "quick":
                near_endpoints(ctx, ip, case, quick=(ctx.tier == "quick"))

    # ---------------- SOC interpolator (matrix level; SystemSOC objects assembled by hand)
    for it in range(ctx.n(3, 12) * scale):
        nsp = rng.choice([1, 2])
        with ctx.attempt("SystemInterpolatorSOC", dict(nspin=nsp, it=it)):
            pairs = [gen_pair(rng, nprng)]
            nw, L = pairs[0][2]["num_wann"], pairs[0][2]["lattice"]
            if nsp == 2:
                pairs.append(gen_pair(rng, nprng, nw=nw, L=L))
            socs = []
            for side in (0, 1):
                ups = pairs[0][side]
                if nsp == 2:
                    dn = pairs[1][side]
                    with quiet():
                        soc = SystemSOC(ups, dn)
                else:
                    with quiet():
                        soc = SystemSOC(ups)
                Rs = rand_Rs(rng, rng.choice([1, 3, 5]))
                soc.rvec = Rvectors(lattice=soc.real_lattice, iRvec=np.array(Rs), shifts_left_red=soc.wannier_centers_red)
                for key in ["dV_soc_wann_0_0"] + (["overlap_up_down"] if side == 0 or rng.random() < 0.7 else []):
                    shape = (len(Rs), nw, nw) + ((3,) if key.startswith("dV") else ())
                    soc._XX_R[key] = nprng.uniform(-1, 1, shape) + 1j * nprng.uniform(-1, 1, shape)
                socs.append(soc)
            case = dict(nspin=nsp, num_wann=nw)
            ctx.case(signature=("soc", nsp, nw, it), nontrivial=True)
            ctx.count(f"oracle.soc.nspin={nsp}")
            with quiet(), warnings.catch_warnings():
                warnings.simplefilter("ignore")
                ip = SystemInterpolatorSOC(socs[0], socs[1], use_pointgroup=-1)
                a = float(nprng.uniform(-0.5, 1.5))
                e0, e1, ea = ip.interpolate(0), ip.interpolate(1), ip.interpolate(a)
            for name, end, orig in (("alpha=0", e0, socs[0]), ("alpha=1", e1, socs[1])):
                if np.abs(end.wannier_centers_cart - orig.wannier_centers_cart).max() > 1e-15:
                    ctx.fail(f"SOC {name}: centres differ", case)
                if np.abs(end.rvec.shifts_left_red - orig.rvec.shifts_left_red).max() > 1e-14:
                    ctx.fail(f"SOC {name}: R-vector shifts differ from the end system", case)
                if np.abs(end.system_up.wannier_centers_cart - orig.system_up.wannier_centers_cart).max() > 1e-15 or \
                        np.abs(end.system_up.rvec.shifts_left_red - orig.system_up.rvec.shifts_left_red).max() > 1e-14:
                    ctx.fail(f"SOC {name}: the spin-up sub-system does not have the end system's centres/shifts", case)
                k = nprng.uniform(-0.5, 0.5, 3)
                common_up = sorted(set(socs[0].system_up._XX_R) & set(socs[1].system_up._XX_R))
                E, _ = kquant(end.system_up, k, "AA" in common_up)
                Er, _ = kquant(strip(orig.system_up, common_up), k, "AA" in common_up)
                if np.abs(E - Er).max() > 1e-12 * (1 + np.abs(Er).max()):
                    ctx.fail(f"SOC {name}: bands of the spin-up sub-system differ from the end system", case)
                if nsp == 2:
                    E, _ = kquant(end.system_down, k, False)
                    Er, _ = kquant(strip(orig.system_down, ["Ham"]), k, False)
                    if np.abs(E - Er).max() > 1e-12 * (1 + np.abs(Er).max()):
                        ctx.fail(f"SOC {name}: bands of the spin-down sub-system differ from the end system", case)
                # the SOC matrices themselves, through their k-space sums at a random k
                for key in sorted(set(socs[0]._XX_R) & set(socs[1]._XX_R)):
                    ph_end = np.exp(2j * np.pi * end.rvec.iRvec.dot(k))
                    ph_or = np.exp(2j * np.pi * orig.rvec.iRvec.dot(k))
                    A = np.tensordot(ph_end, end._XX_R[key], axes=(0, 0))
                    B = np.tensordot(ph_or, orig._XX_R[key], axes=(0, 0))
                    if np.abs(A - B).max() > 1e-12 * (1 + np.abs(B).max()):
                        ctx.fail(f"SOC {name}: k-space sum of {key} differs from the end system", case)
            for key in ea._XX_R:
                d = np.abs(ea._XX_R[key] - ((1 - a) * e0._XX_R[key] + a * e1._XX_R[key])).max()
                if d > 2e-14 * (1 + abs(a)):
                    ctx.fail(f"SOC matrix {key} is not affine in alpha", dict(case, alpha=a))
            with quiet(), warnings.catch_warnings():
                warnings.simplefilter("ignore")
                ip2 = SystemInterpolatorSOC(socs[0], socs[1], use_pointgroup=-1)
            call_history(ctx, ip2, socs[0], socs[1], case, soc=True)
            if it % 2 == 0:
                near_endpoints(ctx, ip, case, soc=True, quick=(ctx.tier == "quick"))


def replay(ctx, case):
    oracle(ctx, 1)
